"""C03 — only keys that trusted metadata binds to the claimed issuer validate a signature:
correspondence harness.

Real code exercised (in-process, xmlsec1 replaced by the stand-in):
  Saml2Client.parse_authn_request_response   signed Response; signed Assertion plain / encrypted; an encrypted
                                             assertion next to a plain one of another issuer; an advice assertion
                                             (encrypted / plain) of another issuer inside a signed assertion
  Saml2Client.parse_logout_request_response  LogoutResponse, HTTP-POST
  Entity.parse_logout_request (on the SP)    LogoutRequest, HTTP-POST and SOAP
  Server.parse_authn_request                 AuthnRequest, HTTP-POST enveloped; HTTP-Redirect detached
  Server.parse_logout_request                LogoutRequest, HTTP-Redirect detached
i.e. SecurityContext._check_signature (with and without its issuer= argument), MetaData.certs,
CryptoBackendXmlSec1.validate_signature, Request._do_redirect_sig_check + verify_redirect_signature +
extract_rsa_key_from_x509_cert + RSASigner.verify.  Metadata certificates are RSA, EC, Ed25519, DSA or malformed;
signers include the receiver's own key.

The model's input (metadata shape, claimed issuer, signing key, embedded KeyInfo, option) is the
harness's own abstract case; the metadata document is rendered by an independent writer below.
Keys/certificates are named by the committed key files of harness/keys; a certificate is identified
with the public key it carries.

Observables compared with the model: accept/reject; the certificates handed to a verifier, in order,
without repetitions ("x:" = file given to the xmlsec1 stand-in as --pubkey-cert-pem, read back and
matched by content against the committed certificates; "r:" = certificate given to
verify_redirect_signature); whether every stand-in verification ran with
`--enabled-key-data raw-x509-cert` (LOG[...]["restricted"])."""
import base64
import copy
import json
import os
import urllib.parse
import zlib

import scenario as S
from standin import xmlsec_standin as X

PROP = "C03"
LEAN_PROPS = "PysamlModel.Props.C03"
MODEL_TARGETS = ["PysamlModel.Gen.KeysDefaults", "PysamlModel.Model.Keys", "PysamlModel.Spec.C03"]
AUDIT = "PysamlModel/Audit/C03.lean"
DRIVER = "Drivers/C03.lean"
CORRESPONDENCE = ("Drivers/C03.lean (Keys.accept) vs parse_authn_request_response / Server.parse_authn_request / "
                  "parse_logout_request with the xmlsec1 stand-in")
EXHAUSTIVE = True
PARALLEL = True
RULE = ("complete product 6 signer keys x 3 claimed issuers x 4 KeyInfo shapes x only_use_keys_in_metadata "
        "{True, False} x 11 message kinds (Response, Assertion, encrypted Assertion, encrypted assertion next to "
        "another issuer's plain one, encrypted advice assertion inside another issuer's assertion, LogoutResponse/POST, "
        "AuthnRequest/POST, LogoutRequest/POST, LogoutRequest/SOAP, AuthnRequest/Redirect detached, "
        "LogoutRequest/Redirect detached) = 1584 cells, every cell run against the real code; "
        "plus the default-configuration column (option not set), corrupted signatures, absent/padded issuer, "
        "multi-certificate KeyInfo, metadata certificate kinds {EC, Ed25519, DSA, malformed} x use x signer incl. the "
        "receiver's own key, directed and random metadata shapes (several roles, use absent/signing/encryption, "
        "several certificates, key descriptors without X509Data / X509Data without certificate, no metadata configured); "
        "non-trivial = a verifier was actually handed a certificate or the case was accepted; "
        "distinct = distinct case JSON")
TRUSTED = [
    "xmlsec1 stand-in (harness/standin): key selection model (--enabled-key-data raw-x509-cert => only the "
    "certificate given by --pubkey-cert-pem; otherwise an embedded KeyInfo key is preferred), real RSA PKCS#1 v1.5",
    "ideal signatures in the model: a signature made with key k verifies under a certificate iff it carries k",
    "metadata XML -> mdstore dictionaries (saml2.mdstore/mdie) is exercised, not modelled; model input is the "
    "harness's own metadata specification",
    "certificate parsing by cryptography/OpenSSL; a certificate is identified with its public key",
]
ASSUMPTIONS = [
    "single metadata source with unique entityIDs (multi-source precedence is C11)",
    "want_authn_requests_only_with_valid_cert / validate_certificate not set (non-default certificate-chain mode)",
    "keys published in an AffiliationDescriptor are outside the model (MetaData.certs does not look there)",
    "messages are otherwise valid (time, destination, status, audience): accept/reject depends on the signature only",
]


def _gen_defaults():
    from translate import keys as T
    return T.generate()


GEN = [_gen_defaults]

KEYS = ["idp_sign", "idp_sign2", "idp_enc", "member2", "sp", "attacker"]
ALLKEYS = KEYS + ["idp2", "sp2", "sp_enc1", "sp_enc2"]
# every kind is one signed item `m` (issuer, signer, keyinfo of the case) travelling in some way; the nested
# kinds additionally have a first item `first` (default: issued by the other member M, signed with member2)
KINDS = ["response", "assertion", "enc_assertion", "resp_assertion", "resp_enc_assertion", "plain_plus_enc", "advice_enc",
         "logout_resp_post", "authn_post", "logout_post", "logout_soap", "redirect", "logout_redirect"]
# nested kinds, (outer signed element `first`, inner signed element `m`): resp_assertion = (Response, plain Assertion),
# resp_enc_assertion = (Response, EncryptedAssertion), plain_plus_enc = (plain Assertion, EncryptedAssertion next to
# it), advice_enc = (Assertion, encrypted Advice assertion), advice_plain = (Assertion, plain Advice assertion: only
# `first` is ever verified)
RESP_OUTER = ("resp_assertion", "resp_enc_assertion")
NESTED = RESP_OUTER + ("plain_plus_enc", "advice_enc", "advice_plain")
ASSERTION_LIKE = ("assertion", "enc_assertion") + NESTED
IDP_RECEIVES = ("authn_post", "redirect", "logout_redirect")
# forms a configuration value is written in and that the unchanged code reads consistently with their meaning
# ("False"/"TRUE"/"no" ... stay truthy strings and are NOT among them)
FORMS_ON = [True, "true", 1]
FORMS_OFF = [False, "false", 0, ""]
SP_RECEIVES = ("response", "logout_resp_post", "logout_post", "logout_soap") + ASSERTION_LIKE
DETACHED = ("redirect", "logout_redirect")
OWN = "sp"   # the receiver's own key in every configuration below

# certificates that are not RSA certificates: kind as the model sees it
CERT_KINDS = {"c15_ec256": "other", "c15_ed25519": "other", "c15_dsa2048": "other", "garbage": "malformed"}
GARBAGE_B64 = base64.b64encode(b"this is not a certificate, only thirty-eight bytes").decode()

# entity ids of the fixed federation; the *sender* is an IdP when the SP receives and an SP when the IdP receives
E_IDP, M_IDP, U_IDP = S.IDP_ID, S.IDP2_ID, "https://unknown.verif.example/idp"
E_SP, M_SP, U_SP = "https://sender.verif.example/sp", S.SP2_ID, "https://unknown.verif.example/sp"

SIG_RSA_SHA256 = "http://www.w3.org/2001/04/xmldsig-more#rsa-sha256"
SIG_RSA_SHA1 = "http://www.w3.org/2000/09/xmldsig#rsa-sha1"

_state = {}
_rx = {"handed": []}


# ------------------------------------------------------------------ instrumentation


def cert_text(name):
    return GARBAGE_B64 if name == "garbage" else S.cert_b64(name)


def _cert_name_from_b64(b64):
    b64 = "".join(b64.split())
    for n in ALLKEYS + list(CERT_KINDS):
        if cert_text(n) == b64:
            return n
    return "?"


def _cert_name_from_pem(data):
    if data is None:
        return "?"
    if isinstance(data, bytes):
        data = data.decode("ascii", "replace")
    return _cert_name_from_b64("".join(l for l in data.splitlines() if "-----" not in l))


def setup():
    S.install()
    import saml2.request
    import saml2.sigver

    base = saml2.sigver.Popen
    if getattr(base, "_c03", False):
        return

    class LoggingPopen(base):
        """Reads the certificate file named on the command line before the stand-in runs (pysaml2 deletes
        its temporary files) and joins it with the stand-in's own LOG record of the invocation."""
        _c03 = True

        def __init__(self, com_list, *a, **kw):
            n0 = len(X.LOG)
            content = None
            for i, arg in enumerate(com_list[:-1]):
                if arg.startswith("--pubkey-cert-"):
                    try:
                        with open(com_list[i + 1], "rb") as f:
                            content = f.read()
                    except OSError:
                        content = None
            super().__init__(com_list, *a, **kw)
            for rec in X.LOG[n0:]:
                if rec.get("mode") == "verify":
                    _rx["handed"].append(("x", _cert_name_from_pem(content), bool(rec.get("restricted")), bool(rec.get("ok"))))

    saml2.sigver.Popen = LoggingPopen

    # speed only: OpenSSL validates an RSA private key on every load (~45 ms); the stand-in loads the signing
    # key once per --sign.  Give the stand-in module (and nothing else) a memoising loader.
    real_ser = X.serialization
    cache = {}

    class _Ser:
        def __getattr__(self, k):
            return getattr(real_ser, k)

        @staticmethod
        def load_pem_private_key(data, password, *a, **kw):
            k = (bytes(data), password)
            if k not in cache:
                cache[k] = real_ser.load_pem_private_key(data, password, *a, **kw)
            return cache[k]

    X.serialization = _Ser()

    orig = saml2.request.verify_redirect_signature

    def logging_vrs(saml_msg, crypto, cert=None, sigkey=None):
        _rx["handed"].append(("r", _cert_name_from_b64(cert) if isinstance(cert, str) else "?", True, None))
        return orig(saml_msg, crypto, cert, sigkey)

    saml2.request.verify_redirect_signature = logging_vrs


# ------------------------------------------------------------------ metadata (independent writer)

ROLE_TAG = {
    "idpsso": ("IDPSSODescriptor", '<md:SingleSignOnService Binding="%s" Location="%%s/sso"/>' % S.BINDING_REDIRECT),
    "spsso": ("SPSSODescriptor", '<md:AssertionConsumerService Binding="%s" Location="%%s/acs" index="0"/>' % S.BINDING_POST),
    "authn_authority": ("AuthnAuthorityDescriptor", '<md:AuthnQueryService Binding="%s" Location="%%s/aq"/>' % S.BINDING_SOAP),
    "attribute_authority": ("AttributeAuthorityDescriptor", '<md:AttributeService Binding="%s" Location="%%s/attr"/>' % S.BINDING_SOAP),
    "pdp": ("PDPDescriptor", '<md:AuthzService Binding="%s" Location="%%s/authz"/>' % S.BINDING_SOAP),
}
# order in which the md schema wants role descriptors does not matter (a choice group); we keep the case's order


# optional children / attributes of KeyDescriptor, KeyInfo and X509Data that publish no key; the model ignores them
EXTRAS = {
    "keyname": ("ki", "<ds:KeyName>key-1</ds:KeyName>"),
    "keyname-empty": ("ki", "<ds:KeyName/>"),
    "keyname-twice": ("ki", "<ds:KeyName>key-1</ds:KeyName><ds:KeyName/>"),
    "keyvalue": ("ki", "<ds:KeyValue><ds:RSAKeyValue><ds:Modulus>AQAB</ds:Modulus><ds:Exponent>AQAB</ds:Exponent>"
                       "</ds:RSAKeyValue></ds:KeyValue>"),
    "keyinfo-id": ("kiattr", ' Id="key-info-1"'),
    "subjectname": ("x509pre", "<ds:X509SubjectName>CN=subject</ds:X509SubjectName>"),
    "subjectname-empty": ("x509pre", "<ds:X509SubjectName/>"),
    "issuerserial": ("x509pre", "<ds:X509IssuerSerial><ds:X509IssuerName>CN=issuer</ds:X509IssuerName>"
                                "<ds:X509SerialNumber>1</ds:X509SerialNumber></ds:X509IssuerSerial>"),
    "ski": ("x509pre", "<ds:X509SKI>AQAB</ds:X509SKI>"),
    "crl": ("x509post", "<ds:X509CRL>AQAB</ds:X509CRL>"),
    "encmethod": ("kd", '<md:EncryptionMethod Algorithm="http://www.w3.org/2001/04/xmlenc#aes128-cbc"/>'
                        '<md:EncryptionMethod Algorithm="http://www.w3.org/2001/04/xmlenc#rsa-oaep-mgf1p">'
                        '<xenc:KeySize xmlns:xenc="http://www.w3.org/2001/04/xmlenc#">128</xenc:KeySize></md:EncryptionMethod>'),
}
# `use` values: "" is dropped by the parser (= absent); any other text is not in the schema's enumeration and makes
# mdstore refuse the whole metadata DOCUMENT (every issuer of the source becomes unknown) — the driver applies the
# same two rules
VALID_USE = (None, "", "signing", "encryption")


def _keydescriptor(kd):
    use = ' use="%s"' % S.xesc(kd["use"]) if kd.get("use") is not None else ""
    ex = {}
    for name in kd.get("extras", []):
        where, xml = EXTRAS[name]
        ex[where] = ex.get(where, "") + xml

    def x509data(c):
        # a None entry: an X509Data that carries no certificate; "": an EMPTY X509Certificate element;
        # a list: SEVERAL X509Certificate elements in one X509Data (pysaml2 keeps the last)
        if c is None:
            return "<ds:X509Data><ds:X509SubjectName>CN=no-certificate</ds:X509SubjectName></ds:X509Data>"
        cs = c if isinstance(c, list) else [c]
        return "<ds:X509Data>%s%s%s</ds:X509Data>" % (ex.get("x509pre", ""), "".join(
            "<ds:X509Certificate>%s</ds:X509Certificate>" % (cert_text(x) if x else "") for x in cs), ex.get("x509post", ""))

    if not kd.get("certs"):  # None or []: a KeyInfo without any X509Data
        inner = "" if "ki" in ex else "<ds:KeyName>key-without-certificate</ds:KeyName>"
    else:
        inner = "".join(x509data(c) for c in kd["certs"])
    return "<md:KeyDescriptor%s><ds:KeyInfo%s>%s%s</ds:KeyInfo>%s</md:KeyDescriptor>" % (
        use, ex.get("kiattr", ""), ex.get("ki", ""), inner, ex.get("kd", ""))


def md_xml(md):
    parts = []
    for e in md["entities"]:
        parts.append('<md:EntityDescriptor entityID="%s">' % S.xesc(e["id"]))
        base = e["id"].rsplit("/", 1)[0]
        for r in e["roles"]:
            tag, ep = ROLE_TAG[r["kind"]]
            parts.append('<md:%s protocolSupportEnumeration="urn:oasis:names:tc:SAML:2.0:protocol">' % tag)
            parts.append("".join(_keydescriptor(k) for k in r["keys"]))
            parts.append(ep % S.xesc(base))
            parts.append("</md:%s>" % tag)
        parts.append("</md:EntityDescriptor>")
    return ('<?xml version="1.0" encoding="UTF-8"?>\n<md:EntitiesDescriptor xmlns:md="%s" '
            'xmlns:ds="http://www.w3.org/2000/09/xmldsig#">%s</md:EntitiesDescriptor>' % (S.MDNS, "".join(parts)))


def kd(use, *certs):
    return {"use": use, "certs": list(certs)}


def fixed_md(role):
    e, m = (E_IDP, M_IDP) if role == "idpsso" else (E_SP, M_SP)
    return {"configured": True, "entities": [
        {"id": e, "roles": [{"kind": role, "keys": [kd("signing", "idp_sign"), kd("signing", "idp_sign2"),
                                                    kd("encryption", "idp_enc")]}]},
        {"id": m, "roles": [{"kind": role, "keys": [kd("signing", "member2")]}]},
    ]}


def ids_for(kind):
    return (E_IDP, M_IDP, U_IDP) if kind in SP_RECEIVES else (E_SP, M_SP, U_SP)


# ------------------------------------------------------------------ generators


def keyinfo_shapes(signer):
    """the quantifier's four shapes: none / signer's certificate / victim's certificate / bare RSAKeyValue"""
    return [("none", {"certs": [], "rsa": None}),
            ("signer-cert", {"certs": [signer], "rsa": None}),
            ("victim-cert", {"certs": ["idp_sign"], "rsa": None}),
            ("rsa-keyvalue", {"certs": [], "rsa": signer})]


NO_KI = {"certs": [], "rsa": None}


def role_for(kind):
    return "idpsso" if kind in SP_RECEIVES else "spsso"


def mk(kind, md, only, issuer, signer, ki, first=None, **cfg):
    """one case; certificate kinds of the non-RSA certificates the metadata mentions travel with the case.
    cfg: ovc_form / must_form (IdP receivers), want_form (SP receivers), cfg_class="generic" """
    c = {"kind": kind, "md": md, "only_md": only, "issuer": issuer, "signer": signer, "keyinfo": ki}
    if kind in IDP_RECEIVES:
        c["must_form"] = cfg.pop("must_form", True)
    c.update(cfg)
    kinds = {n: CERT_KINDS[n] for e in md["entities"] for r in e["roles"] for k in r["keys"]
             for c in (k["certs"] or []) for n in (c if isinstance(c, list) else [c]) if n and n in CERT_KINDS}
    if kinds:
        c["cert_kinds"] = kinds
    if kind in NESTED:
        _, m_id, _ = ids_for(kind)
        c["first"] = first or {"issuer": m_id, "signer": "member2", "keyinfo": NO_KI}
    return c


def with_member(md, kind):
    """nested kinds: the first item is issued by member M, so M must be in the metadata for anything to happen"""
    if kind not in NESTED or not md["configured"]:
        return md
    _, m_id, _ = ids_for(kind)
    if any(e["id"] == m_id for e in md["entities"]):
        return md
    return {"configured": True, "entities": md["entities"] + [
        {"id": m_id, "roles": [{"kind": role_for(kind), "keys": [kd("signing", "member2")]}]}]}


def table_cases(only_values, kinds=None):
    for kind in kinds or KINDS:
        md = fixed_md(role_for(kind))
        for issuer in ids_for(kind):
            for signer in KEYS:
                for _, ki in keyinfo_shapes(signer):
                    for only in only_values:
                        yield mk(kind, md, only, issuer, signer, ki)


def gen_role(rng, kinds):
    keys = []
    for _ in range(rng.choice([0, 1, 1, 2, 2, 3])):
        use = rng.choice([None, "signing", "signing", "encryption"])
        if rng.random() < 0.07:
            keys.append({"use": use, "certs": None})
        else:
            pool = KEYS[:4] + ["idp2", "sp2"] + (list(CERT_KINDS) if rng.random() < 0.15 else [])
            cs = [rng.choice(pool) for _ in range(rng.choice([1, 1, 1, 2]))]
            if rng.random() < 0.06:
                cs.insert(rng.randrange(len(cs) + 1), rng.choice([None, ""]))
            if rng.random() < 0.06:
                cs[0] = [rng.choice(KEYS[:4]), cs[0]] if cs[0] else cs[0]
            k = {"use": use, "certs": cs}
            if rng.random() < 0.25:
                k["extras"] = rng.sample(sorted(EXTRAS), rng.choice([1, 1, 2, 3]))
            if rng.random() < 0.04:
                k["use"] = rng.choice(["", "", "bogus", "Signing"])
            keys.append(k)
    return {"kind": rng.choice(kinds), "keys": keys}


def gen_md(rng, role):
    """random metadata shape: 1-2 entities, 1-3 role descriptors each"""
    e_id, m_id, _ = (E_IDP, M_IDP, U_IDP) if role == "idpsso" else (E_SP, M_SP, U_SP)
    other = ["idpsso", "spsso", "authn_authority", "attribute_authority", "pdp"]
    ents = []
    for eid in [e_id, m_id][: rng.choice([1, 2, 2])]:
        roles = [gen_role(rng, [role])]
        for _ in range(rng.choice([0, 0, 1, 2])):
            roles.append(gen_role(rng, other))
        rng.shuffle(roles)
        ents.append({"id": eid, "roles": roles})
    return {"configured": True, "entities": ents}


def random_cases(rng, n_md, per):
    for _ in range(n_md):
        kind = rng.choice(KINDS + ["advice_plain"])
        role = role_for(kind)
        if rng.random() < 0.06:
            md = {"configured": False, "entities": []}
        else:
            md = gen_md(rng, role)
            if rng.random() < 0.7:
                md = with_member(md, kind)
        published = sorted({n for e in md["entities"] for r in e["roles"] for k in r["keys"]
                            for c in (k["certs"] or []) for n in (c if isinstance(c, list) else [c])
                            if n and n not in CERT_KINDS})
        e_id, m_id, u_id = ids_for(kind)
        for _ in range(per):
            c = rng.randrange(10)
            issuer = e_id if c < 6 else m_id if c < 8 else u_id if c < 9 else rng.choice([None, " " + e_id + "\n", e_id + "/", e_id.upper()])
            if kind in ASSERTION_LIKE and issuer is None:
                issuer = e_id  # saml:Assertion without Issuer is not schema-valid: rejected before any key question
            c = rng.randrange(10)
            signer = rng.choice(published) if (published and c < 5) else rng.choice(KEYS) if c < 9 else None
            c = rng.randrange(10)
            s = signer or "attacker"
            if c < 3:
                ki = NO_KI
            elif c < 6:
                ki = {"certs": [s], "rsa": None}
            elif c < 7:
                ki = {"certs": [rng.choice(published or ["idp_sign"])], "rsa": None}
            elif c < 8:
                ki = {"certs": [], "rsa": s}
            elif c < 9:
                ki = {"certs": [rng.choice(KEYS), s], "rsa": None}
            else:
                ki = {"certs": [rng.choice(KEYS)], "rsa": s}
            only = rng.choice([True, False, False, None])
            first = None
            if kind in NESTED and rng.random() < 0.3:
                fs = rng.choice(["member2", "member2", "attacker", "idp_sign", OWN])
                first = {"issuer": rng.choice([m_id, m_id, e_id]), "signer": fs,
                         "keyinfo": rng.choice([NO_KI, {"certs": [fs], "rsa": None}])}
            yield mk(kind, md, only, issuer, signer, ki, first)


def extras(kind, quick):
    """adversarial inputs on the fixed federation"""
    md = fixed_md(role_for(kind))
    e_id, m_id, u_id = ids_for(kind)
    for only in (True, False):
        # signature value that verifies under no key
        for ki in (NO_KI, {"certs": ["idp_sign"], "rsa": None}, {"certs": ["attacker"], "rsa": None})[:2 if quick else 3]:
            yield mk(kind, md, only, e_id, None, ki)
            yield mk(kind, md, only, u_id, None, ki)
        # victim certificate first, attacker's second (and the other way round), certificate + RSAKeyValue
        for ki in ({"certs": ["idp_sign", "attacker"], "rsa": None}, {"certs": ["attacker", "idp_sign"], "rsa": None},
                   {"certs": ["idp_sign"], "rsa": "attacker"}):
            for iss in (e_id, u_id):
                yield mk(kind, md, only, iss, "attacker", ki)
        # issuer look-alikes / padded / absent
        for iss in (" " + e_id + " ", e_id + "/", e_id.upper(), None):
            if iss is None and kind in ASSERTION_LIKE:
                continue
            for signer in ("idp_sign", "attacker"):
                for ki in ({"certs": [signer], "rsa": None}, NO_KI, {"certs": ["member2", signer], "rsa": None})[:1 if (quick and iss is not None) else 3]:
                    yield mk(kind, md, only, iss, signer, ki)
        # no metadata configured at all
        for signer in ("idp_sign", "attacker"):
            yield mk(kind, {"configured": False, "entities": []}, only, e_id, signer, {"certs": [signer], "rsa": None})
    if kind in NESTED:
        # the first item itself: wrong key, the receiver's own key, roles swapped (first from E, item from M)
        for only in (True, False):
            for fs in ("attacker", OWN, "idp_sign"):
                yield mk(kind, md, only, e_id, "idp_sign", NO_KI, {"issuer": m_id, "signer": fs, "keyinfo": {"certs": [fs], "rsa": None}})
            for signer in ("member2", "idp_sign", "attacker"):
                yield mk(kind, md, only, m_id, signer, NO_KI, {"issuer": e_id, "signer": "idp_sign2", "keyinfo": NO_KI})
                yield mk(kind, md, only, u_id, signer, {"certs": [signer], "rsa": None}, {"issuer": e_id, "signer": "idp_sign", "keyinfo": NO_KI})


def directed(kind, quick):
    """directed metadata shapes: a signing key descriptor without X509Data (contributes no certificate; the input
    class of the repaired defect C03/keyless-keydescriptor-fallback), an X509Data without certificate, a
    certificate-less descriptor only, a certificate-less descriptor in another role or with use="encryption", an
    entity with an encryption key only, an entity without any key, keys spread over several role descriptors"""
    role = role_for(kind)
    e_id, m_id, u_id = ids_for(kind)
    shapes = [
        [{"kind": role, "keys": [{"use": "signing", "certs": None}, kd("signing", "idp_sign"), kd("encryption", "idp_enc")]}],
        [{"kind": role, "keys": [{"use": "signing", "certs": [None]}, kd("signing", None, "idp_sign")]}],
        [{"kind": role, "keys": [kd("signing", ""), kd("signing", "idp_sign")]}],   # repaired defect C03/empty-certificate-fallback
        [{"kind": role, "keys": [kd(None, "idp_sign2", "")]}],
        [{"kind": role, "keys": [{"use": None, "certs": None}]}],
        [{"kind": role, "keys": [kd(None, "idp_sign")]}, {"kind": "attribute_authority", "keys": [{"use": None, "certs": None}]}],
        [{"kind": role, "keys": [{"use": "encryption", "certs": None}, kd("signing", "idp_sign")]}],
        [{"kind": role, "keys": [kd("encryption", "idp_enc")]}],
        [{"kind": role, "keys": []}],
        [{"kind": "pdp", "keys": [kd(None, "idp_sign2")]}, {"kind": role, "keys": [kd("signing", "idp_sign", "idp_enc")]},
         {"kind": "authn_authority", "keys": [kd("encryption", "member2")]}],
    ]
    signers = ("idp_sign", "idp_enc", "attacker") if quick else ("idp_sign", "idp_sign2", "idp_enc", "attacker")
    for roles in shapes:
        md = with_member({"configured": True, "entities": [{"id": e_id, "roles": roles}]}, kind)
        for only in (True, False, None):
            for signer in signers:
                for ki in (NO_KI, {"certs": [signer], "rsa": None}, {"certs": ["member2", signer], "rsa": None})[:2 if quick else 3]:
                    yield mk(kind, md, only, e_id, signer, ki)


def cert_kind_cases(kind, quick):
    """metadata certificates that are not RSA certificates (EC, Ed25519, DSA, malformed) x use x signer, where the
    signers include the receiver's own key; alone and followed / preceded by an RSA certificate"""
    role = role_for(kind)
    e_id, m_id, u_id = ids_for(kind)
    signers = ("idp_sign", "member2", OWN, "attacker")
    for x in list(CERT_KINDS) + [""]:   # "": an empty X509Certificate element (contributes none)
        alone = with_member({"configured": True, "entities": [{"id": e_id, "roles": [{"kind": role, "keys": [kd("signing", x)]}]}]}, kind)
        before = with_member({"configured": True, "entities": [{"id": e_id, "roles": [{"kind": role, "keys": [kd("signing", x), kd("signing", "idp_sign")]}]}]}, kind)
        after = with_member({"configured": True, "entities": [{"id": e_id, "roles": [{"kind": role, "keys": [kd("signing", "idp_sign2", x)]}]}]}, kind)
        for signer in signers:
            yield mk(kind, alone, True, e_id, signer, NO_KI)
        for signer in ("idp_sign", OWN):
            yield mk(kind, before, True, e_id, signer, NO_KI)
            yield mk(kind, after, True, e_id, "idp_sign2" if signer == "idp_sign" else signer, NO_KI)
        if True:
            for use in (None, "encryption"):
                mdu = with_member({"configured": True, "entities": [{"id": e_id, "roles": [{"kind": role, "keys": [kd(use, x)]}]}]}, kind)
                for signer in (OWN, "attacker"):
                    yield mk(kind, mdu, False, e_id, signer, {"certs": [signer], "rsa": None})
        if not quick:
            for only in (True, False, None):
                for signer in signers + ("idp_sign2",):
                    for ki in (NO_KI, {"certs": [signer], "rsa": None}):
                        for md in (alone, before, after):
                            yield mk(kind, md, only, e_id, signer, ki)


def reload_cases(kind):
    """the receiver starts with two metadata sources and then reloads with a configuration that lists only the
    first (Entity.reload_metadata): the entities of the dropped source `stale` must stop vouching for keys"""
    role = role_for(kind)
    e_id, m_id, u_id = ids_for(kind)
    md = {"configured": True, "entities": [{"id": e_id, "roles": [{"kind": role, "keys": [kd("signing", "idp_sign")]}]}]}
    stale = {"configured": True, "entities": [{"id": m_id, "roles": [{"kind": role, "keys": [kd("signing", "member2")]}]}]}
    first = {"issuer": e_id, "signer": "idp_sign", "keyinfo": NO_KI}
    for only in (True, False, None):
        for issuer, signer, ki in ((m_id, "member2", NO_KI), (m_id, "member2", {"certs": ["member2"], "rsa": None}),
                                   (e_id, "member2", NO_KI), (e_id, "idp_sign", NO_KI)):
            c = mk(kind, md, only, issuer, signer, ki, first)
            c["stale"] = stale
            yield c


def form_cases(kind, quick):
    """the options that reach key selection or the acceptance tail, in every written form, for both configuration
    classes: want_authn_requests_only_with_valid_cert / want_authn_requests_signed (IdP), only_use_keys_in_metadata,
    want_response_signed / want_assertions_signed (SP)"""
    md = fixed_md(role_for(kind))
    e_id, m_id, u_id = ids_for(kind)
    probes = [(e_id, "attacker", NO_KI), (e_id, "idp_sign2", NO_KI), (e_id, None, NO_KI),
              (u_id, "attacker", {"certs": ["attacker"], "rsa": None}), (e_id, OWN, {"certs": [OWN], "rsa": None})]
    classes = ({}, {"cfg_class": "generic"})
    if kind in IDP_RECEIVES:
        for f in FORMS_ON + FORMS_OFF:
            for cls in classes:
                for only in (True, False):
                    for iss, signer, ki in probes[:4] if quick else probes:
                        yield mk(kind, md, only, iss, signer, ki, ovc_form=f, **cls)
        for f in FORMS_ON[1:] + FORMS_OFF:
            for cls in classes:
                for iss, signer, ki in probes[:3]:
                    yield mk(kind, md, True, iss, signer, ki, must_form=f, **cls)
                    yield mk(kind, md, True, iss, signer, {"certs": [signer or "attacker"], "rsa": None}, must_form=f, **cls)
    else:
        for f in FORMS_ON + FORMS_OFF:
            for cls in classes:
                for iss, signer, ki in probes[:2] + probes[3:4]:
                    yield mk(kind, md, False, iss, signer, ki, want_form=f, **cls)
    for f in FORMS_ON[1:] + FORMS_OFF[1:]:
        for cls in classes:
            for iss, signer, ki in probes[1:2] + probes[3:]:
                yield mk(kind, md, f, iss, signer, ki, **cls)


def optional_children_cases(kind, quick):
    """every optional child / attribute of KeyDescriptor, KeyInfo, X509Data as present / empty / repeated, several
    certificates in one X509Data, several X509Data, `use` absent / "" / signing / encryption / other text: the
    issuer publishes a signing certificate, so only that key validates — whatever else the descriptor carries"""
    role = role_for(kind)
    e_id, m_id, u_id = ids_for(kind)
    kds = [dict(kd("signing", "idp_sign"), extras=[x]) for x in EXTRAS]
    kds.append(dict(kd("signing", "idp_sign"), extras=sorted(EXTRAS)))
    kds += [{"use": "signing", "certs": [["idp_sign2", "idp_sign"]]}, {"use": "signing", "certs": [["idp_sign", "attacker"], "idp_sign"]},
            {"use": "", "certs": ["idp_sign"]}, {"use": "bogus", "certs": ["idp_sign"]}, {"use": "Signing", "certs": ["idp_sign"]}]
    for k in kds:
        for keys in ([k], [dict(kd("encryption", "idp_enc"), extras=k.get("extras", [])), k]):
            md = with_member({"configured": True, "entities": [{"id": e_id, "roles": [{"kind": role, "keys": keys}]}]}, kind)
            yield mk(kind, md, False, e_id, "attacker", {"certs": ["attacker"], "rsa": None})
            yield mk(kind, md, True, e_id, "idp_sign", NO_KI)
            if not quick:
                yield mk(kind, md, False, e_id, "idp_sign2", {"certs": ["idp_sign2"], "rsa": None})
                yield mk(kind, md, None, e_id, OWN, {"certs": [OWN], "rsa": None})


SIGALGS = ["sha1", "sha224", "sha256", "sha384", "sha512",                       # the five the library implements
           "rsa-md5", "ecdsa-sha256", "dsa-sha1", "", "absent", "unknown", "upper", "padded"]
SIGFORMS = ["genuine", "random", "empty", "absent"]


def detached_param_cases(kind, quick):
    """SigAlg x Signature forms of the Redirect binding: a request whose signature was verified under NO key must
    never count as signed"""
    md = fixed_md(role_for(kind))
    e_id, m_id, u_id = ids_for(kind)
    ec = {"configured": True, "entities": [{"id": e_id, "roles": [{"kind": role_for(kind), "keys": [kd("signing", "garbage", "c15_ec256", "idp_sign")]}]}]}
    for alg in SIGALGS:
        for form in SIGFORMS:
            for signer in ("idp_sign", "attacker", OWN):
                if quick and signer == OWN and form != "genuine":
                    continue
                yield mk(kind, md, True, e_id, signer, NO_KI, sigalg=alg, sigform=form)
            yield mk(kind, ec, True, e_id, "idp_sign", NO_KI, sigalg=alg, sigform=form)
            if form == "genuine":   # with an additional enveloped signature (model: one signer for both signatures)
                yield mk(kind, md, False, e_id, "idp_sign", {"certs": ["idp_sign"], "rsa": None}, sigalg=alg, sigform=form)
            if form in ("genuine", "random"):
                yield mk(kind, md, True, u_id, "attacker", NO_KI, sigalg=alg, sigform=form)


def gen_cases(rng, tier):
    quick = tier == "quick"
    # 1. the quantifier's product, completely (both tiers), for every kind
    for c in table_cases([True, False]):
        yield c
    # 2. the default-configuration column: option not set at all
    for c in table_cases([None]):
        if c["keyinfo"]["certs"] == [c["signer"]] or not quick:
            yield c
    # 3. adversarial extras on the fixed federation
    for kind in KINDS + ["advice_plain"]:
        for c in extras(kind, quick):
            yield c
    # 4. certificate kinds in metadata
    for kind in KINDS:
        for c in cert_kind_cases(kind, quick):
            yield c
    # 5. directed metadata shapes
    for kind in KINDS:
        for c in directed(kind, quick):
            yield c
    # 6. metadata reloaded with a source dropped
    for kind in KINDS:
        for c in reload_cases(kind):
            yield c
    # 7. written forms of the options, both configuration classes
    for kind in KINDS:
        for c in form_cases(kind, quick):
            yield c
    # 8. optional children / attributes of the key descriptors
    for kind in KINDS:
        for c in optional_children_cases(kind, quick):
            yield c
    # 9. parameter forms of the detached signature
    for kind in DETACHED:
        for c in detached_param_cases(kind, quick):
            yield c
    # 10. random metadata shapes
    n_md, per = (40, 12) if quick else (400, 20)
    for c in random_cases(rng, n_md, per):
        yield c


# ------------------------------------------------------------------ receivers


def _receiver(case):
    kind, md, only_md, stale = case["kind"], case["md"], case["only_md"], case.get("stale")
    sp_side = kind in SP_RECEIVES
    group = "response" if (kind == "response" or kind in RESP_OUTER) else "assertion" if kind in ASSERTION_LIKE else ""
    forms = [case.get(k, "-") for k in ("ovc_form", "must_form", "want_form", "cfg_class")]
    key = json.dumps([sp_side, group, md, only_md, stale, forms], sort_keys=True)
    if key in _state:
        return _state[key]
    if len(_state) > 64:
        _state.clear()
    extra = {}
    if only_md is not None:
        extra["only_use_keys_in_metadata"] = only_md
    if sp_side:
        spx = {}
        want = case.get("want_form", True)
        if group == "response":
            spx = {"want_response_signed": want, "want_assertions_signed": False}
        elif group == "assertion":
            spx = {"want_response_signed": False, "want_assertions_signed": want}
        conf = S.sp_config(sp=spx, **extra)   # own key: sp; decryption key: sp_enc1
    else:
        idpx = {"want_authn_requests_signed": case.get("must_form", True)}
        if "ovc_form" in case:
            idpx["want_authn_requests_only_with_valid_cert"] = case["ovc_form"]
        conf = S.idp_config(idp=idpx, key_file=S.key_path(OWN), cert_file=S.cert_path(OWN), **extra)
    if md["configured"]:
        conf["metadata"] = {"inline": [md_xml(md)] + ([md_xml(stale)] if stale else [])}
    else:
        del conf["metadata"]
    if case.get("cfg_class") == "generic":
        from saml2.client import Saml2Client
        from saml2.config import Config
        from saml2.server import Server

        cfg = Config()
        cfg.load(conf)
        rcv = (Saml2Client if sp_side else Server)(config=cfg)
    else:
        rcv = (S.make_sp if sp_side else S.make_idp)(conf)
    if stale:
        # the new configuration lists the first source only
        if not rcv.reload_metadata({"inline": [md_xml(md)]}):
            raise RuntimeError("harness: reload_metadata did not succeed")
    _state[key] = rcv
    return rcv


# ------------------------------------------------------------------ message construction (the sender / attacker side)


def _tools():
    if "tools" not in _state:
        # a plain IdP and SP used only to *produce* message skeletons and to reach sign_statement
        _state["tools"] = (S.make_idp(S.idp_config()), S.make_sp(S.sp_config()))
    return _state["tools"]


def _skeleton(kind):
    """an unsigned, otherwise valid message object for this kind (built once, copied per case)"""
    k = "skel:" + kind
    if k in _state:
        return copy.deepcopy(_state[k])
    from saml2 import saml, samlp
    from saml2.authn_context import INTERNETPROTOCOLPASSWORD

    idp, sp = _tools()
    with S.clock(S.NOW0):
        if kind == "response" or kind in ASSERTION_LIKE:
            nid = saml.NameID(text="subject-1", format=saml.NAMEID_FORMAT_TRANSIENT)
            msg = idp.create_authn_response({"uid": ["u1"]}, "id-req-1", S.SP_ACS_POST, S.SP_ID, name_id=nid,
                                            authn={"class_ref": INTERNETPROTOCOLPASSWORD, "authn_auth": "x"},
                                            sign_response=False, sign_assertion=False)
        elif kind in ("authn_post", "redirect"):
            dest = S.IDP_SSO_POST if kind == "authn_post" else S.IDP_SSO_REDIRECT
            _, msg = sp.create_authn_request(dest, binding=S.BINDING_POST, sign=False)
        elif kind == "logout_resp_post":
            msg = samlp.LogoutResponse(id="id-logout-resp-1", version="2.0", issue_instant=S.fmt_time(S.NOW0),
                                       destination=S.SP_SLO_POST, in_response_to="id-logout-req-1",
                                       issuer=saml.Issuer(text=E_IDP, format=saml.NAMEID_FORMAT_ENTITY),
                                       status=samlp.Status(status_code=samlp.StatusCode(value=samlp.STATUS_SUCCESS)))
        else:
            dest = {"logout_post": S.SP_SLO_POST, "logout_soap": S.SP_SLO_SOAP, "logout_redirect": S.IDP_SLO_REDIRECT}[kind]
            msg = samlp.LogoutRequest(id="id-logout-1", version="2.0", issue_instant=S.fmt_time(S.NOW0), destination=dest,
                                      issuer=saml.Issuer(text=E_IDP, format=saml.NAMEID_FORMAT_ENTITY),
                                      name_id=saml.NameID(text="subject-1", format=saml.NAMEID_FORMAT_TRANSIENT),
                                      not_on_or_after=S.fmt_time(S.NOW0 + 600))
    _state[k] = msg
    return copy.deepcopy(msg)


def _rsa_numbers(name):
    from cryptography import x509

    pub = x509.load_pem_x509_certificate(open(S.cert_path(name), "rb").read()).public_key().public_numbers()
    tob = lambda v: base64.b64encode(v.to_bytes((v.bit_length() + 7) // 8, "big")).decode()
    return tob(pub.n), tob(pub.e)


def _key_info(ki):
    from saml2 import xmldsig as ds

    if not ki["certs"] and not ki["rsa"]:
        return None
    k = ds.KeyInfo()
    # ds:KeyInfo children in schema order: KeyValue before X509Data (pysaml2 serialises in c_child_order)
    if ki["rsa"]:
        n, e = _rsa_numbers(ki["rsa"])
        k.key_value = [ds.KeyValue(rsa_key_value=ds.RSAKeyValue(modulus=ds.Modulus(text=n), exponent=ds.Exponent(text=e)))]
    k.x509_data = [ds.X509Data(x509_certificate=ds.X509Certificate(text=cert_text(c))) for c in ki["certs"]]
    return k


def _corrupt_b64(s):
    s = s.strip()
    return ("A" if s[0] != "A" else "B") + s[1:]


def _sign_enveloped(msg, target, signer, ki):
    """serialise `msg` with an enveloped signature on `target` (msg itself or its assertion) made with `signer`"""
    import re
    from saml2 import class_name
    from saml2.sigver import pre_signature_part

    idp, _ = _tools()
    sig = pre_signature_part(target.id)
    sig.key_info = _key_info(ki)
    target.signature = sig
    xml = str(msg)
    signed = idp.sec.sign_statement(xml, node_name=class_name(target), key_file=S.key_path(signer or "attacker"),
                                    node_id=target.id)
    if signer is None:
        signed = re.sub(r"(<[\w.-]*:?SignatureValue[^>]*>)([^<]+)", lambda m: m.group(1) + _corrupt_b64(m.group(2)), signed, count=1)
    return signed


def _template(target, ki, n=None):
    from saml2.sigver import pre_signature_part

    sig = pre_signature_part(target.id, None, n)
    sig.key_info = _key_info(ki)
    target.signature = sig


def _sign_text(text, target, signer):
    """fill the signature template of `target` inside the serialised document `text` with `signer`'s key"""
    import re
    from saml2 import class_name

    idp, _ = _tools()
    signed = idp.sec.sign_statement(text, node_name=class_name(target), key_file=S.key_path(signer or "attacker"),
                                    node_id=target.id)
    if signer is None:
        # corrupt the SignatureValue that follows the Reference to this element
        signed = re.sub(r'(URI="#%s".*?<[\w.-]*:?SignatureValue[^>]*>)([^<]+)' % re.escape(target.id),
                        lambda m: m.group(1) + _corrupt_b64(m.group(2)), signed, count=1, flags=re.S)
    return signed


def _xpath(*names):
    return "".join('/*[local-name()="%s"]' % n for n in names)


def _encrypt(text, *path):
    """encrypt the element at `path` for the SP's encryption key sp_enc1"""
    from saml2.sigver import pre_encryption_part

    idp, _ = _tools()
    return idp.sec.encrypt_assertion(text, S.cert_path("sp_enc1"), pre_encryption_part(), node_xpath=_xpath(*path))


def _build_assertion_like(case):
    """Response documents for the assertion-borne kinds (the Response itself is unsigned)"""
    from saml2 import saml

    kind, issuer, signer, ki = case["kind"], case["issuer"], case["signer"], case["keyinfo"]
    resp = _skeleton(kind)
    a = resp.assertion[0] if isinstance(resp.assertion, list) else resp.assertion
    if kind == "enc_assertion":
        _set_issuer(resp, issuer)
        _set_issuer(a, issuer)
        _template(a, ki)
        ea = saml.EncryptedAssertion()
        ea.add_extension_element(a)
        resp.assertion = []
        resp.encrypted_assertion = [ea]
        text = _sign_text(str(resp), a, signer)
        return _encrypt(text, "Response", "EncryptedAssertion", "Assertion")
    first = case["first"]
    if kind in RESP_OUTER:
        # outer signed element: the Response (issuer/key of `first`); inner: its assertion `m`, plain or encrypted
        _set_issuer(resp, first["issuer"])
        _set_issuer(a, issuer)
        _template(resp, first["keyinfo"], 1)
        _template(a, ki, 2)
        if kind == "resp_enc_assertion":
            ea = saml.EncryptedAssertion()
            ea.add_extension_element(a)
            resp.assertion = []
            resp.encrypted_assertion = [ea]
        text = _sign_text(str(resp), a, signer)
        if kind == "resp_enc_assertion":
            text = _encrypt(text, "Response", "EncryptedAssertion", "Assertion")
        return _sign_text(text, resp, first["signer"])
    _set_issuer(resp, first["issuer"])
    _set_issuer(a, first["issuer"])
    b = copy.deepcopy(a)
    b.id = "id-second-item-1"
    _set_issuer(b, issuer)
    _template(a, first["keyinfo"], 1)
    _template(b, ki, 2)
    if kind == "plain_plus_enc":
        # a plain assertion of `first` and, next to it, an encrypted assertion `m`
        ea = saml.EncryptedAssertion()
        ea.add_extension_element(b)
        resp.assertion = [a]
        resp.encrypted_assertion = [ea]
        text = _sign_text(str(resp), b, signer)
        text = _encrypt(text, "Response", "EncryptedAssertion", "Assertion")
        return _sign_text(text, a, first["signer"])
    # advice assertion `m` inside the assertion of `first`: signed, (encrypted,) then covered by first's signature
    b.authn_statement = []
    a.advice = saml.Advice()
    resp.assertion = a
    if kind == "advice_enc":
        ea = saml.EncryptedAssertion()
        ea.add_extension_element(b)
        a.advice.encrypted_assertion = [ea]
    else:
        a.advice.assertion = [b]
    text = _sign_text(str(resp), b, signer)
    if kind == "advice_enc":
        text = _encrypt(text, "Response", "Assertion", "Advice", "EncryptedAssertion", "Assertion")
    return _sign_text(text, a, first["signer"])


def _set_issuer(obj, issuer):
    from saml2 import saml

    if issuer is None:
        obj.issuer = None
    else:
        obj.issuer = saml.Issuer(text=issuer, format=saml.NAMEID_FORMAT_ENTITY)


def build_message(case):
    """-> (call arguments for the receiver) for this case"""
    kind, issuer, signer, ki = case["kind"], case["issuer"], case["signer"], case["keyinfo"]
    if kind == "enc_assertion" or kind in NESTED:
        return {"xml": base64.b64encode(_build_assertion_like(case).encode("utf-8")).decode()}
    msg = _skeleton(kind)
    _set_issuer(msg, issuer)
    if kind in ("response", "assertion"):
        # the assertion names the same issuer as the response (saml:Assertion must have one: when the case
        # has no issuer, only the Response goes without and the unsigned assertion keeps the skeleton's)
        assertion = msg.assertion[0] if isinstance(msg.assertion, list) else msg.assertion
        if issuer is not None:
            _set_issuer(assertion, issuer)
        target = msg if kind == "response" else assertion
        xml = _sign_enveloped(msg, target, signer, ki)
        return {"xml": base64.b64encode(xml.encode("utf-8")).decode()}
    if kind in ("authn_post", "logout_post", "logout_resp_post"):
        xml = _sign_enveloped(msg, msg, signer, ki)
        return {"xml": base64.b64encode(xml.encode("utf-8")).decode()}
    if kind == "logout_soap":
        xml = _sign_enveloped(msg, msg, signer, ki)
        env = ('<soapenv:Envelope xmlns:soapenv="http://schemas.xmlsoap.org/soap/envelope/"><soapenv:Body>%s'
               "</soapenv:Body></soapenv:Envelope>" % xml)
        return {"xml": env}
    # redirect: detached signature over the query string; an enveloped signature in addition when the
    # case carries a KeyInfo (there is no other place for a KeyInfo in this binding)
    from cryptography.hazmat.primitives import hashes, serialization
    from cryptography.hazmat.primitives.asymmetric import padding

    if ki["certs"] or ki["rsa"]:
        xml = _sign_enveloped(msg, msg, signer, ki)
    else:
        xml = str(msg)
    enc = base64.b64encode(zlib.compress(xml.encode("utf-8"))[2:-4]).decode()
    alg = case.get("sigalg", "sha256")
    form = case.get("sigform", "genuine")
    sha256 = "http://www.w3.org/2001/04/xmldsig-more#rsa-sha256"
    uri = {"sha1": "http://www.w3.org/2000/09/xmldsig#rsa-sha1", "sha224": "http://www.w3.org/2001/04/xmldsig-more#rsa-sha224",
           "sha256": sha256, "sha384": "http://www.w3.org/2001/04/xmldsig-more#rsa-sha384",
           "sha512": "http://www.w3.org/2001/04/xmldsig-more#rsa-sha512",
           "rsa-md5": "http://www.w3.org/2001/04/xmldsig-more#rsa-md5", "ecdsa-sha256": "http://www.w3.org/2001/04/xmldsig-more#ecdsa-sha256",
           "dsa-sha1": "http://www.w3.org/2000/09/xmldsig#dsa-sha1", "": "", "absent": None, "unknown": "urn:example:no-such-algorithm",
           "upper": sha256.upper(), "padded": sha256 + " "}[alg]
    h = {"sha1": hashes.SHA1, "sha224": hashes.SHA224, "sha384": hashes.SHA384, "sha512": hashes.SHA512}.get(alg, hashes.SHA256)
    args = {"SAMLRequest": enc, "RelayState": "rs-1"}
    if uri is not None:
        args["SigAlg"] = uri
    octets = "&".join(urllib.parse.urlencode({k: args[k]}) for k in ("SAMLRequest", "RelayState", "SigAlg") if k in args).encode("ascii")
    if form == "genuine":
        # a genuine RSA PKCS#1 v1.5 signature by `signer` (with the hash the algorithm names, SHA-256 for the
        # algorithms the library does not implement)
        key = serialization.load_pem_private_key(open(S.key_path(signer or "attacker"), "rb").read(), None)
        sig = key.sign(octets, padding.PKCS1v15(), h())
        if signer is None:
            sig = bytes([sig[0] ^ 0x55]) + sig[1:]
        sig = base64.b64encode(sig).decode()
    elif form == "random":
        import hashlib
        sig = base64.b64encode(b"".join(hashlib.sha256(octets + bytes([i])).digest() for i in range(8))).decode()
    else:
        sig = "" if form == "empty" else None
    return {"xml": enc, "relay_state": "rs-1", "sigalg": uri, "signature": sig}


# ------------------------------------------------------------------ implementation side


def run_impl(case):
    from saml2 import SAMLError

    kind = case["kind"]
    rcv = _receiver(case)
    m = build_message(case)
    del X.LOG[:]
    _rx["handed"] = []
    err = None
    accepted = False
    with S.clock(S.NOW0):
        try:
            if kind == "response" or kind in ASSERTION_LIKE:
                r = rcv.parse_authn_request_response(m["xml"], S.BINDING_POST, {"id-req-1": "/"})
                accepted = bool(r is not None and r.name_id is not None and r.name_id.text == "subject-1")
            elif kind == "logout_resp_post":
                r = rcv.parse_logout_request_response(m["xml"], S.BINDING_POST)
                accepted = bool(r is not None and r.response is not None)
            elif kind == "logout_redirect":
                r = rcv.parse_logout_request(m["xml"], S.BINDING_REDIRECT, relay_state=m["relay_state"],
                                             sigalg=m["sigalg"], signature=m["signature"])
                accepted = bool(r is not None and r.message is not None)
            elif kind == "authn_post":
                r = rcv.parse_authn_request(m["xml"], S.BINDING_POST)
                accepted = bool(r is not None and r.message is not None)
            elif kind == "redirect":
                r = rcv.parse_authn_request(m["xml"], S.BINDING_REDIRECT, relay_state=m["relay_state"],
                                            sigalg=m["sigalg"], signature=m["signature"])
                accepted = bool(r is not None and r.message is not None)
            else:
                r = rcv.parse_logout_request(m["xml"], S.BINDING_POST if kind == "logout_post" else S.BINDING_SOAP)
                accepted = bool(r is not None and r.message is not None)
        except SAMLError as e:  # SignatureError, MissingKey, IncorrectlySigned, CertificateError ... = refusal
            err = type(e).__name__
    handed, restricted = [], True
    for via, name, restr, _ok in _rx["handed"]:
        tag = via + ":" + name
        if tag not in handed:
            handed.append(tag)
        restricted = restricted and restr
    return {"accepted": accepted, "handed": handed, "restricted": restricted, "err": err}


def compare(case, impl, model):
    if model is None:
        return False
    return (impl["accepted"] == model.get("accepted") and impl["handed"] == model.get("handed")
            and impl["restricted"] == model.get("restricted"))


def nontrivial(case, impl, lean):
    return bool(impl["handed"]) or impl["accepted"]


def finding_key(case, impl, lean):
    """Two repaired defects of one root cause (MetaData.certs raised KeyError, _check_signature read that as "no
    keys" and trusted the embedded certificate although the issuer publishes signing certificates, option off):
      C03/empty-certificate-fallback     (fix 2dbe22bb)  a signing key descriptor with an EMPTY X509Certificate
      C03/keyless-keydescriptor-fallback (fix 57adca09)  a signing key descriptor without X509Data / certificate
    Both are listed as `fixed`, so naming them suppresses nothing: a regression is a VIOLATION.  Named only for
    exactly these input classes."""
    if not (str(lean.get("why", "")).endswith("fallback-although-metadata-has-keys") and case["only_md"] is False
            and impl["accepted"]):
        return None
    issuers = {(case["issuer"] or "").strip(), ((case.get("first") or {}).get("issuer") or "").strip()}
    empty = any(c == "" for e in case["md"]["entities"] if e["id"] in issuers for r in e["roles"] for k in r["keys"]
                if k.get("use") != "encryption" for c in (k["certs"] or []))
    if empty:
        return "C03/empty-certificate-fallback"
    if lean.get("keyless") is True:
        return "C03/keyless-keydescriptor-fallback"
    return None


def shrink(case):
    md = case["md"]
    for i in range(len(md["entities"])):
        c = copy.deepcopy(case)
        del c["md"]["entities"][i]
        yield c
    for i, e in enumerate(md["entities"]):
        for j in range(len(e["roles"])):
            c = copy.deepcopy(case)
            del c["md"]["entities"][i]["roles"][j]
            if c["md"]["entities"][i]["roles"]:
                yield c
            for k in range(len(e["roles"][j]["keys"])):
                c = copy.deepcopy(case)
                del c["md"]["entities"][i]["roles"][j]["keys"][k]
                yield c
    if len(case["keyinfo"]["certs"]) > 1:
        for i in range(len(case["keyinfo"]["certs"])):
            c = copy.deepcopy(case)
            del c["keyinfo"]["certs"][i]
            yield c
    if case["keyinfo"]["rsa"] and case["keyinfo"]["certs"]:
        c = copy.deepcopy(case)
        c["keyinfo"]["rsa"] = None
        yield c


def neighbours(case, rng):
    for signer in KEYS:
        for only in (True, False, None):
            for ki in ({"certs": [], "rsa": None}, {"certs": [signer], "rsa": None}, {"certs": [], "rsa": signer}):
                c = copy.deepcopy(case)
                c.update(signer=signer, only_md=only, keyinfo=ki)
                yield c


def search_cases(rng, broken, build_log):
    # a proof obligation broke (e.g. the regenerated default of only_use_keys_in_metadata): the whole
    # default-configuration column
    for c in table_cases([None]):
        yield c


def distribution(recs):
    d = {"kind": {}, "only_md": {}, "accepted": {}, "verifications": {}, "err": {}}
    for r in recs:
        c, i = r["case"], r["impl"]
        for k, v in (("kind", c["kind"]), ("only_md", str(c["only_md"])), ("accepted", str(i["accepted"])),
                     ("verifications", str(len(i["handed"]))), ("err", str(i["err"]))):
            d[k][v] = d[k].get(v, 0) + 1
    return d
