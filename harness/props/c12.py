"""C12 — protocol objects survive serialisation and parsing unchanged: correspondence harness.

Real code exercised: SamlBase.to_string()/__str__ (-> _to_element_tree/_add_members_to_element_tree,
ExtensionElement.transfer_to_element_tree, ElementTree.tostring), <module>.<element>_from_string /
saml2.create_class_from_xml_string (-> defusedxml.ElementTree.fromstring, create_class_from_element_tree,
harvest_element_tree, _convert_element_tree_to_member, _convert_element_attribute_to_member,
_extension_element_from_element_tree, AttributeValueBase / AttributeType_ overrides), for every class of
the regenerated class table.

Two operations:
* "rt":    an abstract instance (class id, attribute values, members, text, extensions) is built as a real
           object, serialised, re-parsed, reflected member by member and serialised again.
* "parse": an abstract element tree is written as an XML document by the independent writer below
           (own prefixes, default namespace, attribute order, quoting, character references, CDATA,
           comments, PIs, DOCTYPE), parsed by the class's from_string and reflected.
"""
import datetime as _dt
import json
import random

from translate import classrows, classtable

PROP = "C12"
LEAN_PROPS = "PysamlModel.Props.C12"
MODEL_TARGETS = ["PysamlModel.Gen.ClassTable", "PysamlModel.Model.ObjModel", "PysamlModel.Spec.C12"]
AUDIT = "PysamlModel/Audit/C12.lean"
DRIVER = "Drivers/C12.lean"
GEN = [classtable.generate, classrows.gen_all]  # the second one is C13's translator (XSDs + class rows), used read-only
CORRESPONDENCE = ("Drivers/C12.lean (harvest ∘ wire ∘ serialise, parseDoc) vs SamlBase.to_string / "
                  "<element>_from_string on every class of Gen/ClassTable.lean")
RULE = ("every class of the regenerated table x random instances (depth <= 4; attribute values/text over XML 1.0 "
        "characters incl. markup, whitespace, CR/LF/TAB, NEL, LS, non-BMP; foreign extension elements/attributes; "
        "AttributeValue states reached through its constructor/set_type/set_text) and x random element trees "
        "written by an independent XML writer (unknown/duplicated/reordered children, unknown and look-alike "
        "attributes, other prefixes, default namespace, CDATA, comments, PIs, DTD with and without entity "
        "declarations, UTF-16), plus oversized members; non-trivial = the model produced an object (not a refusal); "
        "distinct = distinct case JSON")
TRUSTED = [
    "character level of XML (escaping, prefixes, CDATA, comments, encodings) is xml.etree/expat/defusedxml: exercised on "
    "every case, modelled only as the tree-level function `wire` (empty text = no text, CR/CRLF in text -> LF, "
    "xmlns* attributes consumed) and the DTD rule `parseDoc` (any entity declaration => refused)",
    "int()/float()/strptime()/bool table used by AttributeValueBase.set_text are builtins: the harness evaluates them "
    "and passes the results to the model as the parameter `conv`",
    "harness/translate/classtable.py (introspection of the imported saml2 modules; unknown method overrides are refused)",
    "the independent XML writer and the member-by-member reflection in harness/props/c12.py",
]
ASSUMPTIONS = [
    "classes: saml, samlp, md, xmldsig, xmlenc and every module of saml2.extension, saml2.ws, saml2.schema "
    "(saml2.authn_context.* are generated from the same templates and not enumerated)",
    "foreign names are XML names outside the XML-Schema / xmlns namespaces (ElementTree's pre-registered prefix xs would "
    "collide with the literal xmlns:xs attribute AttributeValue carries); extension attribute names are not namespace declarations",
    "characters are XML 1.0 Char (no C0 controls other than TAB/LF/CR, no surrogates, no U+FFFE/U+FFFF)",
    "an empty text and no text are the same text",
]
EXHAUSTIVE = False
PARALLEL = True

XSI = "http://www.w3.org/2001/XMLSchema-instance"
XS = "http://www.w3.org/2001/XMLSchema"
K_NAMEFORMAT = "C12/attribute-nameformat-defaulted-on-parse"
K_CR = "C12/carriage-return-in-text-normalised"
K_AVSTRIP = "C12/attribute-value-mixed-content-text-stripped"
K_AVREORDER = "C12/attribute-value-xmlns-attr-reordered"
K_CTORDEFAULT = "C12/constructor-default-attribute-restored-on-parse"
# the (class, attribute) pairs the known finding C12/constructor-default-attribute-restored-on-parse was recorded for;
# a constructor default anywhere else is NOT covered by it (Lean: C12_ctor_defaults_recorded)
RECORDED_CTOR_DEFAULTS = {
    ("saml2.extension.shibmd", "Scope", "regexp"), ("saml2.extension.shibmd", "KeyAuthority", "VerifyDepth"),
    ("saml2.extension.pefim", "SPCertEnc", "VerifyDepth"), ("saml2.extension.pefim", "SPCertEncType_", "VerifyDepth"),
    ("saml2.ws.wsaddr", "RelatesTo", "RelationshipType"), ("saml2.ws.wsaddr", "RelatesToType_", "RelationshipType"),
    ("saml2.ws.wspol", "PolicyReference", "DigestAlgorithm"),
}
K_AVTYPEONLY = "C12/attribute-value-type-without-text"
K_CTORMEMBER = "C12/constructor-omits-declared-member"
K_SELFCONTAINED_XML = "C12/self-contained-rendering-binds-xml-namespace"  # fixed b3cfb249: a recurrence is a violation

_S = {}

from xml.etree import ElementTree as _ET  # noqa: E402

# ElementTree keeps registered prefixes in a module-level table that SamlBase.register_prefix (to_string(nspair))
# writes to.  Every case starts from the table as it was when this module was imported (reproducible runs);
# inside a "history" case nothing is reset between the steps.
_PRISTINE_NSMAP = dict(_ET._namespace_map)


def reset_prefix_table():
    _ET._namespace_map.clear()
    _ET._namespace_map.update(_PRISTINE_NSMAP)


def setup():
    tbl = classtable.describe()
    classes = classtable.enumerate_classes()
    _S["table"] = tbl
    _S["cls"] = {i: c for i, _, _, c in classes}
    _S["ids"] = {c: i for i, _, _, c in classes}
    import importlib

    fs = {}
    for cd in tbl:
        mod = importlib.import_module(cd["module"])
        f = getattr(mod, "ELEMENT_FROM_STRING", {}).get(cd["tag"])
        # ELEMENT_FROM_STRING is keyed by tag only; use it when it really builds this class
        fs[cd["id"]] = f
    _S["from_string"] = fs
    _S["consts"] = classtable.av_constants()


def T():
    if "table" not in _S:
        setup()
    return _S["table"]


# ------------------------------------------------------------------ string pools

WORDS = ["a", "x1", "urn:oasis:names:tc:SAML:2.0:nameid-format:transient", "https://sp.example.org/acs?a=1&b=2",
         "Alice", "true", "false", "0", "2026-09-26T10:00:00Z", "_id-123", "Zoë", "名前", "12", "1.5", "2020-01-02"]
MARKUP = ["<", ">", "&", "\"", "'", "]]>", "<!--", "-->", "&amp;", "&#13;", "<?x?>", "</a>", "<![CDATA[", "%", "{", "}", "\\"]
SPACES = [" ", "  ", "\t", "\n", "\n\n", " \n\t ", "\u00a0", "\u0085", "\u2028", "\u2029", "\u3000", "\u200b"]
EXOTIC = ["\U0001F600", "\U00010348", "\U0010FFFD", "e\u0301", "\u0627\u0644", "\ufffd", "\ud7ff", "\ue000", "\x7f", "\u0080"]


def gen_value(rng, cr=False, allow_empty=True):
    """A string over XML 1.0 characters."""
    c = rng.randrange(12)
    if c == 0 and allow_empty:
        return ""
    if c <= 3:
        return rng.choice(WORDS)
    parts = []
    for _ in range(rng.randint(1, 5)):
        k = rng.randrange(8)
        if k <= 2:
            parts.append(rng.choice(WORDS))
        elif k <= 4:
            parts.append(rng.choice(MARKUP))
        elif k == 5:
            parts.append(rng.choice(SPACES))
        elif k == 6:
            parts.append(rng.choice(EXOTIC))
        else:
            parts.append(rng.choice(["\r", "\r\n", "\n\r"]) if cr else rng.choice(SPACES))
    s = "".join(parts)
    if cr and "\r" not in s:
        s += rng.choice(["\r", "\r\n", "x\ry"])
    return s


def gen_attr_value(rng):
    # CR/LF/TAB are escaped by the writer inside attribute values and therefore legal everywhere
    s = gen_value(rng)
    if rng.random() < 0.1:
        s += rng.choice(["\r", "\r\n", "\t", "\n"])
    return s


NCNAMES = ["ext", "Foo", "foo-bar", "a.b", "_x", "Ünï", "名", "x1", "Extension", "NameID", "Format", "ID", "lang", "type", "nil"]
NSS = ["urn:x", "http://example.org/ext", "urn:foo:bar#frag", "urn:a&b", "http://example.org/a'b\"c", "urn:mace:shibboleth:metadata:1.0",
       "http://www.w3.org/XML/1998/namespace", "urn:oasis:names:tc:SAML:2.0:assertion:x"]


def gen_qname(rng, forbidden):
    """(ns|None, local) not in `forbidden`."""
    for _ in range(50):
        ns = rng.choice(NSS) if rng.random() < 0.8 else None
        local = rng.choice(NCNAMES)
        if ns == "http://www.w3.org/XML/1998/namespace" and ns is not None and rng.random() < 0.7:
            continue
        if (ns, local) not in forbidden:
            return ns, local
    return "urn:x", "zz%d" % rng.randrange(10 ** 6)


def clark(ns, local):
    return local if ns is None else "{%s}%s" % (ns, local)


XMLNS = "http://www.w3.org/XML/1998/namespace"


def qualified_variants(base, own_ns):
    """The local name of a declared attribute in the name spaces a lax reader might confuse with it:
    the element's OWN namespace, a foreign one, xml:, xsi:."""
    return [clark(ns, base) for ns in (own_ns, "urn:x", XMLNS, XSI) if ns]


def gen_attr_name(rng, forbidden, declared=(), own_ns=None):
    """A foreign attribute name (Clark notation), sometimes a look-alike of a declared one."""
    for _ in range(50):
        if declared and rng.random() < 0.3:
            d = rng.choice(list(declared))
            base = d.rsplit("}", 1)[-1]
            name = rng.choice(qualified_variants(base, own_ns) + [base + "_", base.lower(), base.upper(), "x" + base])
        else:
            ns = rng.choice(NSS) if rng.random() < 0.4 else None
            name = clark(ns, rng.choice(NCNAMES))
        if name not in forbidden and not name.startswith("xmlns") and not name.lower().startswith("xml"):
            return name
    return "zz%d" % rng.randrange(10 ** 6)


def gen_ext(rng, depth, cr=False, forbidden=()):
    ns, tag = gen_qname(rng, set(forbidden))
    attrs, seen = [], set()
    for _ in range(rng.choice([0, 0, 1, 2])):
        n = gen_attr_name(rng, seen)
        seen.add(n)
        attrs.append([n, gen_attr_value(rng)])
    kids = []
    if depth > 0:
        for _ in range(rng.choice([0, 0, 0, 1, 2])):
            kids.append(gen_ext(rng, depth - 1, cr))
    t = gen_value(rng, cr) if rng.random() < 0.5 else None
    return {"ns": ns, "tag": tag, "a": attrs, "k": kids, "t": t}


# ------------------------------------------------------------------ abstract instances


def decl_keys(cd):
    return {(k[0], k[1]) for k in cd["children"]}


def gen_inst(rng, cid, depth, opt, budget=None):
    """Random abstract instance of class `cid`.  `opt`: cr (CR allowed in text), nf (leave a defaulted
    attribute unset), av (AttributeValue recipes allowed), rich (more of everything)."""
    tbl = T()
    cd = tbl[cid]
    budget = budget if budget is not None else [40]
    if cd["kind"] == "attrValue":
        return gen_av(rng, cid, opt)
    p_attr = 0.6 if opt.get("rich") else 0.4
    defaults = {k for k, _ in cd["defaults"]}
    attrs = []
    for (xml, _m), init in zip(cd["attrs"], cd["init"]):
        if xml in defaults:
            # parse-time default (harvest_element_tree override): unset only in the designated cases
            if opt.get("nf") and rng.random() < 0.7:
                attrs.append(None)
                opt["nf_used"] = True
            else:
                attrs.append(gen_attr_value(rng))
        elif init is not None:
            # constructor default: unset (explicit None) only in the designated cases
            if opt.get("ctor") and rng.random() < 0.7:
                attrs.append(None)
                opt["ctor_used"] = True
            else:
                attrs.append(init if rng.random() < 0.3 else gen_attr_value(rng))
        else:
            attrs.append(gen_attr_value(rng) if rng.random() < p_attr else None)
    slots = []
    order = list(range(len(cd["children"])))
    rng.shuffle(order)
    fill = {}
    for j in order:
        kns, klocal, member, kc, is_list = cd["children"][j]
        kids = []
        if depth > 0 and kc is not None and budget[0] > 0:
            p = (0.5 if opt.get("rich") else 0.3) if depth > 1 else 0.2
            if rng.random() < p:
                n = rng.choice([1, 1, 2, 3]) if is_list else 1
                for _ in range(n):
                    budget[0] -= 1
                    kids.append(gen_inst(rng, kc, depth - 1, opt, budget))
        fill[j] = kids
    slots = [fill[j] for j in range(len(cd["children"]))]
    t = gen_value(rng, opt.get("cr") and rng.random() < 0.5) if rng.random() < 0.4 else None
    if t is not None and "\r" in t:
        opt["cr_used"] = True
    ee = []
    for _ in range(rng.choice([0, 0, 0, 1, 2] if not opt.get("rich") else [0, 1, 2, 3])):
        e = gen_ext(rng, 2, False, decl_keys(cd))
        ee.append(e)
    ea, seen = [], {a[0] for a in cd["attrs"]}
    for _ in range(rng.choice([0, 0, 0, 1, 2])):
        n = gen_attr_name(rng, seen, [a[0] for a in cd["attrs"]], cd["ns"])
        seen.add(n)
        ea.append([n, gen_attr_value(rng)])
    return {"c": cid, "a": attrs, "s": slots, "t": t, "ee": ee, "ea": ea}


TYPED = [("xs:string", ["x", " a b ", "<&>"]), ("xs:integer", ["12", " 7", "-3", "+5", "007", "1_0"]), ("xs:int", ["42"]),
         ("xs:short", ["1"]), ("xs:long", ["99999999999999999999"]), ("xs:float", ["1.5", "1e3", "inf", "nan", ".5"]),
         ("xs:double", ["2.25", "-0.0"]), ("xs:boolean", ["true", "FALSE", "True"]), ("xs:date", ["2020-01-02", "2020-1-2"]),
         ("xs:base64Binary", ["AAAA", "a b"]), ("xs:anyType", ["any <x/>"]), ("xsd:string", ["y"]), ("xsd:integer", ["5"]),
         ("foo:bar", ["z"]), ("string", ["p"]), ("integer", ["3"]), ("unknownType", ["q"])]
# a type whose name part is empty makes set_text drop the text: leaves a type without text
TYPED_EMPTY = [("foo:", ["dropped"]), ("xs:", ["s"])]
# in documents also what is no QName at all
TYPED_DOC = TYPED + TYPED_EMPTY + [(":string", ["r"]), (":", ["t"]), ("a:b:c", ["u"])]


def gen_av(rng, cid, opt):
    """An AttributeValue state, reached through the real constructor / set_type / set_text / attribute
    additions, then reflected (the instance IS its state)."""
    import saml2
    from saml2 import ExtensionElement

    if "cls" not in _S:
        setup()
    cls = _S["cls"][cid]
    recipes = ["nil", "text", "text", "typed", "typed", "ext", "nil+attr", "ext+attr", "attr-before-text", "value"]
    if opt.get("av") == "strip":
        recipes = ["text+ext"]
    elif opt.get("av") == "reorder":
        recipes = ["text+attr-after"]
    elif opt.get("av") == "typeonly":
        recipes = ["type-only"]
    r = rng.choice(recipes)
    exts = lambda: [build_ext(gen_ext(rng, 1, False)) for _ in range(rng.randint(1, 2))]  # noqa: E731
    fname = lambda: gen_attr_name(rng, {"{%s}type" % XSI, "{%s}nil" % XSI})  # noqa: E731
    if r == "nil":
        o = cls()
    elif r == "text":
        o = cls(text=gen_value(rng, False, allow_empty=False))
    elif r == "value":
        o = cls()
        o.set_text(rng.choice([12, True, False, 1.5, -7, 1e300, "plain"]))
    elif r == "typed":
        typ, vals = rng.choice(TYPED)
        o = cls()
        o.set_type(typ)
        try:
            o.set_text(rng.choice(vals))
        except ValueError:
            o = cls(text="fallback")
    elif r == "ext":
        o = cls(extension_elements=exts())
    elif r == "nil+attr":
        o = cls()
        o.extension_attributes[fname()] = gen_attr_value(rng)
    elif r == "ext+attr":
        o = cls(extension_elements=exts())
        o.extension_attributes[fname()] = gen_attr_value(rng)
    elif r == "attr-before-text":
        o = cls()
        o.extension_attributes[fname()] = gen_attr_value(rng)
        o.set_text(gen_value(rng, False, allow_empty=False))
    elif r == "text+ext":
        t = rng.choice([" ", "\n", "\t ", ""]) + rng.choice(WORDS) + rng.choice([" ", "\n  ", ""])
        if t == t.strip():
            t = " " + t
        o = cls(text=t, extension_elements=exts())
        opt["avstrip_used"] = True
    elif r == "type-only":
        o = cls()
        if rng.random() < 0.5:
            o.set_type(rng.choice(TYPED)[0])
        else:
            typ, vals = rng.choice(TYPED_EMPTY)
            o.set_type(typ)
            o.set_text(vals[0])
        opt["avtypeonly_used"] = True
    else:  # text+attr-after
        o = cls(text=gen_value(rng, False, allow_empty=False))
        o.extension_attributes[fname()] = gen_attr_value(rng)
        opt["avreorder_used"] = True
    return reflect(o, cid, out=False)


# ------------------------------------------------------------------ abstract <-> real objects


def build_ext(e):
    from saml2 import ExtensionElement

    return ExtensionElement(e["tag"], namespace=e["ns"], attributes=dict((k, v) for k, v in e["a"]),
                            children=[build_ext(k) for k in e["k"]], text=e["t"])


def build(inst):
    """Abstract instance -> real object.  Plain classes: default constructor + setattr of every member;
    AttributeValue: the state is injected (text bypassing set_text, which would recompute the state)."""
    import saml2

    cd = T()[inst["c"]]
    cls = _S["cls"][inst["c"]]
    o = cls()
    # members without a value keep whatever the constructor gave them
    for (xml, member), v in zip(cd["attrs"], inst["a"]):
        setattr(o, member, v)
    for (kns, klocal, member, kc, is_list), kids in zip(cd["children"], inst["s"]):
        objs = [build(k) for k in kids]
        if not objs:
            continue
        if is_list:
            setattr(o, member, objs)
        else:
            setattr(o, member, objs[0])
    o.extension_elements = [build_ext(e) for e in inst["ee"]]
    o.extension_attributes = dict((k, v) for k, v in inst["ea"])
    if cd["kind"] == "attrValue":
        saml2.SamlBase.__setattr__(o, "text", inst["t"])
    else:
        o.text = inst["t"]
    return o


class Unusable(Exception):
    """The object holds something that is no instance data (e.g. None inside a list member)."""


def reflect_ext(e):
    if not isinstance(e.tag, str) or not (e.namespace is None or isinstance(e.namespace, str)):
        raise Unusable("extension element name")
    for k, v in e.attributes.items():
        if not isinstance(k, str) or not isinstance(v, str):
            raise Unusable("extension element attribute")
    if not (e.text is None or isinstance(e.text, str)):
        raise Unusable("extension element text")
    return {"ns": e.namespace, "tag": e.tag, "a": [[k, v] for k, v in e.attributes.items()],
            "k": [reflect_ext(k) for k in e.children], "t": e.text}


def reflect(o, cid, out=True):
    """Real object -> abstract instance, member by member (c_attributes / c_children order of the table).
    `out`: an observed result — empty text is reported as no text (XML cannot tell them apart)."""
    cd = T()[cid]
    ids = _S["ids"]
    if ids.get(type(o)) != cid:
        raise Unusable("member of class %s where class id %d is declared" % (type(o).__name__, cid))
    attrs = []
    for xml, member in cd["attrs"]:
        v = getattr(o, member, None)
        if not (v is None or isinstance(v, str)):
            raise Unusable("attribute value %r" % (v,))
        attrs.append(v)
    slots = []
    for kns, klocal, member, kc, is_list in cd["children"]:
        v = getattr(o, member, None)  # an attribute the constructor never made = no value
        if v is None:
            kids = []
        elif isinstance(v, list):
            kids = v
        else:
            kids = [v]
        if any(k is None for k in kids) or kc is None:
            if kids:
                raise Unusable("None in member %s" % member)
        slots.append([reflect(k, kc, out) for k in kids])
    t = o.text
    if not (t is None or isinstance(t, str)):
        raise Unusable("text %r" % (t,))
    if out and t == "":
        t = None
    for k, v in o.extension_attributes.items():
        if not isinstance(k, str) or not isinstance(v, str):
            raise Unusable("extension attribute")
    return {"c": cid, "a": attrs, "s": slots, "t": t, "ee": [reflect_ext(e) for e in o.extension_elements],
            "ea": [[k, v] for k, v in o.extension_attributes.items()]}


def parse_with(cid, doc):
    import saml2

    f = _S["from_string"].get(cid)
    cls = _S["cls"][cid]
    if f is not None:
        o = f(doc)
        if o is None or type(o) is cls:
            return o
    return saml2.create_class_from_xml_string(cls, doc)


# ------------------------------------------------------------------ conversions handed to the model


def _conv(kind, t):
    try:
        if kind == "int":
            return str(int(t))
        if kind == "float":
            return str(float(t))
        if kind == "bool":
            return str({"true": True, "false": False}[str(t).lower()]).lower()
        if kind == "date":
            return str(_dt.datetime.strptime(t, "%Y-%m-%d").date())
    except (TypeError, ValueError, KeyError):
        return None
    raise ValueError(kind)


def _norm_cr(s):
    return s.replace("\r\n", "\n").replace("\r", "\n")


def conv_table(texts):
    out, seen = [], set()
    for t in texts:
        for cand in {t, t.strip(), _norm_cr(t), _norm_cr(t).strip()}:
            if cand in seen or cand == "":
                continue
            seen.add(cand)
            for kind in ("int", "float", "bool", "date"):
                out.append([kind, cand, _conv(kind, cand)])
    return out


def av_texts_inst(inst, acc):
    if T()[inst["c"]]["kind"] == "attrValue" and inst["t"]:
        acc.append(inst["t"])
    for s in inst["s"]:
        for k in s:
            av_texts_inst(k, acc)
    return acc


def av_texts_tree(x, acc):
    # any text may end up in an AttributeValue; trees are small
    if x["t"]:
        acc.append(x["t"])
    for k in x["k"]:
        av_texts_tree(k, acc)
    return acc


# ------------------------------------------------------------------ abstract trees for the parse operation


def class_tag(cd):
    return [cd["ns"], cd["tag"]]


def gen_tree(rng, cid, depth, budget=None):
    """Random element tree meant to be parsed as class `cid`: declared children in any order and
    multiplicity, unknown children, declared / unknown / look-alike attributes, text."""
    tbl = T()
    cd = tbl[cid]
    budget = budget if budget is not None else [30]
    attrs, seen = [], set()
    names = [a[0] for a in cd["attrs"]]
    for xml in names:
        if rng.random() < 0.45:
            attrs.append([xml, gen_attr_value(rng)])
            seen.add(xml)
    for _ in range(rng.choice([0, 0, 1, 2])):
        n = gen_attr_name(rng, seen | set(names), names, cd["ns"])
        seen.add(n)
        attrs.append([n, gen_attr_value(rng)])
    if cd["kind"] == "attrValue":
        c = rng.randrange(6)
        if c == 0:
            attrs.append(["{%s}nil" % XSI, rng.choice(["true", "false", "1"])])
        elif c <= 3:
            attrs.append(["{%s}type" % XSI, rng.choice(TYPED_DOC)[0] if rng.random() < 0.8 else ""])
        if rng.random() < 0.1:
            attrs.append(["{%s}nil" % XSI, "true"]) if not any(a[0].endswith("}nil") for a in attrs) else None
    rng.shuffle(attrs)
    kids = []
    if depth > 0:
        n = rng.choice([0, 1, 2, 3, 4]) if cd["children"] else rng.choice([0, 0, 1])
        for _ in range(n):
            if budget[0] <= 0:
                break
            budget[0] -= 1
            c = rng.randrange(10)
            if cd["children"] and c < 6:
                kns, klocal, member, kc, is_list = rng.choice(cd["children"])
                if kc is None:
                    continue
                k = gen_tree(rng, kc, depth - 1, budget)
                kids.append(k)
                if rng.random() < 0.15:  # the same child again (a singleton occurring twice included)
                    kids.append(gen_tree(rng, kc, depth - 1, budget))
            elif cd["children"] and c == 6:
                # look-alike: declared local name in another namespace, or declared namespace with another name
                kns, klocal, member, kc, is_list = rng.choice(cd["children"])
                q = rng.choice([["urn:x", klocal], [kns, klocal + "X"], [None, klocal], [kns, klocal.lower()]])
                if (q[0], q[1]) in decl_keys(cd):
                    continue
                kids.append(ext_to_tree(gen_ext(rng, 1), q))
            else:
                kids.append(ext_to_tree(gen_ext(rng, 2, False, decl_keys(cd))))
    t = None
    if rng.random() < 0.45:
        if cd["kind"] == "attrValue" and rng.random() < 0.7:
            ty = [a[1] for a in attrs if a[0] == "{%s}type" % XSI]
            vals = [v for tn, vs in TYPED_DOC if ty and tn == ty[0] for v in vs]
            t = rng.choice(vals + ["abc", "12", " true "]) if vals else rng.choice(["abc", "12", " x "])
        else:
            t = gen_value(rng, rng.random() < 0.2, allow_empty=False)
    return {"q": class_tag(cd), "a": attrs, "t": t, "k": kids}


def ext_to_tree(e, q=None):
    return {"q": q or [e["ns"], e["tag"]], "a": e["a"], "t": e["t"] or None, "k": [ext_to_tree(k) for k in e["k"]]}


# ------------------------------------------------------------------ independent XML writer

PREFIXES = ["a", "b", "saml", "samlp", "md", "ds", "x", "ns0", "ns1", "p-1", "q.r", "_u", "Ünï", "xs1"]


def esc_text(s, rng):
    out = []
    for ch in s:
        if ch == "&":
            out.append(rng.choice(["&amp;", "&#38;", "&#x26;"]))
        elif ch == "<":
            out.append(rng.choice(["&lt;", "&#60;", "&#x3C;"]))
        elif ch == ">":
            out.append(rng.choice(["&gt;", "&#62;"]))
        elif ch == "\r":
            out.append(rng.choice(["&#13;", "&#xD;"]))
        elif rng.random() < 0.03:
            out.append(rng.choice(["&#%d;", "&#x%x;", "&#x%X;"]) % ord(ch))
        elif ch == '"' and rng.random() < 0.3:
            out.append("&quot;")
        elif ch == "'" and rng.random() < 0.3:
            out.append("&apos;")
        else:
            out.append(ch)
    return "".join(out)


def cdata(s):
    # a CR inside CDATA would be normalised by the parser; "]]>" cannot occur inside one section
    return "<![CDATA[" + s.replace("]]>", "]]]]><![CDATA[>") + "]]>"


def junk(rng):
    return rng.choice(["<!-- c -->", "<!---->", "<?pi x?>", "<!-- <a> & ]]> -->", "<?php echo 1 ?>"])


def write_text(s, rng):
    """Character data equal to `s` after parsing, cut into escaped runs / CDATA sections with comments and PIs between."""
    if s == "":
        return rng.choice(["", "<!--x-->", "<![CDATA[]]>"])
    cuts = sorted({rng.randrange(len(s) + 1) for _ in range(rng.choice([0, 0, 1, 2, 3]))} | {0, len(s)})
    out = []
    for a, b in zip(cuts, cuts[1:]):
        seg = s[a:b]
        if "\r" not in seg and rng.random() < 0.3:
            out.append(cdata(seg))
        else:
            out.append(esc_text(seg, rng))
        if rng.random() < 0.3:
            out.append(junk(rng))
    if rng.random() < 0.2:
        out.insert(0, junk(rng))
    return "".join(out)


def write_attr(v, rng):
    q = rng.choice(['"', "'"])
    out = []
    for ch in v:
        if ch == "&":
            out.append("&amp;")
        elif ch == "<":
            out.append("&lt;")
        elif ch == q:
            out.append("&quot;" if q == '"' else "&apos;")
        elif ch in "\t\n\r":
            out.append("&#%d;" % ord(ch))
        elif rng.random() < 0.03:
            out.append("&#x%x;" % ord(ch))
        else:
            out.append(ch)
    return q + "".join(out) + q


def write_node(x, rng, scope, default_ns, counter, style):
    """scope: prefix -> uri in scope.  Returns the element's text."""
    ns, local = x["q"]
    decls = []  # (attribute name, uri) declared on this element
    scope = dict(scope)
    used = set()  # prefixes this element's own names rely on: must not be rebound here

    def prefix_for(uri, for_attr=False):
        # reuse a prefix in scope, or declare a new one here
        cands = [p for p, u in scope.items() if u == uri and p != ""]
        if cands and rng.random() < 0.85:
            p = rng.choice(cands)
            used.add(p)
            return p
        while True:
            p = rng.choice(PREFIXES) if rng.random() < 0.7 else "n%d" % counter[0]
            counter[0] += 1
            # never rebind a prefix declared or relied upon on this element
            if p not in [d[0] for d in decls] and p not in used and not (p in scope and style.get("noshadow")):
                break
        scope[p] = uri
        decls.append((p, uri))
        used.add(p)
        return p

    if ns is None:
        name = local
        if default_ns is not None:
            decls.append(("", ""))
            default_ns = None
    elif ns == "http://www.w3.org/XML/1998/namespace":
        name = "xml:" + local
    else:
        if default_ns == ns and rng.random() < 0.8:
            name = local
        elif default_ns is None and style.get("default") and rng.random() < 0.3 or (
                default_ns != ns and style.get("default") and rng.random() < 0.1):
            decls.append(("", ns))
            default_ns = ns
            name = local
        else:
            name = prefix_for(ns) + ":" + local
    attrs = []
    for k, v in x["a"]:
        if k.startswith("{"):
            ans, alocal = k[1:].split("}", 1)
            if ans == "http://www.w3.org/XML/1998/namespace":
                an = "xml:" + alocal
            else:
                an = prefix_for(ans, True) + ":" + alocal
        else:
            an = k
        attrs.append(an + rng.choice(["=", " = ", "=\n"]) + write_attr(v, rng))
    dattrs = [("xmlns" if p == "" else "xmlns:" + p) + "=" + write_attr(u, rng) for p, u in decls]
    # namespace declarations anywhere among the attributes; the relative order of real attributes is kept
    allattrs = list(attrs)
    for d in dattrs:
        allattrs.insert(rng.randrange(len(allattrs) + 1), d)
    sep = rng.choice([" ", "  ", "\n ", "\t"])
    start = "<" + name + "".join(sep + a for a in allattrs) + rng.choice(["", " ", "\n"])
    body = []
    if x["t"] is not None:
        body.append(write_text(x["t"], rng))
    for k in x["k"]:
        body.append(write_node(k, rng, scope, default_ns, counter, style))
        # whatever follows a child is its tail: never read by the object model
        if rng.random() < 0.4:
            body.append(rng.choice(["\n", "  ", "\n\t", junk(rng), " tail-text ", "&amp;"]) if style.get("tails") else "")
    inner = "".join(body)
    if inner == "" and x["t"] is None and not x["k"] and rng.random() < 0.6:
        return start + "/>"
    return start + ">" + inner + "</" + name + rng.choice(["", " ", "\n"]) + ">"


DTD_TEXT = {
    "element": "<!ELEMENT foo ANY>", "attlist": "<!ATTLIST foo bar CDATA #IMPLIED>", "notation": '<!NOTATION n1 SYSTEM "urn:n">',
    "comment": "<!-- in the subset -->", "pi": "<?subset pi?>", "entity-internal": '<!ENTITY e1 "expanded-entity-text">',
    "entity-external": '<!ENTITY e2 SYSTEM "file:///etc/hostname">', "entity-parameter": '<!ENTITY % p1 "<!ELEMENT bar ANY>">',
    "entity-unparsed": '<!NOTATION n2 SYSTEM "urn:n2"><!ENTITY e3 SYSTEM "urn:u" NDATA n2>',
}


def render(case):
    """The document of a parse case: str, or bytes when another encoding is asked for."""
    rng = random.Random(case.get("render_seed", 0))
    style = case.get("style", {})
    x = case["tree"]
    root = write_node(x, rng, {}, None, [0], style)
    rootname = root[1:].split()[0].split(">")[0].split("/")[0]
    out = []
    enc = style.get("encoding")
    if style.get("decl") or enc:
        out.append('<?xml version="1.0"%s%s?>' % (' encoding="%s"' % (enc or "UTF-8"), rng.choice(["", ' standalone="yes"', ' standalone="no"'])))
    if style.get("prolog"):
        out.append(rng.choice(["\n", "<!-- before -->", "<?before x?>\n"]))
    dtd = case.get("dtd")
    if dtd is not None:
        ext = style.get("doctype_ext", "")
        out.append("<!DOCTYPE %s%s [%s]>" % (rootname, ext, "\n".join(DTD_TEXT[d] for d in dtd)))
    out.append(root)
    if style.get("epilog"):
        out.append(rng.choice(["\n", "<!-- after -->", "<?after?>", "\n\n"]))
    doc = "".join(out)
    if style.get("entity_ref"):
        doc = doc.replace("ENTITYREF", "&e1;")  # a reference where the parser would expand it
    if enc:
        return doc.encode(enc)
    if style.get("bytes"):
        return doc.encode("utf-8")
    return doc


# ------------------------------------------------------------------ cases


def mk_rt(inst, note=None):
    c = {"op": "rt", "inst": inst, "conv": conv_table(av_texts_inst(inst, []))}
    if note:
        c["note"] = note
    return c


def mk_parse(cid, tree, rng, dtd=None, style=None):
    style = style if style is not None else gen_style(rng)
    if style.get("encoding") == "iso-8859-1" and not latin1_ok(tree):
        style = {k: v for k, v in style.items() if k != "encoding"}
    c = {"op": "parse", "cls": cid, "tree": tree, "render_seed": rng.randrange(1 << 30),
         "style": style, "conv": conv_table(av_texts_tree(tree, []))}
    if dtd is not None:
        c["dtd"] = dtd
    return c


def gen_style(rng):
    st = {}
    for k, p in (("default", 0.5), ("tails", 0.7), ("decl", 0.4), ("prolog", 0.3), ("epilog", 0.3), ("bytes", 0.2), ("noshadow", 0.5)):
        if rng.random() < p:
            st[k] = True
    if rng.random() < 0.06:
        st["encoding"] = rng.choice(["utf-16", "utf-16", "iso-8859-1"])
    return st


def latin1_ok(tree):
    try:
        json.dumps(tree, ensure_ascii=False).encode("iso-8859-1")
        return True
    except UnicodeEncodeError:
        return False


def _cid(module, name):
    for cd in T():
        if cd["module"] == module and cd["name"] == name:
            return cd["id"]
    return None


def _blank(cid):
    cd = T()[cid]
    return {"c": cid, "a": [None] * len(cd["attrs"]), "s": [[] for _ in cd["children"]], "t": None, "ee": [], "ea": []}


def regression_cases(rng):
    """Minimal inputs of the defects already repaired in /repo (they must stay repaired) and of the recorded
    known findings, addressed by class NAME so that they survive a renumbering of the table."""
    xsi_t, xsi_n = "{%s}type" % XSI, "{%s}nil" % XSI
    # fixed 014c8709: KeyInfo/EncryptedKey registered under a namespace that does not exist
    for mod, name in (("saml2.xmldsig", "KeyInfo"), ("saml2.xmldsig", "KeyInfoType_"), ("saml2.xmlenc", "OriginatorKeyInfo"),
                      ("saml2.xmlenc", "RecipientKeyInfo")):
        ki, ek = _cid(mod, name), _cid("saml2.xmlenc", "EncryptedKey")
        if ki is None or ek is None:
            continue
        inst = _blank(ki)
        for j, ch in enumerate(T()[ki]["children"]):
            if ch[3] == ek:
                k = _blank(ek)
                k["a"][0] = "ek1"
                inst["s"][j] = [k]
        yield mk_rt(inst, "regress-keyinfo")
        tree = {"q": class_tag(T()[ki]), "a": [], "t": None,
                "k": [{"q": ["http://www.w3.org/2000/09/xmlenc#", "EncryptedKey"], "a": [], "t": None, "k": []},
                      {"q": ["http://www.w3.org/2001/04/xmlenc#", "EncryptedKey"], "a": [["Id", "ek1"]], "t": None, "k": []}]}
        yield mk_parse(ki, tree, rng, style={})
    # fixed b53283ae: wsdl definitions could not be serialised until `import` was assigned
    for name in ("Definitions", "TDefinitions_"):
        c = _cid("saml2.schema.wsdl", name)
        if c is not None:
            yield mk_rt(_blank(c), "regress-wsdl-import")
    for c in selfcontained_regression():
        yield c
    # known findings (one minimal witness each)
    c = _cid("saml2.saml", "NameID")
    if c is not None:
        yield mk_rt(dict(_blank(c), t="a\rb"), "cr")
    c = _cid("saml2.saml", "Attribute")
    if c is not None:
        yield mk_rt(_blank(c), "nf")
    c = _cid("saml2.extension.shibmd", "Scope")
    if c is not None:
        yield mk_rt(dict(_blank(c), t="example.org"), "ctor-default")
    c = _cid("saml2.saml", "AttributeValue")
    if c is not None:
        typed = [[xsi_t, "xs:string"], ["xmlns:xs", XS]]
        e = {"ns": None, "tag": "e", "a": [], "k": [], "t": None}
        yield mk_rt(dict(_blank(c), t=" x", ee=[e], ea=typed), "av-strip")
        yield mk_rt(dict(_blank(c), t="x", ea=typed + [["foo", "b"]]), "av-reorder")
        yield mk_rt(dict(_blank(c), ea=typed), "av-typeonly")
        # and the states that do survive
        yield mk_rt(dict(_blank(c), ea=[[xsi_n, "true"]]), "av-nil")
        yield mk_rt(dict(_blank(c), t="x", ea=typed), "av-text")
        yield mk_rt(dict(_blank(c), t="x", ea=[["foo", "b"]] + typed), "av-attr-before-type")
        yield mk_rt(dict(_blank(c), ee=[e]), "av-ext")


def attr_namespace_cases(rng, tier):
    """Every class x every declared attribute: the attribute's local name qualified with the element's own
    namespace, a foreign namespace, xml: and xsi:, alone and together with the declared (unqualified) one.
    Expected (spec): the declared member is untouched, each qualified one is an extension attribute and is
    written back qualified."""
    for cd in T():
        if cd["kind"] != "plain":
            continue
        declared = {a[0] for a in cd["attrs"]}
        for j, (xml, _m) in enumerate(cd["attrs"]):
            base = xml.rsplit("}", 1)[-1]
            variants = [v for v in qualified_variants(base, cd["ns"]) if v not in declared]
            if xml != base and base not in declared:
                variants.append(base)  # a declared qualified attribute (xml:lang): the bare local name
            if not variants:
                continue
            for together in (False, True):
                vals = [[v, "q%d-%s" % (k, gen_attr_value(rng))] for k, v in enumerate(variants)]
                # document: all variants at once (distinct names), in random order, with/without the declared one
                attrs = list(vals) + ([[xml, "declared"]] if together else [])
                rng.shuffle(attrs)
                yield mk_parse(cd["id"], {"q": class_tag(cd), "a": attrs, "t": None, "k": []}, rng,
                               style={} if rng.random() < 0.5 else None)
                # one variant alone as well (own namespace first)
                if tier != "quick" or together:
                    one = [[variants[0], "only"]] + ([[xml, "declared"]] if together and rng.random() < 0.5 else [])
                    yield mk_parse(cd["id"], {"q": class_tag(cd), "a": one, "t": None, "k": []}, rng, style={})
                # instance: the variants as extension attributes, the declared attribute set or not
                inst = _blank(cd["id"])
                for k, init in enumerate(cd["init"]):
                    if init is not None or any(cd["attrs"][k][0] == d for d, _ in cd["defaults"]):
                        inst["a"][k] = init if init is not None else "set"
                if together:
                    inst["a"][j] = "declared"
                if not together and (cd["init"][j] is not None or any(xml == d for d, _ in cd["defaults"])):
                    pass  # a defaulted attribute stays set (its absence is a recorded defect of its own)
                inst["ea"] = vals
                yield mk_rt(inst, "attr-ns")


def ctor_default_cases(rng):
    """Derived from the code on every run (translator: attribute members of a fresh `cls()`): every class whose
    constructor gives a declared attribute a default, with that attribute explicitly None — alone and nested.
    Only the recorded pairs are a known finding."""
    tbl = T()
    holders = {}
    for cd in tbl:
        for j, ch in enumerate(cd["children"]):
            if ch[3] is not None:
                holders.setdefault(ch[3], []).append((cd["id"], j))
    for cd in tbl:
        dflt = {k for k, _ in cd["defaults"]}
        for j, ((xml, _m), init) in enumerate(zip(cd["attrs"], cd["init"])):
            if init is None or xml in dflt:
                continue
            inst = _blank(cd["id"])
            for k, (a, v) in enumerate(zip(cd["attrs"], cd["init"])):
                inst["a"][k] = v if k != j else None
                if a[0] in dflt and inst["a"][k] is None:
                    inst["a"][k] = "set"
            yield mk_rt(inst, "ctor-default")
            for hid, slot in holders.get(cd["id"], [])[:2]:
                outer = gen_inst(rng, hid, 0, {})
                outer["s"][slot] = [inst]
                yield mk_rt(outer, "ctor-default")
            # and a document that omits the attribute
            yield mk_parse(cd["id"], {"q": class_tag(cd), "a": [], "t": None, "k": []}, rng, style={})


# ------------------------------------------------------------------ serialisation forms and histories

PFX_OK = ["saml", "samlp", "md", "ds", "xenc", "a", "b", "p-1", "q.r", "_u", "saml2p", "SAML", "x1"]
PFX_FORCE = ["f1", "f2", "fx", "fy", "g-1", "h.2", "_f", "Force", "f\u00e9"]
PFX_RESERVED_FORM = ["ns0", "ns1", "ns2", "ns3", "ns12"]


def inst_namespaces(inst, acc=None):
    """Namespace URIs of element and attribute names of the instance (root first)."""
    acc = acc if acc is not None else []

    def add(ns):
        if ns and ns not in acc:
            acc.append(ns)

    def ext(e):
        add(e["ns"])
        for k, _ in e["a"]:
            if k.startswith("{"):
                add(k[1:].split("}", 1)[0])
        for c in e["k"]:
            ext(c)

    cd = T()[inst["c"]]
    add(cd["ns"])
    for (xml, _m), v in zip(cd["attrs"], inst["a"]):
        if v is not None and xml.startswith("{"):
            add(xml[1:].split("}", 1)[0])
    for k, _ in inst["ea"]:
        if k.startswith("{"):
            add(k[1:].split("}", 1)[0])
    for s_ in inst["s"]:
        for k in s_:
            inst_namespaces(k, acc)
    for e in inst["ee"]:
        ext(e)
    return acc


def gen_nspair(rng, nss, kind, registered):
    """A prefix map for to_string(nspair).  Prefixes are NCNames not starting with xml and not xs/xsd/xsi
    (AttributeValue carries a literal xmlns:xs); URIs are never the xml / xmlns namespace names."""
    nss = [u for u in nss if u not in (XMLNS, "http://www.w3.org/2000/xmlns/")] or ["urn:unused"]
    if kind == "ordinary":
        ps = rng.sample(PFX_OK, min(len(PFX_OK), rng.randint(1, len(nss))))
        return dict(zip(ps, rng.sample(nss, len(ps))))
    if kind == "unrelated":
        return {rng.choice(PFX_OK): "urn:not:used:%d" % rng.randrange(5)}
    if kind == "colliding":
        # a prefix some earlier step (or ElementTree itself: html, rdf, wsdl, dc) registered for another URI
        pool = [p for p in registered if p not in ("xml", "xs", "xsd", "xsi")] + ["html", "rdf", "wsdl", "dc"]
        return {rng.choice(pool): rng.choice(nss)}
    if kind == "reserved":
        return {rng.choice(PFX_RESERVED_FORM): rng.choice(nss)}
    if kind == "reserved-next":
        # the prefix ElementTree itself would generate for the NEXT (resp. previous) namespace it meets
        j = rng.randrange(len(nss))
        return {"ns%d" % (j + rng.choice([1, 1, -1]) if j else 1): nss[j]}
    if kind == "empty":
        return {"": rng.choice(nss)}
    if kind == "two-for-one":
        u = rng.choice(nss)
        return {rng.choice(PFX_OK[:6]): u, rng.choice(PFX_OK[6:]): u}
    return None


NSPAIR_KINDS = ["ordinary", "ordinary", "unrelated", "colliding", "reserved", "reserved-next", "reserved-next", "two-for-one"]


def empty_prefix_safe(inst, uri):
    """to_string({"": uri}) makes `uri` the DEFAULT namespace of the document (and of every later document of
    the process): an element in no namespace or an attribute qualified with `uri` would then be read back under
    another name.  Not pysaml2's doing beyond passing "" on; such combinations are kept out (stated assumption),
    and the empty prefix is only used as the last step of a history."""
    def ext_ok(e):
        return e["ns"] is not None and not any(k.startswith("{%s}" % uri) for k, _ in e["a"]) and all(ext_ok(c) for c in e["k"])

    cd = T()[inst["c"]]
    if any(v is not None and xml.startswith("{%s}" % uri) for (xml, _m), v in zip(cd["attrs"], inst["a"])):
        return False
    if any(k.startswith("{%s}" % uri) for k, _ in inst["ea"]) or not all(ext_ok(e) for e in inst["ee"]):
        return False
    return all(empty_prefix_safe(k, uri) for s_ in inst["s"] for k in s_)


def mixed_inst(rng, cid, depth=2):
    """A clean instance that mixes at least two namespaces: a foreign extension element with a namespace-qualified
    and a plain attribute (and a child in no namespace) is added."""
    inst = gen_inst(rng, cid, depth, {"rich": True})
    if T()[cid]["kind"] == "plain":
        ns = rng.choice(["urn:x", "http://example.org/ext"])
        inst["ee"] = inst["ee"] + [{"ns": ns, "tag": "hint", "a": [["{%s}level" % ns, "3"], ["a", "b"], ["{urn:y}z", "1"]],
                                    "k": [{"ns": None, "tag": "k", "a": [["{%s}q" % ns, "v"]], "k": [], "t": None}], "t": "t"}]
    return inst


def force_nspair(rng, nss):
    """Prefix map for to_string_force_namespace: ordinary prefixes for some of the instance's namespaces (the
    names are rewritten to literal prefix:name, so reserved-form prefixes would collide with generated ones)."""
    nss = [u for u in nss if u not in (XMLNS, "http://www.w3.org/2000/xmlns/", XS, XSI)] or ["urn:unused"]
    # a pool of its own: a literal xmlns:p next to a prefix p that an earlier to_string(nspair) registered with
    # ElementTree for another URI would be declared twice (caller-side clash, outside the assumption)
    ps = rng.sample(PFX_FORCE, min(len(PFX_FORCE), rng.randint(1, len(nss))))
    return dict(zip(ps, rng.sample(nss, len(ps))))


def _drop_nsdecl_attrs(e):
    """element_to_extension_element copies AttributeValue's literal xmlns:xs into the attribute dict; as attributes of
    an extension element these are namespace declarations (outside the instance space: consumed by any parser)."""
    return dict(e, a=[p for p in e["a"] if not p[0].startswith("xmlns")], k=[_drop_nsdecl_attrs(k) for k in e["k"]])


def selfcontained_history(resp):
    return mk_history([{"inst": resp, "form": "to_string", "nspair": None},
                       {"inst": resp, "form": "selfcontained", "nspair": None, "reuse": True},
                       {"inst": resp, "form": "to_string", "nspair": None, "reuse": True}], "selfcontained")


def selfcontained_regression():
    """fixed b3cfb249: the minimal input on which the self-contained rendering did not parse — an assertion (as
    extension element of the EncryptedAssertion) carrying one xml:-qualified attribute."""
    r, ea = _cid("saml2.samlp", "Response"), _cid("saml2.saml", "EncryptedAssertion")
    if None in (r, ea):
        return
    slot = [j for j, ch in enumerate(T()[r]["children"]) if ch[3] == ea]
    if not slot:
        return
    ext = {"ns": "urn:oasis:names:tc:SAML:2.0:assertion", "tag": "Assertion", "a": [["{%s}lang" % XMLNS, "en"], ["ID", "a1"]],
           "k": [], "t": None}
    resp = _blank(r)
    resp["s"][slot[0]] = [dict(_blank(ea), ee=[ext])]
    yield selfcontained_history(resp)


def selfcontained_cases(rng, tier):
    """The rendering an IdP performs before encrypting an assertion: a Response whose EncryptedAssertion holds the
    assertion as an extension-element tree, written by
    get_xml_string_with_self_contained_assertion_within_encrypted_assertion, then plainly, same object."""
    import saml2

    r, ea, a = _cid("saml2.samlp", "Response"), _cid("saml2.saml", "EncryptedAssertion"), _cid("saml2.saml", "Assertion")
    if None in (r, ea, a):
        return
    slot = [j for j, ch in enumerate(T()[r]["children"]) if ch[3] == ea]
    if not slot:
        return
    made = 0
    for _ in range(400 if tier == "quick" else 4000):
        if made >= (40 if tier == "quick" else 400):
            break
        assertion = gen_inst(rng, a, rng.choice([1, 2, 3]), {"rich": True})
        assertion["ea"] = assertion["ea"] + [["{urn:x}level", "3"]]
        if rng.random() < 0.5:
            # xml:-qualified names inside the assertion (fixed b3cfb249: get_prefix_map bound encasN to the xml namespace)
            assertion["ea"] = assertion["ea"] + [["{%s}lang" % XMLNS, "en"]]
        ext = _drop_nsdecl_attrs(reflect_ext(saml2.element_to_extension_element(build(assertion))))
        enc = dict(_blank(ea), ee=[ext])
        resp = gen_inst(rng, r, 0, {})
        resp["s"][slot[0]] = [enc]
        made += 1
        yield selfcontained_history(resp)


def construct_cases(rng, tier):
    """Falsy / edge constructor arguments: the object is built by the REAL constructor (or set_type + set_text) in
    the implementation run; the state it ends up in is the instance, which must survive the round trip.
    AttributeValue: text in None, "", " ", "0", 0, False, True, 1.5, bytes, ordinary; with/without an explicit type;
    with/without extension elements.  Every other class: text None, "", " ", "0" and set_text of int/bool."""
    tbl = T()
    e1 = {"ns": "urn:x", "tag": "e", "a": [], "k": [], "t": None}
    texts = [None, "", " ", "0", 0, False, True, 1.5, {"bytes": "b\u00e9"}, "x", " x ", "true", "12"]
    types = [None, "xs:string", "xs:integer", "xs:boolean", "xs:float", "xs:base64Binary", "xs:anyType", "xsd:string", "foo:bar"]

    def mk(cid, how, text, typ=None, ee=(), allow=None):
        cands = []
        for v in (text, _json_value(text) if isinstance(text, dict) else None):
            if isinstance(v, bytes):
                v = v.decode("utf-8")
            if v is not None and not isinstance(v, dict):
                cands += [str(v), str(v).lower(), str(v).strip()]
        # the text the constructor ends up with is the canonical form of one of the conversions
        for c in list(cands):
            for kind in ("int", "float", "bool", "date"):
                r = _conv(kind, c) if c else None
                if r:
                    cands.append(r)
        return {"op": "construct", "cls": cid, "how": how, "text": text, "type": typ, "ee": list(ee), "allow": allow,
                "conv": conv_table([c for c in cands if c])}

    for cd in tbl:
        cid = cd["id"]
        if cd["kind"] == "attrValue":
            for text in texts:
                for ee in ((), (e1,)):
                    # what the arguments are MEANT to reach on the code as recorded: text that strip() changes next to
                    # extension elements = the recorded strip behaviour; an explicit typing act (set_type or set_text)
                    # with no / empty text = the recorded type-without-text state; everything else must round-trip
                    strips = bool(ee) and isinstance(text, str) and text != text.strip()
                    yield mk(cid, "ctor", text, None, ee, "avstrip" if strips else None)
                    if text is not None:
                        yield mk(cid, "set_text", text, None, ee, "avstrip" if strips else ("avtypeonly" if text == "" else None))
                    for typ in types[1:]:
                        yield mk(cid, "typed", text, typ, ee, "avstrip" if strips else ("avtypeonly" if text in (None, "") else None))
        else:
            # a class with a parse-time `setdefault` whose constructor leaves that attribute None is the recorded
            # NameFormat behaviour by plain construction
            dflt = {k for k, _ in cd["defaults"]}
            nf = "nf" if any(xml in dflt and init is None for (xml, _m), init in zip(cd["attrs"], cd["init"])) else None
            for text in (None, "", " ", "0", "x"):
                yield mk(cid, "ctor", text, allow=nf)
            if tier != "quick" or cid % 4 == 0:
                for text in (0, 7, True, False, "", None):
                    yield mk(cid, "set_text", text, allow=nf)


def mk_history(steps, note=None):
    texts = []
    for st in steps:
        av_texts_inst(st["inst"], texts)
    c = {"op": "history", "steps": steps, "conv": conv_table(texts)}
    if note:
        c["note"] = note
    return c


def history_cases(rng, tier):
    """(a) every class through every public serialisation form: to_string(), to_string(nspair) with ordinary /
    unrelated / colliding / reserved-form (ns<digits>) / empty prefixes, str(), element_to_extension_element;
    (b) random histories: several objects of different classes serialised and parsed one after the other in one
    process with different prefix maps — each step judged alone with the unchanged specification."""
    tbl = T()
    allc = [cd["id"] for cd in tbl]
    multi = [cd["id"] for cd in tbl if any(ch[3] is not None and tbl[ch[3]]["ns"] != cd["ns"] for ch in cd["children"])]
    for cd in tbl:
        a = mixed_inst(rng, cd["id"], 1)
        nss = inst_namespaces(a)
        b = mixed_inst(rng, rng.choice(multi), 1)
        yield mk_history([
            {"inst": a, "form": "to_string", "nspair": None},
            {"inst": a, "form": "force", "nspair": force_nspair(rng, nss), "reuse": True},
            {"inst": a, "form": "to_string", "nspair": None, "reuse": True},
            {"inst": a, "form": "to_string", "nspair": gen_nspair(rng, nss, "reserved-next", [])},
            {"inst": a, "form": "to_string", "nspair": gen_nspair(rng, nss, "ordinary", []), "reuse": True},
            {"inst": b, "form": "to_string", "nspair": None},
            {"inst": a, "form": "ext", "nspair": None},
            {"inst": a, "form": "str", "nspair": None, "reuse": True},
            {"inst": a, "form": "to_string", "nspair": gen_nspair(rng, nss, rng.choice(NSPAIR_KINDS), PFX_OK[:3])},
            {"inst": b, "form": "to_string", "nspair": None},
        ] + ([{"inst": a, "form": "to_string", "nspair": {"": nss[0]}}] if nss[0] != XMLNS and empty_prefix_safe(a, nss[0]) else []), "forms")
    for _ in range(250 if tier == "quick" else 2500):
        steps, registered = [], []
        for _k in range(rng.randint(3, 8)):
            inst = mixed_inst(rng, rng.choice(multi if rng.random() < 0.6 else allc), rng.choice([1, 2]))
            form = rng.choice(["to_string", "to_string", "to_string", "str", "ext", "force"])
            nspair = None
            if form == "force":
                nspair = force_nspair(rng, inst_namespaces(inst))
            elif form == "to_string" and rng.random() < 0.6:
                nspair = gen_nspair(rng, inst_namespaces(inst), rng.choice(NSPAIR_KINDS), registered)
                registered += [p for p in (nspair or {}) if p]
            steps.append({"inst": inst, "form": form, "nspair": nspair})
            if rng.random() < 0.4:  # the very same object once more, plainly
                steps.append({"inst": inst, "form": "to_string", "nspair": None, "reuse": True})
        last = steps[-1]["inst"]
        u = rng.choice(inst_namespaces(last))
        if rng.random() < 0.5 and u != XMLNS and empty_prefix_safe(last, u):
            steps.append({"inst": last, "form": "to_string", "nspair": {"": u}})
        yield mk_history(steps, "history")


_XSD = {}


def xsd_positions(cid):
    """Oracle that does NOT come from the class tables: the position of each child element name in the XSD
    content model of the class's element (xmlschema over the XSD files shipped in saml2/data/schemas).
    Only content models that are a sequence at top level; nested plain sequences are flattened; any other
    nested group (choice, repeated group) is ONE position, of which a document uses one alternative.
    -> {clark tag: (position, is_group)} or None."""
    if cid in _XSD:
        return _XSD[cid]
    from saml2.xml import schema as SX
    from xmlschema.validators import XsdElement, XsdGroup

    cd = T()[cid]
    res = None
    el = SX._schema_validator_default.maps.elements.get("{%s}%s" % (cd["ns"], cd["tag"]))
    content = getattr(getattr(el, "type", None), "content", None) if el is not None else None
    if isinstance(content, XsdGroup) and content.model == "sequence" and cd["module"] != "saml2.schema.soapenv":
        res, pos = {}, [0]

        def flat(g):
            for p in g:
                if isinstance(p, XsdGroup):
                    if p.model == "sequence" and p.max_occurs == 1:
                        flat(p)
                    else:
                        for q in p.iter_elements():
                            if isinstance(q, XsdElement) and q.name not in res:
                                res[q.name] = (pos[0], True)
                        pos[0] += 1
                else:
                    if isinstance(p, XsdElement) and p.name not in res:
                        res[p.name] = (pos[0], False)
                    pos[0] += 1

        flat(content)
    _XSD[cid] = res
    return res


def xsd_order_cases(rng, tier):
    """Schema-ordered documents (children ordered by the XSD sequence, no extension children): parsing and
    serialising again must keep the children in that order.  Every class with an XSD element: every pair of
    declared children, all declared children at once, and random selections with repeated list members."""
    tbl = T()
    for cd in tbl:
        if cd["kind"] != "plain" or len(cd["children"]) < 2:
            continue
        posn = xsd_positions(cd["id"])
        if not posn:
            continue
        decls = [(posn[clark(ch[0], ch[1])], ch) for ch in cd["children"] if ch[3] is not None and clark(ch[0], ch[1]) in posn]
        if len(decls) < 2:
            continue

        def doc(sel):
            # at most one alternative per XSD group position; sorted by XSD position (stable)
            used, kids = {}, []
            for (p, grp), ch in sorted(sel, key=lambda d: d[0][0]):
                if grp and used.setdefault(p, ch[1]) != ch[1]:
                    continue
                n = rng.choice([1, 1, 2]) if ch[4] else 1
                for _ in range(n):
                    kids.append(gen_tree(rng, ch[3], 0))
            return {"q": class_tag(cd), "a": [], "t": None, "k": kids}

        sels = [[a, b] for i, a in enumerate(decls) for b in decls[i + 1:]] + [list(decls)]
        for _ in range(2 if tier == "quick" else 10):
            sels.append(rng.sample(decls, rng.randint(2, len(decls))))
        for sel in sels:
            tree = doc(sel)
            if len({tuple(k["q"]) for k in tree["k"]}) >= 2:
                c = mk_parse(cd["id"], tree, rng, style=None if rng.random() < 0.5 else {})
                c["op"] = "xsdorder"
                yield c


def gen_cases(rng, tier):
    if "cls" not in _S:
        setup()
    tbl = T()
    for c in regression_cases(rng):
        yield c
    for c in attr_namespace_cases(rng, tier):
        yield c
    for c in xsd_order_cases(rng, tier):
        yield c
    for c in ctor_default_cases(rng):
        yield c
    for c in history_cases(rng, tier):
        yield c
    for c in selfcontained_cases(rng, tier):
        yield c
    for c in construct_cases(rng, tier):
        yield c
    per_rt = 10 if tier == "quick" else 80
    per_parse = 5 if tier == "quick" else 40
    avs = [cd["id"] for cd in tbl if cd["kind"] == "attrValue"]
    dflt = [cd["id"] for cd in tbl if cd["defaults"]]
    holders = {}  # class id -> classes that can hold it (to nest interesting classes)
    for cd in tbl:
        for ch in cd["children"]:
            if ch[3] is not None:
                holders.setdefault(ch[3], []).append(cd["id"])

    # 1. every class: clean instances and documents
    for cd in tbl:
        cid = cd["id"]
        for k in range(per_rt):
            opt = {"rich": k % 2 == 1}
            yield mk_rt(gen_inst(rng, cid, rng.choice([1, 2, 3, 4]), opt))
        for k in range(per_parse):
            tree = gen_tree(rng, cid, rng.choice([1, 2, 3]))
            yield mk_parse(cid, tree, rng)

    # 2. the classes with special handling, alone and nested (Attribute/AttributeValue inside statements ...)
    n_sp = 200 if tier == "quick" else 2000
    focus = avs + dflt + [h for a in avs + dflt for h in holders.get(a, [])]
    for _ in range(n_sp):
        cid = rng.choice(focus)
        yield mk_rt(gen_inst(rng, cid, rng.choice([2, 3, 4]), {"rich": True}))
        yield mk_parse(cid, gen_tree(rng, cid, rng.choice([2, 3])), rng)
    for cid in avs:
        for _ in range(120 if tier == "quick" else 1500):
            yield mk_rt(gen_inst(rng, cid, 1, {}))
            yield mk_parse(cid, gen_tree(rng, cid, 1), rng)

    # 3. recorded defect classes, one root cause per case (everything else in the case is clean)
    n_def = 60 if tier == "quick" else 600
    allc = [cd["id"] for cd in tbl]
    for _ in range(n_def):
        opt = {"cr": True}
        inst = gen_inst(rng, rng.choice(allc), rng.choice([1, 2, 3]), opt)
        if opt.get("cr_used"):
            yield mk_rt(inst, "cr")
        opt = {"nf": True}
        inst = gen_inst(rng, rng.choice(dflt + [h for a in dflt for h in holders.get(a, [])]), 3, opt)
        if opt.get("nf_used"):
            yield mk_rt(inst, "nf")
        ctors = [cd["id"] for cd in tbl if any(v is not None for v in cd["init"]) and not cd["defaults"]]
        opt = {"ctor": True}
        inst = gen_inst(rng, rng.choice(ctors + [h for a in ctors for h in holders.get(a, [])]), 2, opt)
        if opt.get("ctor_used"):
            yield mk_rt(inst, "ctor-default")
        for mode in ("strip", "reorder", "typeonly"):
            opt = {"av": mode}
            inst = gen_inst(rng, rng.choice(avs + [h for a in avs for h in holders.get(a, [])]), 2, opt)
            if opt.get("av%s_used" % mode):
                yield mk_rt(inst, "av-" + mode)

    # 4. documents with a DTD: with and without entity declarations; wrong roots
    kinds = list(DTD_TEXT)
    n_dtd = 250 if tier == "quick" else 2500
    for _ in range(n_dtd):
        cid = rng.choice(allc)
        tree = gen_tree(rng, cid, 2)
        c = rng.randrange(4)
        if c == 0:
            dtd = [rng.choice(kinds[:5]) for _ in range(rng.randint(0, 3))]
        elif c == 1:
            dtd = [rng.choice(kinds[5:])]
        else:
            dtd = [rng.choice(kinds) for _ in range(rng.randint(1, 4))]
        style = gen_style(rng)
        style.pop("encoding", None)
        if rng.random() < 0.2:
            style["doctype_ext"] = rng.choice([' SYSTEM "http://127.0.0.1:9/x.dtd"', ' PUBLIC "-//V//C12" "http://127.0.0.1:9/y.dtd"'])
        if "entity-internal" in dtd and rng.random() < 0.7:
            # reference the entity where it would be expanded
            tree = dict(tree)
            tree["t"] = (tree["t"] or "") + "ENTITYREF"
            style["entity_ref"] = True
        yield mk_parse(cid, tree, rng, dtd=dtd, style=style)
    for _ in range(120 if tier == "quick" else 1200):
        cid = rng.choice(allc)
        other = rng.choice(allc)
        tree = gen_tree(rng, other, 1)
        if rng.random() < 0.5:
            cd = tbl[cid]
            tree["q"] = rng.choice([[cd["ns"], cd["tag"] + "x"], ["urn:x", cd["tag"]], [None, cd["tag"]], [cd["ns"], cd["tag"].swapcase()]])
        yield mk_parse(cid, tree, rng)

    # 5. oversized members: nothing may be truncated
    big = [("text", 300_000), ("attr", 120_000), ("kids", 1500), ("exttext", 200_000), ("ea", 800)]
    if tier != "quick":
        # (the interpreted Lean driver recurses once per character in `normCR`: keep texts below ~1M characters)
        big += [("text", 700_000), ("kids", 4000), ("attr", 1_000_000), ("exttext", 500_000), ("ea", 3000)]
    textual = [cd["id"] for cd in tbl if cd["kind"] == "plain" and cd["attrs"] and not cd["defaults"]]
    listy = [cd["id"] for cd in tbl if any(ch[4] and ch[3] is not None for ch in cd["children"]) and not cd["defaults"]]
    for what, n in big:
        unit = rng.choice(["x", "ab&<", "\U0001F600é", "line\n"])
        if what == "text":
            inst = gen_inst(rng, rng.choice(textual), 0, {})
            inst["t"] = (unit * (n // len(unit) + 1))[:n]
        elif what == "attr":
            inst = gen_inst(rng, rng.choice(textual), 0, {})
            inst["a"][0] = (unit * (n // len(unit) + 1))[:n]
        elif what == "exttext":
            inst = gen_inst(rng, rng.choice(textual), 0, {})
            inst["ee"] = [{"ns": "urn:big", "tag": "Big", "a": [], "k": [], "t": (unit * (n // len(unit) + 1))[:n]}]
        elif what == "ea":
            inst = gen_inst(rng, rng.choice(textual), 0, {})
            inst["ea"] = [["big%d" % i, "v%d" % i] for i in range(n)]
        else:
            cid = rng.choice(listy)
            inst = gen_inst(rng, cid, 0, {})
            j, ch = rng.choice([(j, ch) for j, ch in enumerate(tbl[cid]["children"]) if ch[4] and ch[3] is not None])
            inst["s"][j] = [gen_inst(rng, ch[3], 0, {}) for _ in range(n)]
        yield mk_rt(inst, "big-" + what)
        if what in ("text", "attr") and n <= 300_000:
            cid = inst["c"]
            tree = {"q": class_tag(tbl[cid]), "a": [[tbl[cid]["attrs"][0][0], inst["a"][0]]] if inst["a"][0] is not None else [],
                    "t": inst["t"] or None, "k": []}
            yield mk_parse(cid, tree, rng)


def search_cases(rng, broken, build_log):
    """A proof obligation broke (typically C12_table_wf after a change of a class table): instances that
    populate every member of every class the driver finds ill-formed, so that the data loss shows."""
    if "cls" not in _S:
        setup()
    tbl = T()
    for cd in tbl:
        for _ in range(3):
            inst = gen_inst(rng, cd["id"], 1, {})
            # fill every member once
            for j, ch in enumerate(cd["children"]):
                if ch[3] is not None and not inst["s"][j]:
                    inst["s"][j] = [gen_inst(rng, ch[3], 0, {})]
            yield mk_rt(inst, "fill-all")
    for c in xsd_order_cases(rng, "thorough"):
        yield c


# ------------------------------------------------------------------ implementation side


def align_attr_order(orig, got):
    """Forms that rewrite attribute names on the generated tree (set_prefixes) move the rewritten attributes to the
    end: where the re-parsed attribute DICT equals the original one, report it in the original order (the order of
    attributes is outside the comparison for these forms)."""
    def pairs(l):
        return sorted(map(tuple, l))

    def ext(a, b):
        if pairs(a["a"]) == pairs(b["a"]):
            b = dict(b, a=a["a"])
        if len(a["k"]) == len(b["k"]):
            b = dict(b, k=[ext(x, y) for x, y in zip(a["k"], b["k"])])
        return b

    if orig["c"] != got["c"]:
        return got
    if pairs(orig["ea"]) == pairs(got["ea"]):
        got = dict(got, ea=orig["ea"])
    if len(orig["ee"]) == len(got["ee"]):
        got = dict(got, ee=[ext(x, y) for x, y in zip(orig["ee"], got["ee"])])
    if [len(x) for x in orig["s"]] == [len(x) for x in got["s"]]:
        got = dict(got, s=[[align_attr_order(x, y) for x, y in zip(a, b)] for a, b in zip(orig["s"], got["s"])])
    return got


SAML_ASSERTION_TAG = "{urn:oasis:names:tc:SAML:2.0:assertion}Assertion"


def run_step(inst, form, nspair, obj=None):
    """Serialise the instance through one public form, parse it back, reflect, serialise again.
    The object is snapshot (member by member, extension attributes and elements with their attribute dicts)
    before and after: serialising must not change it."""
    import saml2
    from xml.etree import ElementTree

    obj = build(inst) if obj is None else obj
    cid = inst["c"]

    def prep(o):
        if form == "selfcontained":
            # the path an IdP takes before encrypting: Response.encrypted_assertion holds ONE EncryptedAssertion
            # whose extension element is the assertion
            ea = o.encrypted_assertion
            if isinstance(ea, list) and len(ea) == 1:
                o.encrypted_assertion = ea[0]
        return o

    def ser(o):
        if form == "ext":
            return saml2.element_to_extension_element(o).to_string()
        if form == "to_string":
            return o.to_string(nspair) if nspair is not None else o.to_string()
        if form == "force":
            return o.to_string_force_namespace(nspair)
        if form == "selfcontained":
            return o.get_xml_string_with_self_contained_assertion_within_encrypted_assertion(SAML_ASSERTION_TAG)
        return str(o)

    snap0 = reflect(obj, cid, out=False)
    same_form = form in ("ext", "force", "selfcontained")
    try:
        s = ser(prep(obj))
        if isinstance(s, bytes):
            s = s.decode("utf-8")
        snap1 = reflect(obj, cid, out=False)
        p = parse_with(cid, s)
        # second serialisation: plain for the to_string/str forms, the same form for the others
        s2 = None if p is None else (ser(prep(p)) if same_form else p.to_string())
        if isinstance(s2, bytes):
            s2 = s2.decode("utf-8")
    except Unusable as e:
        return {"r": "raised", "exc": "Unusable: %s" % e}
    except Exception as e:  # whatever the real code raises here is the observable "raised"
        return {"r": "raised", "exc": type(e).__name__}
    if snap1 != snap0:
        return {"r": "raised", "exc": "object changed by serialising it"}
    if p is None:
        return {"r": "raised", "exc": "None"}
    try:
        o = reflect(p, cid)
    except Unusable as e:
        return {"r": "raised", "exc": "Unusable: %s" % e}
    if form in ("force", "selfcontained"):
        o = align_attr_order(_norm_inst(inst), o)
    # the order of the root's children in the written document, read with the plain parser
    # (independent of pysaml2's object model)
    order = [list(classtable.split_clark(ch.tag)) for ch in ElementTree.fromstring(s.encode("utf-8"))]
    return {"r": "obj", "o": o, "same": s2 == s, "order": order}


def run_history(steps):
    # nothing is reset between the steps: module-level state left by one step is met by the next, and a step
    # marked `reuse` serialises the very object the previous step built
    out, prev = [], None
    for st in steps:
        obj = prev[1] if st.get("reuse") and prev is not None and prev[0] == st["inst"] else build(st["inst"])
        out.append(run_step(st["inst"], st["form"], st["nspair"], obj))
        prev = (st["inst"], obj)
    return {"steps": out}


def _json_value(v):
    if isinstance(v, dict) and "bytes" in v:
        return v["bytes"].encode("utf-8")
    return v


def run_construct(case):
    """Build the object through the REAL constructor / set_type / set_text from the recipe, report the state it is
    in (the instance the property talks about) and its round trip."""
    cls = _S["cls"][case["cls"]]
    text = _json_value(case["text"])
    ee = [build_ext(e) for e in case.get("ee", [])]
    try:
        if case["how"] == "ctor":
            obj = cls(text=text, extension_elements=ee or None)
        elif case["how"] == "set_text":
            obj = cls(extension_elements=ee or None)
            obj.set_text(text)
        else:  # typed: AttributeValue only
            obj = cls(extension_elements=ee or None)
            obj.set_type(case["type"])
            obj.set_text(text)
    except (ValueError, TypeError) as e:
        return {"r": "refused", "exc": type(e).__name__}   # the constructor refuses the arguments: nothing to round-trip
    try:
        state = reflect(obj, case["cls"], out=False)
    except Unusable as e:
        return {"r": "refused", "exc": "Unusable: %s" % e}  # e.g. non-string text on a plain class: no instance
    return {"r": "built", "state": state, "rt": run_step(state, "str", None, obj)}


def run_impl(case):
    if "cls" not in _S:
        setup()
    from defusedxml.common import DefusedXmlException

    reset_prefix_table()
    if case["op"] == "rt":
        return run_step(case["inst"], "str", None)
    if case["op"] == "history":
        return run_history(case["steps"])
    if case["op"] == "construct":
        return run_construct(case)
    if case["op"] == "xsdorder":
        from xml.etree import ElementTree

        doc = render(case)
        cid = case["cls"]
        try:
            p = parse_with(cid, doc)
            s = None if p is None else p.to_string()
        except Exception as e:
            return {"r": "raised", "exc": type(e).__name__}
        if p is None:
            return {"r": "raised", "exc": "None"}
        return {"r": "order", "order": [list(classtable.split_clark(ch.tag)) for ch in ElementTree.fromstring(s)]}
    if case["op"] == "parse":
        doc = render(case)
        cid = case["cls"]
        try:
            p = parse_with(cid, doc)
        except DefusedXmlException:
            return {"r": "refused"}
        except Exception as e:
            return {"r": "raised", "exc": type(e).__name__}
        if p is None:
            return {"r": "none"}
        try:
            return {"r": "obj", "o": reflect(p, cid)}
        except Unusable as e:
            return {"r": "raised", "exc": "Unusable: %s" % e}
    raise ValueError(case["op"])


def compare(case, impl, model):
    if model is None:
        return False
    if "steps" in impl:
        if not isinstance(model, dict) or len(model.get("steps", [])) != len(impl["steps"]):
            return False
        for cst, ist, mst in zip(case["steps"], impl["steps"], model["steps"]):
            # the extension-element form writes the extension children first by construction: its child order is
            # outside the comparison (and outside specRoundTripExt)
            drop = ("exc", "order") if cst["form"] == "ext" else ("exc",)
            if {k: v for k, v in ist.items() if k not in drop} != {k: v for k, v in mst.items() if k not in drop}:
                return False
        return True
    if case.get("op") == "construct":
        if impl.get("r") != "built":
            return isinstance(model, dict) and model.get("r") == "refused"
        return isinstance(model, dict) and {k: v for k, v in impl["rt"].items() if k != "exc"} == model.get("rt")
    i = {k: v for k, v in impl.items() if k != "exc"}
    return i == model


def nontrivial(case, impl, lean):
    m = lean.get("model") or {}
    return m.get("r") == "obj" or bool(m.get("steps"))


# ------------------------------------------------------------------ classification of failing inputs


def _norm_inst(i):
    return {"c": i["c"], "a": i["a"], "s": [[_norm_inst(k) for k in s] for s in i["s"]], "t": i["t"] or None,
            "ee": [_norm_ext(e) for e in i["ee"]], "ea": i["ea"]}


def _norm_ext(e):
    return {"ns": e["ns"], "tag": e["tag"], "a": e["a"], "k": [_norm_ext(k) for k in e["k"]], "t": e["t"] or None}


def _diff_ext(a, b, out):
    if (a["ns"], a["tag"], a["a"], len(a["k"])) != (b["ns"], b["tag"], b["a"], len(b["k"])):
        out.append("other")
        return
    if a["t"] != b["t"]:
        out.append("cr" if a["t"] and "\r" in a["t"] and _norm_cr(a["t"]) == b["t"] else "other")
    for x, y in zip(a["k"], b["k"]):
        _diff_ext(x, y, out)


def _diff(a, b, out):
    """Root causes of the differences between instance `a` (original, normalised) and `b` (re-parsed)."""
    tbl = T()
    if a["c"] != b["c"] or [len(s) for s in a["s"]] != [len(s) for s in b["s"]] or len(a["ee"]) != len(b["ee"]):
        out.append("other")
        return
    cd = tbl[a["c"]]
    dflt = dict(cd["defaults"])
    for (xml, _m), init, x, y in zip(cd["attrs"], cd["init"], a["a"], b["a"]):
        if x != y:
            if x is None and xml in dflt and y == dflt[xml]:
                out.append("nf")
            elif x is None and xml not in dflt and init is not None and y == init:
                out.append("ctor" if (cd["module"], cd["name"], xml) in RECORDED_CTOR_DEFAULTS else "other")
            else:
                out.append("other")
    is_av = cd["kind"] == "attrValue"
    if a["t"] != b["t"]:
        if a["t"] and "\r" in a["t"] and _norm_cr(a["t"]) == b["t"]:
            out.append("cr")
        elif is_av and a["ee"] and a["t"] and a["t"] != a["t"].strip() and (a["t"].strip() or None) == b["t"]:
            out.append("avstrip")
        else:
            out.append("other")
    no_xmlns = [p for p in a["ea"] if not p[0].startswith("xmlns:")]
    has_type = any(k == "{%s}type" % XSI for k, _ in a["ea"])
    if a["ea"] != b["ea"] and is_av and not a["t"] and has_type and \
            b["ea"] == ([] if a["ee"] else [["{%s}nil" % XSI, "true"]]) + no_xmlns:
        # a type but no text: xmlns:xs is not restored (and, without extension elements, xsi:nil is added)
        out.append("avtypeonly")
    elif a["ea"] != b["ea"] and is_av and a["ee"] and a["t"] and not a["t"].strip() and b["ea"] == no_xmlns:
        # whitespace-only text next to extension elements is stripped to nothing: same as above, by the strip
        out.append("avstrip")
    elif a["ea"] != b["ea"]:
        xs_last = [k for k, _ in a["ea"]].index("xmlns:xs") < len(a["ea"]) - 1 if any(k == "xmlns:xs" for k, _ in a["ea"]) else False
        xsd_last = [k for k, _ in a["ea"]].index("xmlns:xsd") < len(a["ea"]) - 1 if any(k == "xmlns:xsd" for k, _ in a["ea"]) else False
        if is_av and a["t"] and sorted(map(tuple, a["ea"])) == sorted(map(tuple, b["ea"])) and (xs_last or xsd_last):
            out.append("avreorder")
        else:
            out.append("other")
    for x, y in zip(a["ee"], b["ee"]):
        _diff_ext(x, y, out)
    for s, t in zip(a["s"], b["s"]):
        for x, y in zip(s, t):
            _diff(x, y, out)


KEYS = {"nf": K_NAMEFORMAT, "cr": K_CR, "avstrip": K_AVSTRIP, "avreorder": K_AVREORDER, "ctor": K_CTORDEFAULT,
        "avtypeonly": K_AVTYPEONLY}


AV_NOTES = {"avstrip": "av-strip", "avreorder": "av-reorder", "avtypeonly": "av-typeonly"}


def _unset_member(i):
    """Some node of the instance belongs to a class whose constructor does not create a member its
    class table declares, and the instance gives that member no value."""
    cd = T()[i["c"]]
    for j, ch in enumerate(cd["children"]):
        if ch[2] in cd["missing"] and not i["s"][j]:
            return True
    return any(_unset_member(k) for s in i["s"] for k in s)


def finding_key(case, impl, lean):
    """A recorded key only when EVERY difference between the instance and its re-parse has that one root cause."""
    if case.get("op") == "rt" and impl.get("r") == "raised" and impl.get("exc") == "AttributeError" and _unset_member(case["inst"]):
        return K_CTORMEMBER
    if case.get("op") == "history":
        # names the repaired defect when exactly the self-contained steps of an xml:-carrying instance stop parsing
        bad = [(cs, st) for cs, st in zip(case["steps"], impl.get("steps", [])) if st.get("r") != "obj" or not st.get("same")]
        if bad and all(cs["form"] == "selfcontained" and st.get("exc") == "ParseError" and XMLNS in json.dumps(cs["inst"])
                       for cs, st in bad):
            return K_SELFCONTAINED_XML
        return None
    if case.get("op") == "construct":
        # the recipe says which recorded AttributeValue behaviour (if any) it is MEANT to reach; a state with a type
        # but no text reached from arguments that do not ask for one is not covered by the known finding
        rt = impl.get("rt") or {}
        if impl.get("r") != "built" or rt.get("r") != "obj" or not case.get("allow"):
            return None
        out = []
        _diff(_norm_inst(impl["state"]), _norm_inst(rt["o"]), out)
        return KEYS[case["allow"]] if set(out) == {case["allow"]} else None
    if case.get("op") != "rt" or impl.get("r") != "obj":
        return None
    out = []
    _diff(_norm_inst(case["inst"]), _norm_inst(impl["o"]), out)
    kinds = set(out)
    if len(kinds) == 1 and "other" not in kinds:
        kind = kinds.pop()
        # the AttributeValue findings are only expected in the cases designated for them
        if kind in AV_NOTES and case.get("note") != AV_NOTES[kind]:
            return None
        return KEYS[kind]
    return None


# ------------------------------------------------------------------ shrinking / neighbourhood / evidence


def shrink(case):
    if case["op"] == "construct":
        if case.get("ee"):
            yield dict(case, ee=[])
        return
    if case["op"] == "history":
        st = case["steps"]
        for j in range(len(st)):
            if len(st) > 1:
                yield mk_history(st[:j] + st[j + 1:], case.get("note"))
        for j in range(len(st)):
            if st[j]["nspair"] and len(st[j]["nspair"]) > 1:
                for k in st[j]["nspair"]:
                    yield mk_history(st[:j] + [dict(st[j], nspair={k: st[j]["nspair"][k]})] + st[j + 1:], case.get("note"))
            if any(x["form"] == "selfcontained" for x in st):
                continue  # that form needs the Response / EncryptedAssertion / assertion structure as it is
            for v in shrink(mk_rt(st[j]["inst"])):
                if v["op"] == "rt" and v["inst"]["c"] == st[j]["inst"]["c"]:
                    yield mk_history(st[:j] + [dict(st[j], inst=v["inst"])] + st[j + 1:], case.get("note"))
        return
    if case["op"] == "rt":
        inst = case["inst"]

        def variants(i):
            if T()[i["c"]]["kind"] == "attrValue":
                return  # an AttributeValue state is kept whole: its parts depend on each other
            if i["ee"]:
                yield dict(i, ee=[])
            if i["ea"]:
                yield dict(i, ea=[])
            if i["t"] is not None:
                yield dict(i, t=None)
            for j, s in enumerate(i["s"]):
                if s:
                    yield dict(i, s=i["s"][:j] + [[]] + i["s"][j + 1:])
                    if len(s) > 1:
                        yield dict(i, s=i["s"][:j] + [s[:1]] + i["s"][j + 1:])
                    for n, k in enumerate(s):
                        for v in variants(k):
                            yield dict(i, s=i["s"][:j] + [s[:n] + [v] + s[n + 1:]] + i["s"][j + 1:])
            dflt = {k for k, _ in T()[i["c"]]["defaults"]}
            for j, v in enumerate(i["a"]):
                if v is not None and T()[i["c"]]["attrs"][j][0] not in dflt and T()[i["c"]]["init"][j] is None:
                    yield dict(i, a=i["a"][:j] + [None] + i["a"][j + 1:])

        for v in variants(inst):
            yield mk_rt(v, case.get("note"))
        # a kid alone
        for s in inst["s"]:
            for k in s:
                yield mk_rt(k, case.get("note"))
    else:
        x = case["tree"]
        for j in range(len(x["k"])):
            if case["op"] == "xsdorder" and len(x["k"]) <= 2:
                break
            yield dict(case, tree=dict(x, k=x["k"][:j] + x["k"][j + 1:]))
        for j in range(len(x["a"])):
            yield dict(case, tree=dict(x, a=x["a"][:j] + x["a"][j + 1:]))
        if x["t"] is not None:
            yield dict(case, tree=dict(x, t=None))
        if case.get("style"):
            yield dict(case, style={})


def neighbours(case, rng):
    for c in shrink(case):
        yield c
    if case["op"] == "parse":
        for _ in range(5):
            yield dict(case, render_seed=rng.randrange(1 << 30))
        # the same tree as an instance round trip of its harvested form is covered by op rt


def distribution(recs):
    d = {"ops": {}, "branches": {}, "classes_rt": 0, "classes_parse": 0, "impl_outcomes": {}, "notes": {}}
    crt, cpa = set(), set()
    for r in recs:
        c = r["case"]
        d["ops"][c["op"]] = d["ops"].get(c["op"], 0) + 1
        if c["op"] == "rt":
            crt.add(c["inst"]["c"])
        elif c["op"] == "history":
            for st in c["steps"]:
                key = "form:%s:%s" % (st["form"], "nspair" if st["nspair"] is not None else "plain")
                d.setdefault("history_steps", {})
                d["history_steps"][key] = d["history_steps"].get(key, 0) + 1
        elif c["op"] == "construct":
            pass
        elif c["op"] == "parse":
            cpa.add(c["cls"])
        else:
            d.setdefault("classes_xsdorder_set", set()).add(c["cls"])
        k = c["op"] + ":" + str(r["impl"].get("r", "steps"))
        d["impl_outcomes"][k] = d["impl_outcomes"].get(k, 0) + 1
        if c.get("note"):
            d["notes"][c["note"]] = d["notes"].get(c["note"], 0) + 1
        for b in r["lean"].get("branches", []) or []:
            d["branches"][b] = d["branches"].get(b, 0) + 1
    d["classes_rt"], d["classes_parse"] = len(crt), len(cpa)
    d["classes_xsdorder"] = len(d.pop("classes_xsdorder_set", ()))
    d["classes_in_table"] = len(T())
    return d
