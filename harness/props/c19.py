"""C19 — session knowledge expires, ends with logout and never leaks across subjects:
correspondence harness.

One case = one HISTORY (<= 40 steps) run against one fresh `Saml2Client` under the virtual clock:
logins (Responses built by a real `Server`, fed to `parse_authn_request_response`), reads
(`users.get_identity / get_info_from / stale_sources_for_person`), clock advances, `global_logout`
(Redirect / POST / SOAP, SOAP through a stub transport installed as `sp.send`), deliveries of
LogoutResponses produced by a real `Server` (`parse_logout_request_response` +
`handle_logout_response`; pending, duplicate and unknown InResponseTo; matching or foreign issuer),
IdP-initiated LogoutRequests (`handle_logout_request`), and `Cache.reset`.

After every step the harness records the step's result and a structural observation of the client
(`users.subjects()`, `users.sources()`, keys of `Saml2Client.state`, `is_logged_in`).  The Lean
driver replays the same history on the model (Model/Session.lean) and evaluates the declarative
specification (Spec/C19.lean) on the IMPLEMENTATION's trace.

Dimensions the model does NOT see (the unchanged code must behave the same along them; a change that makes it
depend on them shows up as a disagreement and, where the property is hurt, as a spec failure):
  form    per received message (login Response, LogoutResponse, IdP-initiated LogoutRequest): compact as
          pysaml2 writes it / white space between elements / white space around the Issuer text / other
          namespace prefixes — the code's own canonicalisation (strip) is part of the bookkeeping contract
  skew    `accepted_time_diff` of the SP (unset, 0, 60, 300): the stored expiry must stay the assertion's own
          NotOnOrAfter / SessionNotOnOrAfter
  stores  caller-supplied `identity_cache` / `state_cache` shared by several Saml2Client objects, steps
          dispatched to different objects (or one new object per step); observation goes through the
          supplied stores and a separate observer object

Abstraction used for the model's input (all plain numbers):
  subject k   <-> the k-th NameID of the case's subject list (entries of NAMEID_POOL, pairwise
                  different under `ident.code` and under `SamlBase.__eq__`)
  idp j       <-> the j-th entity of IDP_IDS; the case fixes which single-logout binding each
                  publishes (one endpoint each, so the binding `do_logout` chooses is that one)
  request id  <-> (number of the step that created the LogoutRequest, idp it was sent to)
  attribute a <-> ATTRS[a], value v <-> "v<v>", session index n <-> "si-<n>"
"""
import base64
import re
import urllib.parse
import xml.etree.ElementTree as ET
import zlib

import scenario as S

PROP = "C19"
LEAN_PROPS = "PysamlModel.Props.C19"
MODEL_TARGETS = ["PysamlModel.Model.Session", "PysamlModel.Spec.C19"]
AUDIT = "PysamlModel/Audit/C19.lean"
DRIVER = "Drivers/C19.lean"
CORRESPONDENCE = ("Drivers/C19.lean vs Cache/Population, parse_authn_request_response (caching step), "
                  "global_logout/do_logout, handle_logout_response, handle_logout_request, local_logout")
RULE = ("random histories (<= 40 steps; 1-3 subjects incl. look-alike NameIDs; 1-3 IdPs, each publishing one "
        "single-logout binding Redirect/POST/SOAP/none) of login / reads / clock advance / global logout / "
        "logout-response delivery (pending, duplicate, unknown id; matching or foreign issuer) / IdP-initiated "
        "logout request / Cache.reset; non-trivial = history in which at least one logout request was created "
        "or one session ended; distinct = distinct case JSON")
TRUSTED = [
    "subject indices stand for NameIDs that are pairwise different under ident.code and SamlBase.__eq__ "
    "(injectivity of ident.code is property C18); the harness maps decoded NameIDs back to indices",
    "acceptance of a login is taken from the case's `kind` (valid windows for kind=ok are arranged by the "
    "generator; response validation itself is C01/C04/C05/C06); stored expiry is recomputed by the model "
    "from SessionNotOnOrAfter / Conditions NotOnOrAfter as `AuthnResponse.session_info` does",
    "binding chosen by do_logout = the single binding the IdP publishes (choice logic is C08)",
    "LogoutResponses / IdP-initiated LogoutRequests are produced by real saml2.server.Server instances; "
    "HTTP for SOAP is a stub installed as Saml2Client.send",
    "request ids are observed as (creating step, target IdP); real ids are random strings",
]
ASSUMPTIONS = [
    "in-memory Cache (no shelve file) and in-memory Saml2Client.state",
    "logout messages unsigned (signature requirements are C07/C01)",
    "one history = one thread; no concurrent use of the client",
]
PARALLEL = True

IDP_IDS = [S.IDP_ID, S.IDP2_ID, "https://idp3.verif.example/idp"]
IDP_KEYS = ["idp_sign", "member2", "member2"]
BIND = {"redirect": S.BINDING_REDIRECT, "post": S.BINDING_POST, "soap": S.BINDING_SOAP}
BIND_R = {v: k for k, v in BIND.items()}
ATTRS = ["uid", "mail", "sn", "givenName", "cn"]
PERSISTENT = "urn:oasis:names:tc:SAML:2.0:nameid-format:persistent"
TRANSIENT = "urn:oasis:names:tc:SAML:2.0:nameid-format:transient"
# (text, format, sp_name_qualifier): look-alikes differ in exactly one field
NAMEID_POOL = [
    ("alice", PERSISTENT, S.SP_ID),
    ("alice", TRANSIENT, S.SP_ID),
    ("bob", PERSISTENT, S.SP_ID),
    ("alice", PERSISTENT, None),
    ("Alice", PERSISTENT, S.SP_ID),
    ("alice", PERSISTENT, S.SP2_ID),
    # unusual but valid identifier texts are ordinary subjects, different from their unpadded look-alikes:
    # the unchanged code handles them verbatim (no strip anywhere on the way cache key -> NameID -> cache key)
    ("  alice  ", PERSISTENT, S.SP_ID),
    ("alice\n", PERSISTENT, S.SP_ID),
    ("\talice", PERSISTENT, S.SP_ID),
    ("al  ice", PERSISTENT, S.SP_ID),
    ("alice", PERSISTENT, S.SP_ID + " "),
]
TZS = ["EET-2", "AEST-10", "PST8"]
IMPORT_AT = S.NOW0 - 86400  # virtual instant at which the pysaml2 client/server modules are imported
SAMLP = "urn:oasis:names:tc:SAML:2.0:protocol"
SAML = "urn:oasis:names:tc:SAML:2.0:assertion"

_cache = {}


def setup():
    """Installs the virtual clock, imports the pysaml2 modules under test at a KNOWN virtual instant (a day
    before the histories start: whatever a module computes at import time is a day old), and makes sure the
    virtual clock does not depend on the process time zone."""
    import os
    import sys
    import time

    S.install()
    if "saml2.client" not in sys.modules:
        with S.clock(IMPORT_AT):
            import saml2.client  # noqa: F401
            import saml2.server  # noqa: F401
    import saml2.time_util

    old = os.environ.get("TZ")
    try:
        for tz in TZS:
            os.environ["TZ"] = tz
            time.tzset()
            with S.clock(S.NOW0 + 7):
                if saml2.time_util.utc_now() != S.NOW0 + 7 or time.strftime("%H:%M:%S", time.gmtime()) != \
                        S.fmt_time(S.NOW0 + 7)[11:19]:
                    raise RuntimeError("harness: the virtual clock moves with TZ=%s" % tz)
    finally:
        _set_tz(old)


def _set_tz(tz):
    import os
    import time

    if tz is None:
        os.environ.pop("TZ", None)
    else:
        os.environ["TZ"] = tz
    time.tzset()


# ------------------------------------------------------------------ fixtures


def _slo_url(j, b):
    return "%s/slo/%s" % (IDP_IDS[j].rsplit("/", 1)[0], b)


def _idp_entity(j, b):
    base = IDP_IDS[j].rsplit("/", 1)[0]
    slo = [] if b == "none" else [(BIND[b], _slo_url(j, b))]
    return {"entity_id": IDP_IDS[j],
            "idpsso": {"keys": [("signing", IDP_KEYS[j])], "sso": [(S.BINDING_REDIRECT, base + "/sso/redirect")],
                       "slo": slo}}


def _server(j, b):
    key = ("idp", j, b)
    if key not in _cache:
        e = _idp_entity(j, b)
        _cache[key] = S.make_idp(S.idp_config(
            entityid=IDP_IDS[j], key_file=S.key_path(IDP_KEYS[j]), cert_file=S.cert_path(IDP_KEYS[j]),
            idp={"endpoints": {"single_sign_on_service": [(l, bb) for bb, l in e["idpsso"]["sso"]],
                               "single_logout_service": [(l, bb) for bb, l in e["idpsso"]["slo"]]}}))
    return _cache[key]


def _sp_conf(binds, skew=None):
    key = ("spconf", tuple(binds), skew)
    if key not in _cache:
        from saml2.config import SPConfig

        c = SPConfig()
        extra = {} if skew is None else {"accepted_time_diff": skew}
        c.load(S.sp_config(idp_entities=[_idp_entity(j, b) for j, b in enumerate(binds)],
                           sp={"want_response_signed": False, "allow_unsolicited": True}, **extra))
        _cache[key] = c
    return _cache[key]


class _DictStore(dict):
    """a caller-supplied pending-state store that is a dict subclass"""


PREFILLED_KEY = "id-somebody-elses-attribute-query"


def reform(xml, form):
    """The same message in another (schema-valid) form."""
    if form == "pretty":
        return re.sub(r">\s*<", ">\n  <", xml)
    if form == "issuerpad":
        return re.sub(r"(<(?:\w+:)?Issuer\b[^>]*>)([^<]+)(</)", r"\1\n      \2\n    \3", xml)
    if form == "prefix":
        return re.sub(r"\bns(\d):", r"q\1x:", re.sub(r"xmlns:ns(\d)=", r"xmlns:q\1x=", xml))
    return xml


def _deflate_b64(xml):
    return base64.b64encode(zlib.compress(xml.encode("utf-8"))[2:-4]).decode("ascii")


class _HttpResp:
    def __init__(self, code, text):
        self.status_code = code
        self.text = text
        self.content = text


def _nameid(spec):
    from saml2.saml import NameID

    text, fmt, spnq = spec
    return NameID(text=text, format=fmt, sp_name_qualifier=spnq)


# ------------------------------------------------------------------ wire helpers (independent of saml2)


def _inflate_b64(s):
    return zlib.decompress(base64.b64decode(s), -15).decode("utf-8")


def _message_of(info, param):
    """The SAML message carried by an `http_info` dictionary, whatever the binding."""
    hdrs = dict(info.get("headers") or [])
    if "Location" in hdrs:
        q = urllib.parse.parse_qs(urllib.parse.urlsplit(hdrs["Location"]).query)
        return _inflate_b64(q[param][0]), hdrs["Location"].split("?")[0]
    data = info.get("data")
    if isinstance(data, str) and "<form" in data:
        import html

        m = re.search(r'name="%s" value="([^"]*)"' % param, data)
        act = re.search(r'action="([^"]*)"', data)
        return base64.b64decode(html.unescape(m.group(1))).decode("utf-8"), html.unescape(act.group(1))
    return data, info.get("url")


def _find(root, tag):
    if root.tag == tag:
        return root
    return root.find(".//" + tag)


class World:
    def __init__(self, cfg, now0):
        from saml2.client import Saml2Client

        self.cfg = cfg
        self.binds = [d["b"] for d in cfg["idps"]]
        self.soap = [d.get("soap", "ok") for d in cfg["idps"]]
        conf = _sp_conf(self.binds, cfg.get("skew"))
        stores = cfg.get("stores", "default")
        self.shared = stores != "default"
        self.prefilled = set()
        if self.shared:
            from saml2.cache import Cache

            self.ident = Cache()
            self.store = _DictStore() if stores == "shared-dictsub" else {}
            if stores == "shared-prefilled":
                self.store[PREFILLED_KEY] = {"entity_id": IDP_IDS[0], "operation": "AttributeQuery",
                                             "subject_id": "x", "sign": False}
                self.prefilled = {PREFILLED_KEY}

        def mk():
            if self.shared:
                c = Saml2Client(config=conf, identity_cache=self.ident, state_cache=self.store)
            else:
                c = Saml2Client(config=conf)
            c.send = self._send
            return c

        self.mk = mk
        n = cfg.get("clients", 1)
        self.perstep = self.shared and n == "perstep"
        self.clients = [mk() for _ in range(n if (self.shared and isinstance(n, int)) else 1)]
        self.sp = self.clients[0]
        # what the application sees: the stores it supplied, read through an object of its own
        self.observer = mk() if self.shared else self.sp
        self.nids = [_nameid(NAMEID_POOL[k]) for k in cfg["subjects"]]
        from saml2.ident import code

        self.codes = [code(n) for n in self.nids]
        self.now = now0
        self.step_no = 0
        self.rid = {}  # real request id -> [step, idp]
        self.last = None  # abstract id of the last delivered response
        self.soap_sent = []  # abstract descriptions of the SOAP requests sent in the current step
        self.seq = 0

    # --- abstraction helpers

    def subj_index(self, name_id):
        from saml2.ident import code

        try:
            return self.codes.index(code(name_id))
        except ValueError:
            return -1

    def idp_index(self, entity_id):
        return IDP_IDS.index(entity_id) if entity_id in IDP_IDS else -1

    def abstract_request(self, xml, dest, binding):
        """What a LogoutRequest emitted by the SP says: target, subject, session index."""
        root = _find(ET.fromstring(xml), "{%s}LogoutRequest" % SAMLP)
        nid = root.find("{%s}NameID" % SAML)
        from saml2.saml import NameID

        n = NameID(text=nid.text, format=nid.get("Format"), sp_name_qualifier=nid.get("SPNameQualifier"),
                   name_qualifier=nid.get("NameQualifier"), sp_provided_id=nid.get("SPProvidedID"))
        sis = [e.text for e in root.findall("{%s}SessionIndex" % SAMLP)]
        j = -1
        for k in range(len(self.binds)):
            if self.binds[k] != "none" and dest == _slo_url(k, self.binds[k]) and root.get("Destination") == dest:
                j = k
        real = root.get("ID")
        if real not in self.rid:
            self.rid[real] = [self.step_no, j]
        return {"id": self.rid[real], "b": BIND_R.get(binding, "?"), "subj": self.subj_index(n),
                "sidx": [int(x[3:]) if re.fullmatch(r"si-\d+", x or "") else -1 for x in sis]}

    def _send(self, url=None, method="GET", **kw):
        """Stub transport for SOAP: the IdP that owns `url` answers through a real Server."""
        from saml2 import saml, samlp
        from saml2.s_utils import status_message_factory
        from saml2.samlp import STATUS_REQUEST_DENIED

        data = kw.get("data")
        d = self.abstract_request(data, url, S.BINDING_SOAP)
        self.soap_sent.append(d)
        j = d["id"][1]
        mode = self.soap[j] if j >= 0 else "http500"
        if mode == "http500":
            return _HttpResp(500, "")
        root = _find(ET.fromstring(data), "{%s}LogoutRequest" % SAMLP)
        idp = _server(j, self.binds[j])
        req = samlp.LogoutRequest(id=root.get("ID"), issuer=saml.Issuer(text=S.SP_ID))
        status = status_message_factory("no", STATUS_REQUEST_DENIED) if mode == "denied" else None
        resp = idp.create_logout_response(req, bindings=[S.BINDING_SOAP], status=status, sign=False)
        info = idp.apply_binding(S.BINDING_SOAP, str(resp), "", "", response=True)
        return _HttpResp(200, info["data"])

    def pending_store(self):
        """The pending-operation store the application observes (its own one if it supplied one)."""
        st = self.store if self.shared else self.sp.state
        return {k: v for k, v in st.items() if k not in self.prefilled}

    def observe(self):
        sp = self.observer
        subs = sorted(k for k in (self.subj_index(n) for n in sp.users.subjects()))
        srcs = []
        logged = []
        for k in subs:
            if k < 0:
                continue
            try:
                srcs.append([k, sorted(self.idp_index(e) for e in sp.users.sources(self.nids[k]))])
            except KeyError:  # subjects() lists a NameID the cache does not know under that NameID's own key
                srcs.append([k, [-1]])
        for k, n in enumerate(self.nids):
            if sp.is_logged_in(n):
                logged.append(k)
        pend = []
        state = self.pending_store()
        for real in state.keys():
            if real not in self.rid:  # a record the harness did not see being created
                self.rid[real] = [self.step_no, self.idp_index(state[real].get("entity_id"))]
            pend.append(self.rid[real])
        return {"subjects": subs, "sources": srcs, "pending": pend, "logged_in": logged}

    # --- steps

    def step(self, st):
        op = st["op"]
        self.soap_sent = []
        if op == "advance":
            self.now += st["dt"]
        if self.perstep:
            self.sp = self.mk()
        else:
            self.sp = self.clients[st.get("c", 0) % len(self.clients)]
        import os

        tz = self.cfg.get("tz")
        old = os.environ.get("TZ")
        if tz:
            _set_tz(tz)  # the process runs in another time zone; the model stays UTC
        try:
            with S.clock(self.now):
                out = getattr(self, "op_" + op)(st)
                obs = self.observe()
        finally:
            if tz:
                _set_tz(old)
        self.step_no += 1
        return {"out": out, "obs": obs}

    def op_advance(self, st):
        return {"r": "ok"}

    def op_login(self, st):
        j = st["i"]
        idp = _server(j, self.binds[j])
        identity = {ATTRS[a]: ["v%d" % v for v in vals] for a, vals in st["ava"]}
        self.seq += 1
        irt = "id-authn-%d" % self.seq
        sess = S.fmt_time(st["sess"]) if st.get("sess") is not None else None
        kind = st["kind"]
        resp = idp.create_authn_response(
            identity, irt, S.SP_ACS_POST, S.SP_ID, name_id=self.nids[st["s"]],
            authn={"class_ref": "urn:oasis:names:tc:SAML:2.0:ac:classes:Password", "authn_auth": IDP_IDS[j]},
            sign_response=False, sign_assertion=False, session_not_on_or_after=sess)
        xml = str(resp)
        # the Response is unsigned: expiry, session index and the defects of the invalid kinds are edited in
        cond = st.get("cond")
        if kind == "expired":
            cond = self.now - 10

        def fix_cond(m):
            tag = re.sub(r'\s+NotOnOrAfter="[^"]*"', "", m.group(0))
            if cond is not None:
                tag = tag[:-1] + ' NotOnOrAfter="%s">' % S.fmt_time(cond)
            return tag

        xml, n1 = re.subn(r"<(\w+:)?Conditions\b[^>]*>", fix_cond, xml, count=1)
        sidx = st.get("sidx")
        xml, n2 = re.subn(r'\s+SessionIndex="[^"]*"', "" if sidx is None else ' SessionIndex="si-%d"' % sidx, xml, count=1)
        if n1 != 1 or n2 != 1:
            raise RuntimeError("harness: cannot rewrite the Response produced by Server")
        if kind == "audience":
            xml = xml.replace("Audience>%s<" % S.SP_ID, "Audience>%s<" % S.SP2_ID)
        elif kind == "destination":
            xml = xml.replace('Destination="%s"' % S.SP_ACS_POST, 'Destination="https://evil.example/acs"')
        xml = reform(xml, st.get("form"))
        try:
            r = self.sp.parse_authn_request_response(base64.b64encode(xml.encode("utf-8")).decode("ascii"),
                                                     S.BINDING_POST, outstanding={irt: "/"})
        except Exception:  # only the real call is inside this try; pysaml2 raises plain Exception for a foreign audience
            return {"r": "rejected"}
        # "identity produced" = an AuthnResponse object carrying a subject came back
        return {"r": "accepted" if r is not None and r.name_id is not None else "rejected"}

    def op_identity(self, st):
        ents = [IDP_IDS[j] for j in st["ents"]] or None
        try:
            ava, old = self.sp.users.get_identity(self.nids[st["s"]], ents, st["check"])
        except KeyError:
            return {"r": "error", "e": "key", "soap": []}
        return {"r": "identity", "ava": _canon_ava(ava), "old": [self.idp_index(e) for e in old]}

    def op_info(self, st):
        from saml2.cache import TooOld

        try:
            info = self.sp.users.get_info_from(self.nids[st["s"]], IDP_IDS[st["i"]], st["check"])
        except KeyError:
            return {"r": "error", "e": "key", "soap": []}
        except TooOld:
            return {"r": "error", "e": "tooold", "soap": []}
        if info is None:
            return {"r": "empty"}
        si = info.get("session_index")
        return {"r": "info", "ava": _canon_ava(info["ava"]), "nooa": info["not_on_or_after"],
                "sidx": None if si is None else (int(si[3:]) if re.fullmatch(r"si-\d+", si) else -1),
                "subj": self.subj_index(info["name_id"])}

    def op_stale(self, st):
        srcs = [IDP_IDS[j] for j in st["srcs"]] or None
        try:
            r = self.sp.users.stale_sources_for_person(self.nids[st["s"]], srcs)
        except KeyError:
            return {"r": "error", "e": "key", "soap": []}
        return {"r": "stale", "l": [self.idp_index(e) for e in r]}

    def op_reset(self, st):
        self.sp.users.cache.reset(self.nids[st["s"]], IDP_IDS[st["i"]])
        return {"r": "ok"}

    def _logout_result(self, res):
        """Canonical form of what do_logout / handle_logout_response returned."""
        if isinstance(res, tuple):
            if res[1].startswith("504"):
                return {"r": "timeout"}
            if res[1].startswith("200"):
                return {"r": "done"}
            raise RuntimeError("harness: unexpected logout result %r" % (res,))
        reqs = []
        soap = list(self.soap_sent)
        for ent, v in res.items():
            if isinstance(v, tuple):
                binding, info = v
                xml, dest = _message_of(info, "SAMLRequest")
                reqs.append(self.abstract_request(xml, dest, binding))
            else:
                d = [x for x in soap if x["id"][1] == self.idp_index(ent)]
                reqs.append(d[0])
        return {"r": "sent", "reqs": reqs}

    def _logout_error(self, e):
        from saml2.client_base import LogoutError
        from saml2.mdstore import UnsupportedBinding
        from saml2.response import StatusError

        if isinstance(e, LogoutError):
            k = "logout"
        elif isinstance(e, KeyError):
            k = "key"
        elif isinstance(e, ValueError):
            k = "value"
        elif isinstance(e, AttributeError):
            k = "attribute"
        elif isinstance(e, StatusError):
            k = "status"
        elif isinstance(e, (UnsupportedBinding,)):
            k = "unsupported"
        else:  # some other pysaml2 error class escaping the real call (the callers catch nothing else)
            k = "other:" + type(e).__name__
        return {"r": "error", "e": k, "soap": list(self.soap_sent)}

    def op_logout(self, st):
        from saml2 import SAMLError
        from saml2.s_utils import SamlException

        exp = S.fmt_time(st["expire"]) if st.get("expire") is not None else None
        try:
            if exp is None and st.get("args") == "omit":  # every optional argument really left out
                res = self.sp.global_logout(self.nids[st["s"]])
            else:
                res = self.sp.global_logout(self.nids[st["s"]], "urn:oasis:names:tc:SAML:2.0:logout:user", exp, sign=False)
        except (KeyError, ValueError, AttributeError, SAMLError, SamlException) as e:
            return self._logout_error(e)
        return self._logout_result(res)

    def resolve(self, st):
        """Which request id the delivered response claims to answer: [step, idp] or None (never issued)."""
        pend = [self.rid[k] for k in self.pending_store().keys()]
        if st["sel"] == "pending" and pend:
            return pend[st["n"] % len(pend)]
        if st["sel"] == "dup":
            return self.last
        return None

    def op_resp(self, st):
        from saml2 import saml, samlp
        from saml2 import SAMLError
        from saml2.s_utils import SamlException

        rid = self.resolve(st)
        self.last = rid
        real = None
        for k, v in self.rid.items():
            if v == rid:
                real = k
        if real is None:
            real = "id-never-issued-%d" % self.step_no
        j = st["issuer"]
        if j < 0:
            j = rid[1] if rid is not None and rid[1] >= 0 else 0
        # over which binding does the answer travel: the one the request used if asynchronous, else POST
        b = self.binds[j] if self.binds[j] in ("redirect", "post") else "post"
        idp = _server(j, self.binds[j])
        req = samlp.LogoutRequest(id=real, issuer=saml.Issuer(text=S.SP_ID))
        resp = idp.create_logout_response(req, bindings=[BIND[b]], sign=False)
        xml = reform(str(resp), st.get("form"))
        wire = _deflate_b64(xml) if b == "redirect" else base64.b64encode(xml.encode("utf-8")).decode("ascii")
        parsed = self.sp.parse_logout_request_response(wire, BIND[b])
        if parsed is None:
            raise RuntimeError("harness: LogoutResponse produced by Server was not accepted")
        try:
            res = self.sp.handle_logout_response(parsed)
        except (KeyError, ValueError, AttributeError, SAMLError, SamlException) as e:
            return self._logout_error(e)
        return self._logout_result(res)

    def op_slo(self, st):
        """IdP-initiated LogoutRequest naming subject `named`, while the application's current user is
        `current`, arriving over binding `b` from idp `i`."""
        from saml2 import SAMLError

        j = st["i"]
        b = st["b"]
        idp = _server(j, self.binds[j])
        dest = {"redirect": S.SP_SLO_REDIRECT, "post": S.SP_SLO_POST, "soap": S.SP_SLO_SOAP}[b]
        rid, req = idp.create_logout_request(dest, S.SP_ID, name_id=self.nids[st["named"]],
                                             reason="urn:oasis:names:tc:SAML:2.0:logout:admin",
                                             expire=S.fmt_time(self.now + 300), sign=False)
        xml = reform(str(req), st.get("form"))
        if b == "redirect":
            wire = _deflate_b64(xml)
        elif b == "post":
            wire = base64.b64encode(xml.encode("utf-8")).decode("ascii")
        else:
            wire = idp.apply_binding(BIND[b], xml, dest, "rs")["data"]
        try:
            if st.get("args") == "omit":
                out = self.sp.handle_logout_request(wire, self.nids[st["current"]], BIND[b])
            else:
                out = self.sp.handle_logout_request(wire, self.nids[st["current"]], BIND[b], sign=False, relay_state="rs")
        except SAMLError as e:
            if type(e) is SAMLError:  # "No supported bindings found to create LogoutResponse"
                return {"r": "error", "e": "noresponse", "soap": []}
            raise
        xml, dest = _message_of(out, "SAMLResponse")
        root = _find(ET.fromstring(xml), "{%s}LogoutResponse" % SAMLP)
        codes = [e.get("Value").rsplit(":", 1)[1] for e in root.iter("{%s}StatusCode" % SAMLP)]
        ok = root.get("InResponseTo") == rid and root.find("{%s}Issuer" % SAML).text == S.SP_ID
        return {"r": "slo", "status": codes[-1] if ok else "garbled"}


def _canon_ava(ava):
    out = {}
    for k, vals in ava.items():
        a = ATTRS.index(k) if k in ATTRS else -1
        out[str(a)] = sorted(int(v[1:]) if re.fullmatch(r"v\d+", v) else -1 for v in vals)
    return out


def run_impl(case):
    w = World(case["cfg"], case["now0"])
    return {"steps": [w.step(st) for st in case["steps"]]}


# ------------------------------------------------------------------ generators

_BIND_CHOICES = [("redirect", "ok")] * 7 + [("post", "ok")] * 6 + [("soap", "ok")] * 3 + [("soap", "http500")] + \
    [("soap", "denied")] + [("none", "ok")] * 2


def _idp_cfg(b, soap="ok"):
    d = {"b": b}
    if b == "soap":
        d["soap"] = soap
    return d


FORMS = ["pretty", "issuerpad", "prefix"]


def _form(rng):
    return None if rng.random() < 0.65 else rng.choice(FORMS)


def gen_history(rng, max_len=40, nosoap=False):
    n_idp = rng.choice([1, 2, 2, 3, 3])
    n_subj = rng.choice([1, 2, 2, 3])
    binds = []
    for _ in range(n_idp):
        b, m = rng.choice(_BIND_CHOICES)
        if nosoap and b == "soap":
            b = rng.choice(["redirect", "post"])
        binds.append(_idp_cfg(b, m))
    subjects = rng.sample(range(len(NAMEID_POOL)), n_subj)
    skew = rng.choice([None, None, None, 0, 60, 60, 300])
    tz = rng.choice([None, None, None] + TZS)
    r = rng.random()
    if r < 0.6:
        stores, clients = "default", 1
    else:
        stores = rng.choice(["shared-dict", "shared-dict", "shared-dictsub", "shared-prefilled"])
        clients = rng.choice([1, 2, 2, 3, 3, "perstep"])
        if clients == "perstep":
            max_len = min(max_len, 12)  # a client object costs ~35 ms
    now = S.NOW0
    marks = []  # instants worth hitting exactly: expiry times and logout deadlines
    logged = set()
    pend_est = 0  # rough guess of how many requests are pending (only steers the choice of operations)
    steps = []
    n = rng.randint(4, max_len)
    weights = [("login", 22), ("badlogin", 3), ("identity", 10), ("info", 8), ("stale", 5), ("advance", 10),
               ("logout", 12), ("resp", 22), ("slo", 7), ("reset", 1)]
    ops = [o for o, w in weights for _ in range(w)]

    def subj():
        if logged and rng.random() < 0.75:
            return rng.choice(sorted(logged))
        return rng.randrange(n_subj)

    while len(steps) < n:
        op = rng.choice(ops)
        if op == "resp" and pend_est <= 0 and rng.random() < 0.8:
            continue
        if op in ("login", "badlogin"):
            s, i = rng.randrange(n_subj), rng.randrange(n_idp)
            sess = None if rng.random() < 0.45 else now + rng.choice([0, 1, 5, 30, 100, 600])
            cond = None if rng.random() < 0.12 else now + rng.choice([0, 1, 10, 50, 300, 900])
            if rng.random() < 0.08:
                ava = []
            else:
                ava = [[a, sorted(rng.sample(range(10), rng.randint(1, 3)))]
                       for a in sorted(rng.sample(range(len(ATTRS)), rng.randint(1, 3)))]
            kind = "ok" if op == "login" else rng.choice(["audience", "expired", "destination"])
            steps.append({"op": "login", "s": s, "i": i, "cond": cond, "sess": sess, "ava": ava,
                          "sidx": None if rng.random() < 0.15 else rng.randrange(100), "kind": kind,
                          "form": _form(rng)})
            if kind == "ok":
                logged.add(s)
                for x in (sess, cond):
                    if x is not None:
                        marks.append(x)
                        if skew:  # the instants around expiry + skew must not be special
                            marks.extend([x + skew - 1, x + skew])
        elif op == "identity":
            ents = [] if rng.random() < 0.5 else sorted(rng.sample(range(n_idp), rng.randint(1, n_idp)))
            steps.append({"op": "identity", "s": subj(), "ents": ents, "check": rng.random() < 0.8})
        elif op == "info":
            steps.append({"op": "info", "s": subj(), "i": rng.randrange(n_idp), "check": rng.random() < 0.75})
        elif op == "stale":
            srcs = [] if rng.random() < 0.5 else sorted(rng.sample(range(n_idp), rng.randint(1, n_idp)))
            steps.append({"op": "stale", "s": subj(), "srcs": srcs})
        elif op == "advance":
            future = [m for m in marks if m >= now]
            if future and rng.random() < 0.5:
                dt = rng.choice(future) - now + rng.choice([0, 1])
            elif rng.random() < 0.12:  # hours to days: nothing may depend on how long the process has been up
                dt = rng.choice([3600, 7200 + 1, 86400, 3 * 86400 + 5])
            else:
                dt = rng.choice([1, 5, 10, 30, 60, 100, 301, 900])
            if dt > 0:
                now += dt
                steps.append({"op": "advance", "dt": dt})
                if logged and rng.random() < 0.6:  # look at once
                    s = rng.choice(sorted(logged))
                    steps.append(rng.choice([{"op": "info", "s": s, "i": rng.randrange(n_idp), "check": True},
                                             {"op": "identity", "s": s, "ents": [], "check": True},
                                             {"op": "stale", "s": s, "srcs": []}]))
        elif op == "logout":
            exp = None if rng.random() < 0.2 else now + rng.choice([-50, -1, 0, 1, 60, 300])
            if exp is not None:
                marks.append(exp)
            s = subj()
            if s in logged and (exp is None or exp >= now):
                pend_est += sum(1 for d in binds if d["b"] in ("redirect", "post"))
            steps.append({"op": "logout", "s": s, "expire": exp})
            if exp is None and rng.random() < 0.6:
                steps[-1]["args"] = "omit"
        elif op == "resp":
            r = rng.random()
            sel = "pending" if r < 0.72 else "dup" if r < 0.86 else "unknown"
            if sel == "pending":
                pend_est -= 1
            steps.append({"op": "resp", "sel": sel, "n": rng.randrange(6),
                          "issuer": -1 if rng.random() < 0.8 else rng.randrange(n_idp), "form": _form(rng)})
        elif op == "slo":
            cur = subj()
            named = cur if rng.random() < 0.5 else rng.randrange(n_subj)
            steps.append({"op": "slo", "named": named, "current": cur, "b": rng.choice(["redirect", "post", "soap"]),
                          "i": rng.randrange(n_idp), "form": _form(rng)})
            if rng.random() < 0.4:
                steps[-1]["args"] = "omit"
        else:
            steps.append({"op": "reset", "s": rng.randrange(n_subj), "i": rng.randrange(n_idp)})
    steps = steps[:max_len]
    cfg = {"idps": binds, "subjects": subjects}
    if skew is not None:
        cfg["skew"] = skew
    if tz is not None:
        cfg["tz"] = tz
    if stores != "default":
        cfg["stores"], cfg["clients"] = stores, clients
        for st in steps:
            st["c"] = rng.randrange(3)
    return {"now0": S.NOW0, "cfg": cfg, "steps": steps}


def directed_cases():
    """Small-scope part: every pair of single-logout set-ups for two identity providers, the standard
    logout flow with the answers delivered in both orders, a duplicate, before and after the deadline."""
    N = S.NOW0
    kinds = [("redirect", "ok"), ("post", "ok"), ("soap", "ok"), ("soap", "http500"), ("soap", "denied"), ("none", "ok")]

    def login(s, i, sidx):
        return {"op": "login", "s": s, "i": i, "cond": N + 900, "sess": None, "ava": [[0, [s]], [1, [i, 7]]],
                "sidx": sidx, "kind": "ok"}

    for k0 in kinds:
        for k1 in kinds:
            cfg = {"idps": [_idp_cfg(*k0), _idp_cfg(*k1)], "subjects": [0, 1]}
            for order in (0, 1):
                for late in (False, True):
                    steps = [login(0, 0, 1), login(0, 1, 2), login(1, 0, 3),
                             {"op": "logout", "s": 0, "expire": N + 100},
                             {"op": "identity", "s": 0, "ents": [], "check": True}]
                    if late:
                        steps.append({"op": "advance", "dt": 101})
                    steps += [{"op": "resp", "sel": "pending", "n": order, "issuer": -1},
                              {"op": "resp", "sel": "dup", "n": 0, "issuer": -1},
                              {"op": "identity", "s": 0, "ents": [], "check": True},
                              {"op": "resp", "sel": "pending", "n": 0, "issuer": -1},
                              {"op": "identity", "s": 0, "ents": [], "check": True},
                              {"op": "identity", "s": 1, "ents": [], "check": True},
                              login(0, 1, 4),
                              {"op": "resp", "sel": "pending", "n": 0, "issuer": -1},
                              {"op": "info", "s": 0, "i": 1, "check": True}]
                    yield {"now0": N, "cfg": cfg, "steps": steps}

    flow = [login(0, 0, 1), login(0, 1, 2), login(1, 0, 3), {"op": "logout", "s": 0, "expire": N + 100},
            {"op": "resp", "sel": "pending", "n": 0, "issuer": -1}, {"op": "identity", "s": 0, "ents": [], "check": True},
            {"op": "resp", "sel": "pending", "n": 0, "issuer": -1}, {"op": "identity", "s": 0, "ents": [], "check": True},
            {"op": "slo", "named": 1, "current": 1, "b": "redirect", "i": 0},
            {"op": "identity", "s": 1, "ents": [], "check": True}]
    two = {"idps": [_idp_cfg("redirect"), _idp_cfg("post")], "subjects": [0, 1]}
    # (a) every received message in every form
    for form in FORMS:
        yield {"now0": N, "cfg": two, "steps": [dict(st, form=form) if st["op"] in ("login", "resp", "slo") else st
                                                  for st in flow]}
    # (b) stored expiry vs. clock skew: lifetime from Conditions / SessionNotOnOrAfter / both, reads at
    #     expiry + {-1, 0, 1, skew-1, skew, skew+1}
    for skew in (0, 60, 300):
        for cond, sess in ((N + 100, None), (N + 900, N + 100), (None, N + 100)):
            steps = [{"op": "login", "s": 0, "i": 0, "cond": cond, "sess": sess, "ava": [[0, [1]]], "sidx": 1, "kind": "ok"}]
            t = N
            for off in sorted({-1, 0, 1, skew - 1, skew, skew + 1}):
                if N + 100 + off > t:
                    steps.append({"op": "advance", "dt": N + 100 + off - t})
                    t = N + 100 + off
                    steps += [{"op": "info", "s": 0, "i": 0, "check": True},
                              {"op": "identity", "s": 0, "ents": [], "check": True}, {"op": "stale", "s": 0, "srcs": []}]
            yield {"now0": N, "cfg": {"idps": [_idp_cfg("redirect")], "subjects": [0], "skew": skew}, "steps": steps}
    # (c) several client objects over caller-supplied stores: every step on another object
    for stores in ("shared-dict", "shared-dictsub", "shared-prefilled"):
        for clients in (2, 3, "perstep"):
            yield {"now0": N, "cfg": dict(two, stores=stores, clients=clients),
                   "steps": [dict(st, c=k % 3) for k, st in enumerate(flow)]}


def directed_cases_env():
    """Round-4 dimensions: omitted optional arguments at several distances from import/login, padded NameIDs
    as subjects next to their unpadded look-alikes, process time zones."""
    N = S.NOW0
    two = [_idp_cfg("redirect"), _idp_cfg("post")]

    def login(s, i, sidx, t):
        return {"op": "login", "s": s, "i": i, "cond": t + 900, "sess": None, "ava": [[0, [s]], [1, [i, 7]]],
                "sidx": sidx, "kind": "ok"}

    for dist in (0, 200, 301, 3600, 86400 + 400, 5 * 86400):
        for tz in [None] + TZS:
            t = N + dist
            steps = ([{"op": "advance", "dt": dist}] if dist else []) + [
                login(0, 0, 1, t), login(0, 1, 2, t), login(1, 0, 3, t),
                {"op": "logout", "s": 0, "expire": None, "args": "omit"},
                {"op": "identity", "s": 0, "ents": [], "check": True},
                {"op": "resp", "sel": "pending", "n": 0, "issuer": -1},
                {"op": "resp", "sel": "pending", "n": 0, "issuer": -1},
                {"op": "identity", "s": 0, "ents": [], "check": True},
                {"op": "slo", "named": 1, "current": 1, "b": "redirect", "i": 0, "args": "omit"},
                {"op": "advance", "dt": 899}, {"op": "info", "s": 1, "i": 0, "check": True}]
            cfg = {"idps": two, "subjects": [0, 1]}
            if tz:
                cfg["tz"] = tz
            yield {"now0": N, "cfg": cfg, "steps": steps}
    # expiry boundary in every time zone
    for tz in TZS:
        steps = [{"op": "login", "s": 0, "i": 0, "cond": N + 100, "sess": None, "ava": [[0, [1]]], "sidx": 1, "kind": "ok"}]
        for dt in (99, 1, 1, 3599, 3600, 7 * 3600):
            steps += [{"op": "advance", "dt": dt}, {"op": "info", "s": 0, "i": 0, "check": True},
                      {"op": "identity", "s": 0, "ents": [], "check": True}, {"op": "stale", "s": 0, "srcs": []}]
        yield {"now0": N, "cfg": {"idps": [_idp_cfg("redirect")], "subjects": [0], "tz": tz}, "steps": steps}
    # padded subjects next to their look-alikes
    for subjects in ([6, 0], [0, 7], [8, 9], [10, 0], [7, 6]):
        steps = [login(0, 0, 1, N), login(0, 1, 2, N), login(1, 0, 3, N), login(1, 1, 4, N),
                 {"op": "identity", "s": 0, "ents": [], "check": True}, {"op": "info", "s": 1, "i": 1, "check": True},
                 {"op": "logout", "s": 0, "expire": N + 100},
                 {"op": "resp", "sel": "pending", "n": 0, "issuer": -1}, {"op": "resp", "sel": "pending", "n": 0, "issuer": -1},
                 {"op": "identity", "s": 0, "ents": [], "check": True}, {"op": "identity", "s": 1, "ents": [], "check": True},
                 {"op": "slo", "named": 0, "current": 1, "b": "post", "i": 0},
                 {"op": "slo", "named": 1, "current": 1, "b": "redirect", "i": 1},
                 {"op": "identity", "s": 1, "ents": [], "check": True}]
        yield {"now0": N, "cfg": {"idps": two, "subjects": subjects}, "steps": steps}


def gen_cases(rng, tier):
    for c in directed_cases_env():
        yield c
    for c in directed_cases():
        yield c
    n = 4000 if tier == "quick" else 30000
    for k in range(n):
        yield gen_history(rng, 40, nosoap=(k % 3 == 0))


# ------------------------------------------------------------------ verdict helpers

SOAP_KEY = "C19/soap-answer-not-counted"


def compare(case, impl, model):
    return impl == model


def finding_key(case, impl, lean):
    """The one known root cause: `do_logout` does not count an answer received over SOAP (it neither ends
    the session when every involved identity provider has answered nor takes the provider off the shared
    list, so the provider is asked again and its stale membership steers the re-entry).  The key is given
    only when (a) the first violated clause carries the SOAP mark (`...-after-soap-answer`: it was violated
    while processing a logout operation in which a SOAP answer had been counted), (b) every clause holds on this trace once SOAP answers
    are not counted — the two readings of the specification differ in nothing else —, (c) model and
    implementation agree on the whole trace, and (d) some provider of the case answers over SOAP."""
    why = lean.get("why") or ""
    first = why.split(";")[0]
    if (first.endswith("-after-soap-answer") and lean.get("spec_impl_code") is True
            and impl == lean.get("model")
            and any(d["b"] == "soap" and d.get("soap", "ok") == "ok" for d in case["cfg"]["idps"])):
        return SOAP_KEY
    # anything else is NOT a known finding; the (unlisted) key only groups the replays by violated clause
    return "C19/unlisted:" + first.split(":")[-1] if first else None


def nontrivial(case, impl, lean):
    return lean.get("path") not in (None, "quiet")


def shrink(case):
    steps = case["steps"]
    for k in range(1, len(steps)):
        yield dict(case, steps=steps[:k])
    for k in range(len(steps)):
        yield dict(case, steps=steps[:k] + steps[k + 1:])
    idps = case["cfg"]["idps"]
    for j, d in enumerate(idps):
        if d["b"] != "redirect":
            yield dict(case, cfg=dict(case["cfg"], idps=idps[:j] + [{"b": "redirect"}] + idps[j + 1:]))


def neighbours(case, rng):
    """Around a disagreement: every prefix, and the history with one step left out."""
    for c in shrink(case):
        yield c


def distribution(recs):
    paths = {}
    lens = {}
    cfgs = {}
    for r in recs:
        for p in r["lean"].get("paths", []):
            paths[p] = paths.get(p, 0) + 1
        b = "%02d-%02d" % (len(r["case"]["steps"]) // 10 * 10, len(r["case"]["steps"]) // 10 * 10 + 9)
        lens[b] = lens.get(b, 0) + 1
        k = ",".join(d["b"] + (":" + d["soap"] if d["b"] == "soap" else "") for d in r["case"]["cfg"]["idps"])
        cfgs[k] = cfgs.get(k, 0) + 1
    return {"step_paths": dict(sorted(paths.items())), "steps_total": sum(paths.values()),
            "history_length": dict(sorted(lens.items())), "idp_setups": dict(sorted(cfgs.items()))}
