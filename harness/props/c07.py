"""C07 — receivers enforce request signatures and addressing: correspondence harness.

Real code exercised: Server.parse_authn_request / parse_attribute_query / parse_authn_query /
parse_authz_decision_query / parse_assertion_id_request / parse_name_id_mapping_request,
Entity.parse_logout_request / parse_manage_name_id_request (on a Server and on a Saml2Client), i.e.
Entity._parse_request -> Request._loads -> SecurityContext.correctly_signed_message / _check_signature,
Request._do_redirect_sig_check -> verify_redirect_signature, Request._verify, Config.endpoint.

The requests are written by an independent small XML writer (not by saml2), signed enveloped with the
stand-in's own signing routine and detached with `cryptography` directly; a second, smaller stream lets a
real Saml2Client build, sign and bind the request.  The model's input is the harness's own description of
what it built (which key signed what, what was altered afterwards), never something read back from saml2.
"""
import base64
import hashlib
import contextlib
import itertools
import json
import os
import shutil
import tempfile
import time
import urllib.parse
import zlib
from xml.etree import ElementTree as ET

import scenario as S
from standin import xmlsec_standin as X
from translate import request_table

PROP = "C07"
LEAN_PROPS = "PysamlModel.Props.C07"
MODEL_TARGETS = ["PysamlModel.Model.Request", "PysamlModel.Spec.C07", "PysamlModel.Gen.RequestTable"]
AUDIT = "PysamlModel/Audit/C07.lean"
DRIVER = "Drivers/C07.lean"
GEN = [request_table.generate]
PARALLEL = True
EXHAUSTIVE = True  # the quantifier's abstract table (TABLE below) is enumerated completely in both tiers
CORRESPONDENCE = ("Drivers/C07.lean (Request.parseRequest) vs Entity._parse_request reached through the eight "
                  "parse_* entry points of Server / Saml2Client")
RULE = ("complete product: request kind 8 x binding 3 x requirement {unset, want, cert-only, both} x enveloped "
        "{absent, valid, corrupted, untrusted} x detached {absent, valid, altered message, altered RelayState, altered "
        "SigAlg, garbage, other key} (where the entry point takes the query parameters) x Destination {absent, own, "
        "foreign, look-alike} x version {2.0, 1.1} x IssueInstant {far past, 1 s outside, now, 1 s outside, far "
        "future}; plus directed variants (boundary seconds x skew, issuer/metadata shapes, endpoint-configuration "
        "shapes, signature sub-variants, certificate validation, SP as receiver, requests built by a real Saml2Client) "
        "and seeded random combinations. non-trivial = the case got past unravel/XML parsing (every case does unless "
        "the kind has no SOAP parser); distinct = distinct case JSON")
TRUSTED = [
    "xmlsec1 stand-in (harness/standin) for enveloped signatures; RSA PKCS#1 v1.5 via `cryptography` for detached ones",
    "the harness's independent request writer and its bookkeeping of which key signed which octets",
    "ideal-signature abstraction of the model (intact + key identity decide verification)",
    "XML parsing, schema validation and the xmldsig profile validators of _check_signature are exercised, not modelled (C02)",
    "metadata XML -> MetaData.certs is exercised, not modelled (C03); the model's certificate list is derived by the harness "
    "from its own metadata specification",
    "translator harness/translate/request_table.py (introspection of the imported saml2)",
]
ASSUMPTIONS = [
    "only_use_keys_in_metadata left at its default True (the embedded-certificate fallback is C03's subject)",
    "bindings POST, Redirect, SOAP (the quantifier's); messages are schema-valid apart from the varied fields",
    "accepted_time_diff is unset or a non-negative integer",
    "an entity that opts into certificate-only validation counts as requiring signed requests (the code forces must=True); "
    "in that mode the specification promises presence of the enveloped signature, not its validity",
]

SAMLP = "urn:oasis:names:tc:SAML:2.0:protocol"
SAML = "urn:oasis:names:tc:SAML:2.0:assertion"
DS = "http://www.w3.org/2000/09/xmldsig#"
BIND = {"post": S.BINDING_POST, "redirect": S.BINDING_REDIRECT, "soap": S.BINDING_SOAP}
RSA_SHA1 = "http://www.w3.org/2000/09/xmldsig#rsa-sha1"
RSA_SHA256 = "http://www.w3.org/2001/04/xmldsig-more#rsa-sha256"
RSA_SHA512 = "http://www.w3.org/2001/04/xmldsig-more#rsa-sha512"
CONSENT0 = "urn:oasis:names:tc:SAML:2.0:consent:unspecified"
CONSENT1 = "urn:oasis:names:tc:SAML:2.0:consent:obtained"
UNKNOWN_ID = "https://unknown.verif.example/sp"

# service -> (element, extra attributes, body, parse method, takes the Redirect query parameters)
KINDS = {
    "single_sign_on_service": (
        "AuthnRequest", ' AssertionConsumerServiceURL="%s" ProtocolBinding="%s"' % (S.SP_ACS_POST, S.BINDING_POST),
        '<samlp:NameIDPolicy AllowCreate="true"/>', "parse_authn_request", True),
    "single_logout_service": (
        "LogoutRequest", "",
        '<saml:NameID Format="urn:oasis:names:tc:SAML:2.0:nameid-format:transient">subject-1</saml:NameID>'
        "<samlp:SessionIndex>sess-1</samlp:SessionIndex>", "parse_logout_request", True),
    "attribute_service": (
        "AttributeQuery", "",
        '<saml:Subject><saml:NameID>subject-1</saml:NameID></saml:Subject><saml:Attribute Name="urn:oid:2.5.4.42"/>',
        "parse_attribute_query", False),
    "authn_query_service": (
        "AuthnQuery", ' SessionIndex="sess-1"',
        "<saml:Subject><saml:NameID>subject-1</saml:NameID></saml:Subject><samlp:RequestedAuthnContext>"
        "<saml:AuthnContextClassRef>urn:oasis:names:tc:SAML:2.0:ac:classes:Password</saml:AuthnContextClassRef>"
        "</samlp:RequestedAuthnContext>", "parse_authn_query", False),
    "authz_service": (
        "AuthzDecisionQuery", ' Resource="https://sp.verif.example/res"',
        "<saml:Subject><saml:NameID>subject-1</saml:NameID></saml:Subject>"
        '<saml:Action Namespace="urn:oasis:names:tc:SAML:1.0:action:rwedc">Read</saml:Action>',
        "parse_authz_decision_query", False),
    "assertion_id_request_service": (
        "AssertionIDRequest", "", "<saml:AssertionIDRef>id-assertion-1</saml:AssertionIDRef>",
        "parse_assertion_id_request", False),
    "manage_name_id_service": (
        "ManageNameIDRequest", "", "<saml:NameID>subject-1</saml:NameID><samlp:NewID>new-subject</samlp:NewID>",
        "parse_manage_name_id_request", False),
    "name_id_mapping_service": (
        "NameIDMappingRequest", "",
        "<saml:NameID>subject-1</saml:NameID>"
        '<samlp:NameIDPolicy Format="urn:oasis:names:tc:SAML:2.0:nameid-format:persistent"/>',
        "parse_name_id_mapping_request", False),
}
SERVICES = sorted(KINDS)
CONTEXTS = ["idp", "aa", "aq", "pdp"]

_state = {}


TZS = ("PST8", "AEST-10")  # POSIX TZ strings: UTC-8 and UTC+10, no daylight saving


@contextlib.contextmanager
def _tz(name):
    """Run the receiver in another time zone (process-wide: TZ + tzset), restored afterwards."""
    if not name:
        yield
        return
    old = os.environ.get("TZ")
    os.environ["TZ"] = name
    time.tzset()
    try:
        yield
    finally:
        if old is None:
            os.environ.pop("TZ", None)
        else:
            os.environ["TZ"] = old
        time.tzset()


def setup():
    S.install()
    # the virtual clock must keep holding when the process zone changes
    from saml2 import time_util

    for tz in (None,) + TZS:
        with _tz(tz), S.clock(S.NOW0):
            if tz and time.localtime(0).tm_hour == time.gmtime(0).tm_hour:
                raise RuntimeError("tzset(%s) had no effect" % tz)
            got = (int(time.time()), time_util.utc_now(), time_util.instant(),
                   time_util.time_in_a_while(days=1).timetuple()[:6])
            want = (S.NOW0, S.NOW0, S.fmt_time(S.NOW0), time.gmtime(S.NOW0 + DAY_S)[:6])
            if got != want:
                raise RuntimeError("virtual clock does not hold under TZ=%s: %r != %r" % (tz, got, want))


DAY_S = 86400


# ------------------------------------------------------------------ keys, certificates, metadata


# Every committed certificate is self-signed, so none of them passes CertHandler.verify_cert once
# `validate_certificate` is on (the receiver's own certificate is not their issuer).  NOTE: in the pinned
# tree verify_cert fails for *every* certificate anyway (OpenSSLWrapper.verify calls .encode on the bytes
# read_str_from_file returns and swallows the AttributeError), so a CA-issued certificate would not
# exercise the accepting branch either; the model's `chainOk` input is therefore always false here.
# metadata variants: KeyDescriptor lists (use, certificate name) of the two requesters the IdP knows
MD_VARIANTS = {
    "plain": [("signing", "sp"), ("encryption", "sp_enc1")],
    "rotated": [("signing", "sp_enc2"), (None, "sp"), ("encryption", "sp_enc1")],
    "three": [(None, "sp_enc2"), ("encryption", "sp_enc1"), ("signing", "sp"), ("signing", "member2")],
    "enc-only": [("encryption", "sp")],
}
SP2_KEYS = [("signing", "sp2")]
IDP_KEYS = [("signing", "idp_sign"), ("signing", "idp_sign2"), ("encryption", "idp_enc")]


def md_certs(keys):
    """What MetaData.certs(issuer, "any", "signing") yields for a KeyDescriptor list, as the model sees it."""
    return [{"key": c, "chain_ok": False} for use, c in keys if use in (None, "signing")]


def issuer_keys(receiver, md_variant, issuer):
    if receiver == "sp":
        return IDP_KEYS if issuer == S.IDP_ID else None
    if issuer == S.SP_ID:
        return MD_VARIANTS[md_variant]
    if issuer == S.SP2_ID:
        return SP2_KEYS
    return None


_pkeys = {}


def _pkey(name):
    if name not in _pkeys:
        from cryptography.hazmat.primitives import serialization

        _pkeys[name] = serialization.load_pem_private_key(open(S.key_path(name), "rb").read(), None)
    return _pkeys[name]


# ------------------------------------------------------------------ independent request writer


T_ENV = "http://www.w3.org/2000/09/xmldsig#enveloped-signature"
T_EXC = "http://www.w3.org/2001/10/xml-exc-c14n#"
T_EXC_C = "http://www.w3.org/2001/10/xml-exc-c14n#WithComments"
T_INC = "http://www.w3.org/TR/2001/REC-xml-c14n-20010315"


def sig_template(ref_id, keyinfo=None, sigalg=RSA_SHA256, digalg="http://www.w3.org/2001/04/xmlenc#sha256",
                 uris=None, transforms=(T_ENV, T_EXC), c14n=T_EXC):
    ki = ""
    if keyinfo:
        ki = ("<ds:KeyInfo><ds:X509Data><ds:X509Certificate>%s</ds:X509Certificate></ds:X509Data></ds:KeyInfo>"
              % S.cert_b64(keyinfo))
    refs = "".join(
        '<ds:Reference URI="%s"><ds:Transforms>%s</ds:Transforms><ds:DigestMethod Algorithm="%s"/>'
        "<ds:DigestValue></ds:DigestValue></ds:Reference>"
        % (u, "".join('<ds:Transform Algorithm="%s"/>' % t for t in transforms), digalg)
        for u in (uris if uris is not None else ["#" + ref_id]))
    return ('<ds:Signature xmlns:ds="%s"><ds:SignedInfo><ds:CanonicalizationMethod Algorithm="%s"/>'
            '<ds:SignatureMethod Algorithm="%s"/>%s</ds:SignedInfo>'
            "<ds:SignatureValue></ds:SignatureValue>%s</ds:Signature>" % (DS, c14n, sigalg, refs, ki))


def request_xml(service, rid, issuer, instant, version="2.0", destination=None, sig=None, consent=CONSENT0):
    tag, attrs, body = KINDS[service][:3]
    a = ' ID="%s" Version="%s" IssueInstant="%s"' % (rid, S.xesc(version), S.xesc(instant))
    if destination is not None:
        a += ' Destination="%s"' % S.xesc(destination)
    a += ' Consent="%s"' % consent
    return ('<samlp:%s xmlns:samlp="%s" xmlns:saml="%s"%s%s><saml:Issuer>%s</saml:Issuer>%s%s</samlp:%s>'
            % (tag, SAMLP, SAML, a, attrs, S.xesc(issuer), sig or "", body, tag))


def sign_enveloped(xml, service, rid, key):
    """The stand-in's --sign (its own routines), with the private key cached."""
    from cryptography.hazmat.primitives.asymmetric import padding

    root = ET.fromstring(xml)
    ids = X.register_ids(root, [("ID", "%s:%s" % (SAMLP, KINDS[service][0]))])
    start, sig = X.find_sig(root, ids, {"--node-id": rid})
    si, halg, _covered = X.process_references("--sign", root, ids, sig)
    sv = sig.find("{%s}SignatureValue" % DS)
    sv.text = base64.b64encode(_pkey(key).sign(X.canon(si).encode("utf-8"), padding.PKCS1v15(), halg())).decode()
    return X.splice(xml, root, sig, si, sv)


def corrupt(xml, how):
    if how == "content":  # inside the signed element, outside the signature
        assert CONSENT0 in xml
        return xml.replace(CONSENT0, CONSENT1, 1)
    tag = {"digest": "DigestValue", "sigvalue": "SignatureValue"}[how]
    i = xml.index("<ds:%s>" % tag) + len(tag) + 5
    ch = xml[i + 3]
    return xml[:i + 3] + ("B" if ch != "B" else "C") + xml[i + 4:]


def deflate_b64(s):
    c = zlib.compressobj(9, zlib.DEFLATED, -15)
    return base64.b64encode(c.compress(s.encode("utf-8")) + c.flush()).decode()


def soap_wrap(xml):
    return ('<soapenv:Envelope xmlns:soapenv="http://schemas.xmlsoap.org/soap/envelope/"><soapenv:Body>%s'
            "</soapenv:Body></soapenv:Envelope>" % xml)


def detached_sign(key, saml_request, relay_state, sigalg):
    from cryptography.hazmat.primitives import hashes
    from cryptography.hazmat.primitives.asymmetric import padding

    # an algorithm identifier the library does not know is named in the octets and hashed with SHA-256
    h = {RSA_SHA1: hashes.SHA1, RSA_SHA256: hashes.SHA256, RSA_SHA512: hashes.SHA512}.get(sigalg, hashes.SHA256)
    parts = [("SAMLRequest", saml_request)]
    if relay_state is not None:
        parts.append(("RelayState", relay_state))
    parts.append(("SigAlg", sigalg))
    octets = "&".join(urllib.parse.urlencode({k: v}) for k, v in parts).encode("ascii")
    return base64.b64encode(_pkey(key).sign(octets, padding.PKCS1v15(), h())).decode()


# ------------------------------------------------------------------ signature-structure surgery
#
# name -> (intact, profile_ok, covers): the harness's own bookkeeping of what it built --
#   intact      xmlsec verifies the element(s) the Reference(s) name (given the right certificate)
#   profile_ok  the structure meets the SAML xmldsig profile (one Reference, URI = '#' + ID of the enclosing
#               request, c14n/transforms from the allowed set with the enveloped transform, no ds:Object)
#   covers      the signature verifies over the request element that is processed
SURGERIES = {
    "enveloped-only-transform": (True, True, True),     # a single (enveloped) transform is within the profile
    "with-comments-transform": (True, True, True),
    "wrap-object": (True, False, False),                # issuer's old signature on another request, original in ds:Object
    "wrap-object-same-id": (False, False, False),       # ... without changing the ID: duplicate ID
    "wrap-extensions": (True, False, False),            # ... original hidden in samlp:Extensions
    "hidden-ref-no-enveloped": (True, False, False),    # Reference to an element inside ds:Object, no enveloped transform
    "two-references": (True, False, True),
    "two-references-second-hidden": (True, False, True),
    "no-enveloped-transform": (False, False, False),    # cannot verify: the digest would have to cover itself
    "extra-transform": (True, False, True),             # three transforms
    "foreign-transform": (True, False, True),           # enveloped + inclusive c14n
    "foreign-c14n-method": (True, False, True),
    "object-present": (True, False, True),              # ds:Object added to an otherwise good signature
    "uri-empty": (True, False, True),                   # URI="" (whole document)
    "id-changed": (False, False, False),                # ID rewritten after signing, Reference dangling
    "id-changed-uri-updated": (False, True, False),     # ... and the URI with it: SignedInfo no longer verifies
    "moved-to-child": None,                             # Signature inside Extensions: not the request's signature at all
}


def env_surgery(name, key="sp"):
    e = {"key": key, "corrupt": None, "keyinfo": key, "surgery": name}
    if SURGERIES[name] is None:
        e["as_absent"] = True
    else:
        e["intact"], e["profile_ok"], e["covers"] = SURGERIES[name]
    return e


def _cut_signature(xml):
    a = xml.index("<ds:Signature")
    b = xml.index("</ds:Signature>") + len("</ds:Signature>")
    return xml[:a], xml[a:b], xml[b:]


def build_surgery(case, rid):
    """The request with the structure of its enveloped signature operated on (env["surgery"])."""
    env = case["env"]
    name, key, svc = env["surgery"], env["key"], case["service"]
    ki = env.get("keyinfo")
    args = (case["issuer"], _instant_str(case), case["version"], case["dest"])

    def signed(rid_, sig_, consent=CONSENT0):
        return sign_enveloped(request_xml(svc, rid_, *args, sig=sig_, consent=consent), svc, rid_, key)

    if name in ("wrap-object", "wrap-object-same-id", "wrap-extensions"):
        rid_o = rid if name == "wrap-object-same-id" else rid + "-orig"
        pre, sig, post = _cut_signature(signed(rid_o, sig_template(rid_o, ki)))
        hidden = pre + post                                    # the original request, what the issuer's digest covers
        if name == "wrap-extensions":
            carried = sig + "<samlp:Extensions>%s</samlp:Extensions>" % hidden
        else:
            carried = sig[:-len("</ds:Signature>")] + "<ds:Object>%s</ds:Object></ds:Signature>" % hidden
        # the request that is processed: another ID, other content (Consent), the old signature
        return request_xml(svc, rid, *args, sig=carried, consent=CONSENT1)
    if name == "hidden-ref-no-enveloped":
        hidden = request_xml(svc, rid + "-hid", *args)
        tmpl = sig_template(rid, ki, uris=["#" + rid + "-hid"], transforms=(T_EXC,))
        tmpl = tmpl[:-len("</ds:Signature>")] + "<ds:Object>%s</ds:Object></ds:Signature>" % hidden
        return signed(rid, tmpl)
    if name == "two-references-second-hidden":
        hidden = request_xml(svc, rid + "-hid", *args)
        tmpl = sig_template(rid, ki, uris=["#" + rid, "#" + rid + "-hid"])
        tmpl = tmpl[:-len("</ds:Signature>")] + "<ds:Object>%s</ds:Object></ds:Signature>" % hidden
        return signed(rid, tmpl)
    tmpl_kw = {
        "enveloped-only-transform": {"transforms": (T_ENV,)},
        "with-comments-transform": {"transforms": (T_ENV, T_EXC_C), "c14n": T_EXC_C},
        "two-references": {"uris": ["#" + rid, "#" + rid]},
        "no-enveloped-transform": {"transforms": (T_EXC,)},
        "extra-transform": {"transforms": (T_ENV, T_EXC, T_INC)},
        "foreign-transform": {"transforms": (T_ENV, T_INC)},
        "foreign-c14n-method": {"c14n": T_INC},
        "uri-empty": {"uris": [""]},
    }.get(name, {})
    xml = signed(rid, sig_template(rid, ki, **tmpl_kw))
    if name == "object-present":
        pre, sig, post = _cut_signature(xml)
        xml = pre + sig[:-len("</ds:Signature>")] + "<ds:Object>note</ds:Object></ds:Signature>" + post
    elif name == "moved-to-child":
        pre, sig, post = _cut_signature(xml)
        xml = pre + "<samlp:Extensions>%s</samlp:Extensions>" % sig + post
    elif name in ("id-changed", "id-changed-uri-updated"):
        assert xml.count(' ID="%s"' % rid) == 1
        xml = xml.replace(' ID="%s"' % rid, ' ID="%s-new"' % rid, 1)
        if name == "id-changed-uri-updated":
            xml = xml.replace('URI="#%s"' % rid, 'URI="#%s-new"' % rid, 1)
    return xml


# ------------------------------------------------------------------ endpoint configurations

U = "https://idp.verif.example/"
A = "urn:oasis:names:tc:SAML:2.0:bindings:HTTP-Artifact"


def _std_eps():
    P, R, SO = S.BINDING_POST, S.BINDING_REDIRECT, S.BINDING_SOAP
    return {
        "idp": {
            "single_sign_on_service": [[S.IDP_SSO_REDIRECT, R], [S.IDP_SSO_POST, P]],
            "single_logout_service": [[S.IDP_SLO_REDIRECT, R], [S.IDP_SLO_POST, P], [S.IDP_SLO_SOAP, SO]],
            "manage_name_id_service": [[U + "mni/soap", SO], [U + "mni/post", P], [U + "mni/redirect", R]],
            "name_id_mapping_service": [[U + "nim/soap", SO], [U + "nim/post", P], [U + "nim/redirect", R]],
            "assertion_id_request_service": [[U + "air/soap", SO], [U + "air/post", P], [U + "air/redirect", R]],
        },
        "aa": {"attribute_service": [[U + "aa/soap", SO], [U + "aa/post", P], [U + "aa/redirect", R]]},
        "aq": {"authn_query_service": [[U + "aq/soap", SO], [U + "aq/post", P], [U + "aq/redirect", R]]},
        "pdp": {"authz_service": [[U + "pdp/soap", SO], [U + "pdp/post", P], [U + "pdp/redirect", R]]},
    }


def std_eps(service):
    e = _std_eps()
    return {ctx: e[ctx].get(service, []) for ctx in CONTEXTS}


def quirk_eps(service, which):
    """endpoint-configuration shapes that exercise Config.endpoint / the aa-aq-pdp fall-back"""
    P, R, SO = S.BINDING_POST, S.BINDING_REDIRECT, S.BINDING_SOAP
    s = service.replace("_service", "")
    if which == "none":
        return {c: [] for c in CONTEXTS}
    if which == "bare-only":  # bare strings answer for every binding
        return {"idp": [[U + s + "/any", None], [U + s + "/any2", None]], "aa": [], "aq": [], "pdp": []}
    if which == "bare-and-post":  # a pair for the binding hides the bare strings
        return {"idp": [[U + s + "/any", None], [U + s + "/post", P]], "aa": [[U + s + "/aa-redirect", R]], "aq": [], "pdp": []}
    if which == "fallback-aa":  # own context has nothing for POST/Redirect: aa answers
        return {"idp": [[U + s + "/soap", SO]], "aa": [[U + s + "/aa-post", P], [U + s + "/aa-redirect", R]],
                "aq": [[U + s + "/aq-post", P]], "pdp": []}
    if which == "fallback-pdp":
        return {"idp": [[U + s + "/art", A]], "aa": [], "aq": [[U + s + "/aq-art", A]],
                "pdp": [[U + s + "/pdp-post", P], [U + s + "/pdp-soap", SO], [U + s + "/pdp-any", None]]}
    if which == "foreign-only":  # endpoints exist, none for the three bindings
        return {"idp": [[U + s + "/art", A]], "aa": [[U + s + "/aa-art", A]], "aq": [], "pdp": []}
    if which == "dup":
        return {"idp": [[U + s + "/x", P], [U + s + "/x", P], [U + s + "/y", P], [U + s + "/x", R], [U + s + "/x", SO]],
                "aa": [], "aq": [], "pdp": []}
    raise ValueError(which)


QUIRKS = ["none", "bare-only", "bare-and-post", "fallback-aa", "fallback-pdp", "foreign-only", "dup"]


def random_eps(rng, service):
    s = service.replace("_service", "")
    out = {}
    for ctx in CONTEXTS:
        l = []
        for i in range(rng.choice([0, 0, 1, 1, 2, 3])):
            b = rng.choice([S.BINDING_POST, S.BINDING_REDIRECT, S.BINDING_SOAP, A, None])
            l.append([U + "%s/%s/%d" % (s, ctx, rng.randrange(3)), b])
        out[ctx] = l
    return out


def sp_eps():
    return {"sp": [[S.SP_SLO_REDIRECT, S.BINDING_REDIRECT], [S.SP_SLO_POST, S.BINDING_POST], [S.SP_SLO_SOAP, S.BINDING_SOAP]]}


def model_addrs(eps, receiver, binding):
    """harness-side reading of the configuration, only used to pick own/foreign destinations"""
    b = BIND[binding]
    ctxs = ["sp"] if receiver == "sp" else CONTEXTS
    for ctx in ctxs:
        spec = [u for u, bb in eps.get(ctx, []) if bb == b]
        got = spec or [u for u, bb in eps.get(ctx, []) if bb is None]
        if got:
            return got
        if receiver == "sp":
            break
    return []


def lookalike(rng_or_n, url):
    n = rng_or_n if isinstance(rng_or_n, int) else rng_or_n.randrange(8)
    n %= 8
    if n == 0:
        return url + "/"
    if n == 1:
        return url[:-1]
    if n == 2:
        return url.upper()
    if n == 3:
        return url.replace("https://", "http://")
    if n == 4:
        return url + "?x=1"
    if n == 5:
        return url.replace(".example", ".example.evil.test")
    if n == 6:
        return " " + url
    return url + "#frag"


# ------------------------------------------------------------------ case construction

ENV_STATES = {
    "absent": None,
    "valid": {"key": "sp", "corrupt": None, "keyinfo": "sp"},
    "corrupted": {"key": "sp", "corrupt": "content", "keyinfo": "sp"},
    "untrusted": {"key": "attacker", "corrupt": None, "keyinfo": "attacker"},
}
ENV_VARIANTS = [
    {"key": "sp", "corrupt": None, "keyinfo": None},
    {"key": "sp", "corrupt": None, "keyinfo": "attacker"},
    {"key": "sp", "corrupt": "digest", "keyinfo": "sp"},
    {"key": "sp", "corrupt": "sigvalue", "keyinfo": None},
    {"key": "sp", "corrupt": None, "keyinfo": "sp", "sigalg": RSA_SHA1, "digalg": "http://www.w3.org/2000/09/xmldsig#sha1"},
    {"key": "attacker", "corrupt": None, "keyinfo": "sp"},       # lies about the key
    {"key": "attacker", "corrupt": None, "keyinfo": None},
    {"key": "attacker", "corrupt": "content", "keyinfo": "attacker"},
    {"key": "sp2", "corrupt": None, "keyinfo": "sp2"},           # another member of the federation
    {"key": "sp_enc1", "corrupt": None, "keyinfo": "sp_enc1"},   # the issuer's encryption-only key
    {"key": "sp_enc2", "corrupt": None, "keyinfo": None},        # second signing key in the rotated/ca variants
    {"key": "idp_sign", "corrupt": None, "keyinfo": "idp_sign"},  # the receiver's own key
]
DET_STATES = ["absent", "valid", "altered-message", "altered-relay", "altered-sigalg", "garbage", "other-key"]


def det_fields(state, relay="rs-1", key="sp", alg=RSA_SHA256):
    """-> (relay received, sigalg received, det) for one of the quantifier's detached states"""
    good = {"key": key, "msg": "M", "relay": relay, "alg": alg}
    if state == "absent":
        return relay, None, None
    if state == "valid":
        return relay, alg, good
    if state == "altered-message":
        return relay, alg, dict(good, msg="M2")
    if state == "altered-relay":
        return relay, alg, dict(good, relay="rs-2" if relay != "rs-2" else "rs-3")
    if state == "altered-sigalg":
        return relay, alg, dict(good, alg=RSA_SHA1 if alg != RSA_SHA1 else RSA_SHA256)
    if state == "garbage":
        return relay, alg, {"garbage": "b64"}
    if state == "other-key":
        return relay, alg, dict(good, key="attacker")
    raise ValueError(state)


DET_VARIANTS = [
    # (relay received, sigalg received, det)
    (None, RSA_SHA256, {"key": "sp", "msg": "M", "relay": None, "alg": RSA_SHA256}),       # no RelayState at all
    ("", RSA_SHA256, {"key": "sp", "msg": "M", "relay": "", "alg": RSA_SHA256}),           # empty RelayState, signed as such
    ("rs-1", RSA_SHA1, {"key": "sp", "msg": "M", "relay": "rs-1", "alg": RSA_SHA1}),
    ("rs-1", RSA_SHA512, {"key": "sp", "msg": "M", "relay": "rs-1", "alg": RSA_SHA512}),
    (None, RSA_SHA256, {"key": "sp", "msg": "M", "relay": "rs-1", "alg": RSA_SHA256}),     # RelayState dropped in transit
    ("rs-1", RSA_SHA256, {"key": "sp", "msg": "M", "relay": None, "alg": RSA_SHA256}),     # RelayState added in transit
    ("", RSA_SHA256, {"key": "sp", "msg": "M", "relay": None, "alg": RSA_SHA256}),         # "" vs absent
    ("rs-1", None, {"key": "sp", "msg": "M", "relay": "rs-1", "alg": RSA_SHA256}),         # Signature without SigAlg
    ("rs-1", RSA_SHA256, None),                                                            # SigAlg without Signature
    ("rs-1", "urn:bogus:alg", {"key": "sp", "msg": "M", "relay": "rs-1", "alg": "urn:bogus:alg"}),  # unsupported SigAlg
    ("rs-1", "", {"key": "sp", "msg": "M", "relay": "rs-1", "alg": ""}),
    ("rs-1", RSA_SHA256, {"garbage": "nonb64"}),
    ("rs-1", RSA_SHA256, {"garbage": "empty"}),
    ("rs-1", RSA_SHA256, {"key": "sp2", "msg": "M", "relay": "rs-1", "alg": RSA_SHA256}),
    ("rs-1", RSA_SHA256, {"key": "sp_enc1", "msg": "M", "relay": "rs-1", "alg": RSA_SHA256}),
    ("rs-1", RSA_SHA256, {"key": "sp_enc2", "msg": "M", "relay": "rs-1", "alg": RSA_SHA256}),
    ("rs 1&x=y/+é", RSA_SHA256, {"key": "sp", "msg": "M", "relay": "rs 1&x=y/+é", "alg": RSA_SHA256}),
]

REQS = {
    "unset": {"want": None, "cert_only": None},
    "want": {"want": True, "cert_only": None},
    "cert-only": {"want": None, "cert_only": True},
    "both": {"want": True, "cert_only": True},
}
REQ_VARIANTS = [
    {"want": False, "cert_only": None}, {"want": False, "cert_only": False}, {"want": True, "cert_only": False},
    {"want": None, "cert_only": False}, {"want": False, "cert_only": True},
]
DAY = 86400


def mk(service, binding, req, env, relay=None, sigalg=None, det=None, dest=None, version="2.0", off=0, fmt="z",
       raw_instant=None, slack=None, eps=None, receiver="idp", issuer=None, md_variant="plain", validate_cert=None,
       now=S.NOW0, builder="own", loader=False, tz=None, raw_true=None):
    issuer = issuer if issuer is not None else (S.IDP_ID if receiver == "sp" else S.SP_ID)
    eps = eps if eps is not None else (sp_eps() if receiver == "sp" else std_eps(service))
    ctxs = ["sp"] if receiver == "sp" else CONTEXTS
    keys = issuer_keys(receiver, md_variant, issuer)
    cfg = {"want": req.get("want"), "cert_only": req.get("cert_only"), "validate_cert": validate_cert, "slack": slack,
           "eps": eps, "own": eps.get(ctxs[0], []), "fallback": [eps.get(c, []) for c in ctxs[1:]], "loader": bool(loader)}
    c = {"op": "parse", "receiver": receiver, "service": service, "binding": binding, "cfg": cfg,
         "issuer": issuer, "md_variant": md_variant, "md": md_certs(keys) if keys is not None else [],
         "env": env, "relay": relay, "sigalg": sigalg, "det": det, "dest": dest, "version": version,
         "now": now, "builder": builder}
    if tz:
        c["tz"] = tz  # the zone the receiving process runs in (not an input of model or specification: both are in UTC)
    if raw_instant is not None:
        c["instant"] = {"raw": raw_instant}
        c["ts"] = raw_true          # the instant the text denotes (None: no xs:dateTime at all) ...
        if raw_true is not None:
            c["ts_lex_ok"] = False  # ... written in a form the receiver does not read (numeric zone designator)
    else:
        c["instant"] = {"off": off, "fmt": fmt}
        c["ts"] = now + off
    return c


def dest_choices(service, binding, eps, receiver="idp"):
    """the quantifier's Destination column: absent, own, foreign, look-alike"""
    own = model_addrs(eps, receiver, binding)
    base = own[0] if own else U + "nowhere"
    return {"absent": None, "own": base, "foreign": "https://evil.example/endpoint", "look-alike": lookalike(0, base)}


def takes_query_params(service):
    return KINDS[service][4]


def table_cases():
    """The complete abstract table of the quantifier."""
    instants = [-10 ** 8, -(DAY + 1), 0, DAY + 1, 10 ** 8]
    for service in SERVICES:
        dets = DET_STATES if takes_query_params(service) else ["absent"]
        eps = std_eps(service)
        for dname, vname, off, ename in itertools.product(["absent", "own", "foreign", "look-alike"], ["2.0", "1.1"],
                                                           instants, list(ENV_STATES)):
            for binding in ("post", "redirect", "soap"):
                dest = dest_choices(service, binding, eps)[dname]
                for rname in REQS:
                    for dstate in dets:
                        relay, sigalg, det = det_fields(dstate) if takes_query_params(service) else (None, None, None)
                        yield mk(service, binding, REQS[rname], ENV_STATES[ename], relay, sigalg, det, dest, vname, off)


def directed_cases(rng, tier):
    thorough = tier == "thorough"
    # 1. IssueInstant: boundary seconds x skew x syntax, on an otherwise acceptable request (all kinds, POST)
    for slack in (None, 0, 60, 180):
        s = slack or 0
        offs = [-10 ** 8, -3 * DAY, -(DAY + s) - 2, -(DAY + s) - 1, -(DAY + s), -(DAY + s) + 1, -DAY - 1, -DAY, -DAY + 1, -1, 0, 1,
                DAY - 1, DAY, DAY + 1, (DAY + s) - 1, DAY + s, DAY + s + 1, DAY + s + 2, 3 * DAY, 10 ** 8]
        for off in sorted(set(offs)):
            for service in (SERVICES if thorough else ["single_sign_on_service", "single_logout_service", "attribute_service"]):
                for fmt in (("z", "frac", "noz") if (thorough or abs(abs(off) - DAY - s) <= 1) else ("z",)):
                    yield mk(service, "post", REQS["unset"], None, off=off, fmt=fmt, slack=slack)
            yield mk("single_sign_on_service", "redirect", REQS["want"], None, *det_fields("valid"), off=off, slack=slack,
                     dest=S.IDP_SSO_REDIRECT)
            yield mk("single_logout_service", "soap", REQS["want"], ENV_STATES["valid"], off=off, slack=slack, dest=S.IDP_SLO_SOAP)
    for raw in ("2001-01-01T00:00:00Z", "2026-09-21 14:13:20Z", "garbage", "2026-09-21T14:13:20+02:00", "20260921T141320Z"):
        for service in ("single_sign_on_service", "attribute_service"):
            if raw.startswith("2001-01-01T"):  # F7's replay: a well-formed instant, decades old
                yield mk(service, "post", REQS["unset"], None, off=978307200 - S.NOW0)
            elif raw.endswith("+02:00"):
                yield mk(service, "post", REQS["unset"], None, raw_instant=raw, raw_true=S.NOW0 - 7200)
            else:
                yield mk(service, "post", REQS["unset"], None, raw_instant=raw)
    # xs:dateTime with a numeric zone designator: the instant is wall clock minus offset.  The unchanged code refuses
    # the form; whoever starts reading it must honour the offset.
    H = 3600
    for slack in (None, 60):
        s = slack or 0
        for true_off in (0, DAY - H, -(DAY - H), DAY + s + 1, -(DAY + s + 1), DAY + s + 5 * H, -(DAY + s + 5 * H),
                         DAY + s + 11 * H, -(DAY + s + 11 * H)):
            for zh, zm in ((12, 0), (-12, 0), (2, 0), (-8, 0), (0, 0), (5, 30), (-3, 30), (14, 0)):
                zone = zh * H + (zm * 60 if zh >= 0 else -zm * 60)
                for frac in (False, True):
                    text = S.fmt_time(S.NOW0 + true_off + zone, frac=frac, z=False) + "%s%02d:%02d" % ("+" if zone >= 0 else "-", abs(zh), zm)
                    for service in ("single_sign_on_service", "single_logout_service", "attribute_service"):
                        yield mk(service, "post", REQS["unset"], None, raw_instant=text, raw_true=S.NOW0 + true_off, slack=slack)
                yield mk("single_logout_service", "soap", REQS["want"], ENV_STATES["valid"], raw_instant=text,
                         raw_true=S.NOW0 + true_off, slack=slack)
    # different clock values (the window moves with the receiver's clock)
    for now in (S.NOW0 - 10 ** 7, S.NOW0 + 10 ** 7, 951782400, 4102444800 - 5):
        for off in (-(DAY + 1), -DAY, 0, DAY - 1, DAY):
            yield mk("single_sign_on_service", "post", REQS["unset"], None, off=off, now=now)
    # 2. version strings
    for v in ("2.0", "1.1", "1.0", "2.1", "2", "20", "2.0 ", " 2.0", "2.00", "02.0", "3.0", "", "2,0", "２.０"):
        for service in ("single_sign_on_service", "single_logout_service", "authn_query_service"):
            yield mk(service, "post", REQS["unset"], None, version=v)
            yield mk(service, "post", REQS["want"], ENV_STATES["valid"], version=v)
    # 3. Destination x endpoint-configuration shapes (every kind, every binding)
    for service in SERVICES:
        shapes = [("std", std_eps(service))] + [(q, quirk_eps(service, q)) for q in QUIRKS]
        for _ in range(6 if thorough else 2):
            shapes.append(("rnd", random_eps(rng, service)))
        for sname, eps in shapes:
            everything = sorted({u for l in eps.values() for u, _b in l})
            for binding in ("post", "redirect", "soap"):
                own = model_addrs(eps, "idp", binding)
                dests = [None, "", "https://evil.example/endpoint"] + everything
                for o in own[:2]:
                    dests += [lookalike(n, o) for n in (range(8) if (thorough or sname == "std") else (0, 2, 6))]
                seen = set()
                for d in dests:
                    if d in seen:
                        continue
                    seen.add(d)
                    if binding == "redirect" and takes_query_params(service) and rng.random() < 0.5:
                        yield mk(service, binding, REQS["want"], None, *det_fields("valid"), dest=d, eps=eps)
                    else:
                        yield mk(service, binding, REQS["unset"], None, dest=d, eps=eps)
    # 4. enveloped sub-variants x requirement x binding x metadata shape
    for service in (SERVICES if thorough else ["single_sign_on_service", "single_logout_service", "attribute_service", "manage_name_id_service"]):
        for env in ENV_VARIANTS + [ENV_STATES["valid"], ENV_STATES["corrupted"], ENV_STATES["untrusted"], None]:
            for rname in REQS:
                for binding in ("post", "soap", "redirect"):
                    for mdv in MD_VARIANTS:
                        if not thorough and mdv != "plain" and rng.random() < 0.6:
                            continue
                        yield mk(service, binding, REQS[rname], env, md_variant=mdv)
    # 5. requirement spellings (False is not a requirement)
    for req in REQ_VARIANTS:
        for ename, env in ENV_STATES.items():
            for binding in ("post", "redirect", "soap"):
                yield mk("single_sign_on_service", binding, req, env)
                yield mk("single_logout_service", binding, req, env, *det_fields("valid"))
                yield mk("single_logout_service", binding, req, env, *det_fields("other-key"))
    # 6. issuer: the other member, and an entity the metadata does not know
    for issuer in (S.SP2_ID, UNKNOWN_ID):
        for rname in REQS:
            for binding in ("post", "redirect", "soap"):
                for env in (None, ENV_STATES["valid"], {"key": "sp2", "corrupt": None, "keyinfo": "sp2"},
                            {"key": "sp2", "corrupt": "content", "keyinfo": "sp2"}, ENV_STATES["untrusted"]):
                    yield mk("single_sign_on_service", binding, REQS[rname], env, issuer=issuer)
                    yield mk("attribute_service", binding, REQS[rname], env, issuer=issuer)
                for key in ("sp", "sp2", "attacker"):
                    yield mk("single_logout_service", binding, REQS[rname], None, *det_fields("valid", key=key), issuer=issuer)
    # 7. detached sub-variants x requirement x enveloped (the two kinds whose entry points take the parameters)
    for service in ("single_sign_on_service", "single_logout_service"):
        for relay, sigalg, det in DET_VARIANTS:
            for rname in REQS:
                for ename in (("absent", "valid", "corrupted") if thorough else ("absent", "valid")):
                    for binding in (("redirect", "post", "soap") if thorough else ("redirect",)):
                        yield mk(service, binding, REQS[rname], ENV_STATES[ename], relay, sigalg, det)
        for mdv in MD_VARIANTS:
            for key in ("sp", "sp_enc2", "sp_enc1", "attacker"):
                yield mk(service, "redirect", REQS["want"], None, *det_fields("valid", key=key), md_variant=mdv)
    # 8. certificate validation (validate_certificate) x metadata chain shapes
    for mdv in ("plain", "rotated", "three"):
        for rname in REQS:
            for env in (None, ENV_STATES["valid"], ENV_STATES["corrupted"], ENV_STATES["untrusted"],
                        {"key": "sp_enc2", "corrupt": None, "keyinfo": None}, {"key": "sp_enc2", "corrupt": "content", "keyinfo": None}):
                for binding in ("post", "soap", "redirect"):
                    yield mk("single_sign_on_service", binding, REQS[rname], env, md_variant=mdv, validate_cert=True)
                yield mk("single_logout_service", "redirect", REQS[rname], env, *det_fields("valid"), md_variant=mdv, validate_cert=True)
                yield mk("attribute_service", "soap", REQS[rname], env, md_variant=mdv, validate_cert=True)
    # 9. a service provider as receiver (LogoutRequest from the IdP; no aa/aq/pdp fall-back; two signing certificates)
    for env in (None, {"key": "idp_sign", "corrupt": None, "keyinfo": "idp_sign"}, {"key": "idp_sign2", "corrupt": None, "keyinfo": None},
                {"key": "idp_sign", "corrupt": "content", "keyinfo": "idp_sign"}, {"key": "idp_enc", "corrupt": None, "keyinfo": "idp_enc"},
                {"key": "attacker", "corrupt": None, "keyinfo": "idp_sign"}, {"key": "sp", "corrupt": None, "keyinfo": "sp"}):
        for binding, own in (("post", S.SP_SLO_POST), ("redirect", S.SP_SLO_REDIRECT), ("soap", S.SP_SLO_SOAP)):
            for d in (None, own, S.SP_SLO_POST, "https://evil.example/slo", lookalike(5, own)):
                yield mk("single_logout_service", binding, REQS["unset"], env, *det_fields("other-key"), dest=d, receiver="sp")
            for off in (-(DAY + 1), -DAY, DAY - 1, DAY):
                yield mk("single_logout_service", binding, REQS["unset"], env, off=off, receiver="sp")
            yield mk("single_logout_service", binding, REQS["unset"], env, version="1.1", receiver="sp")
    # 10. configuration through the real loader (ties the option names), and requests built by a real Saml2Client
    for rname in REQS:
        for slack in (None, 120):
            for ename in ENV_STATES:
                for binding in ("post", "redirect", "soap"):
                    yield mk("single_sign_on_service", binding, REQS[rname], ENV_STATES[ename], *det_fields("valid"),
                             slack=slack, off=-(DAY + 100), loader=True, dest=dest_choices("single_sign_on_service", binding,
                                                                                           std_eps("single_sign_on_service"))["own"])
                    yield mk("attribute_service", binding, REQS[rname], ENV_STATES[ename], slack=slack, off=DAY + 119, loader=True)
    for service in ("single_sign_on_service", "single_logout_service", "attribute_service"):
        for rname in REQS:
            for env in (None, {"key": "sp", "corrupt": None, "keyinfo": "sp"}, {"key": "sp", "corrupt": "content", "keyinfo": "sp"}):
                for binding in ("post", "soap", "redirect"):
                    own = model_addrs(std_eps(service), "idp", binding)
                    for d in (own[0] if own else None, "https://evil.example/endpoint"):
                        if d is None:
                            continue
                        if binding == "redirect" and takes_query_params(service):
                            for dstate in ("absent", "valid", "altered-relay"):
                                yield mk(service, binding, REQS[rname], env, *det_fields(dstate), dest=d, builder="client")
                        else:
                            yield mk(service, binding, REQS[rname], env, dest=d, builder="client")


def random_cases(rng, n):
    for _ in range(n):
        service = rng.choice(SERVICES)
        binding = rng.choice(["post", "redirect", "soap"])
        req = rng.choice(list(REQS.values()) * 3 + REQ_VARIANTS)
        env = rng.choice([None, None, ENV_STATES["valid"], ENV_STATES["valid"], ENV_STATES["corrupted"], ENV_STATES["untrusted"]]
                         + ENV_VARIANTS)
        if rng.random() < 0.08:
            env = env_surgery(rng.choice(list(SURGERIES)), rng.choice(["sp", "sp", "sp", "attacker", "sp_enc2"]))
        if takes_query_params(service):
            if rng.random() < 0.6:
                relay, sigalg, det = det_fields(rng.choice(DET_STATES), relay=rng.choice([None, "rs-1", "", "x y"]),
                                                alg=rng.choice([RSA_SHA1, RSA_SHA256, RSA_SHA512]))
            else:
                relay, sigalg, det = rng.choice(DET_VARIANTS)
        else:
            relay, sigalg, det = None, None, None
        eps = rng.choice([std_eps(service)] * 3 + [quirk_eps(service, rng.choice(QUIRKS)), random_eps(rng, service)])
        own = model_addrs(eps, "idp", binding)
        everything = sorted({u for l in eps.values() for u, _b in l})
        r = rng.random()
        if r < 0.25:
            dest = None
        elif r < 0.6 and own:
            dest = rng.choice(own)
        elif r < 0.75 and everything:
            dest = rng.choice(everything)
        elif r < 0.9 and own:
            dest = lookalike(rng, rng.choice(own))
        else:
            dest = rng.choice(["https://evil.example/endpoint", "", "urn:x"])
        slack = rng.choice([None, None, 0, 1, 60, 180, 3600])
        s = slack or 0
        r = rng.random()
        if r < 0.55:
            off = rng.randint(-(DAY + s), DAY + s - 1)
        elif r < 0.8:
            off = rng.choice([-1, 1]) * (DAY + s) + rng.randint(-2, 2)
        else:
            off = rng.choice([-1, 1]) * rng.randint(DAY + s, 10 ** 8)
        version = rng.choice(["2.0"] * 8 + ["1.1", "2.1", "2"])
        mdv = rng.choice(["plain"] * 4 + list(MD_VARIANTS))
        vc = rng.choice([None] * 5 + [True])
        issuer = rng.choice([S.SP_ID] * 8 + [S.SP2_ID, UNKNOWN_ID])
        yield mk(service, binding, req, env, relay, sigalg, det, dest, version, off, rng.choice(["z", "z", "frac", "noz"]),
                 slack=slack, eps=eps, issuer=issuer, md_variant=mdv, validate_cert=vc,
                 now=rng.choice([S.NOW0, S.NOW0, S.NOW0 + rng.randint(-10 ** 7, 10 ** 7)]))


def tz_cases(rng, tier):
    """Environment dimension: the IssueInstant window (and a slice of everything else) with the receiving process
    in a zone west and a zone east of Greenwich.  Model and specification are in UTC; nothing may move."""
    thorough = tier == "thorough"
    H = 3600
    for tz in TZS:
        for slack in (None, 60) + ((0, 180) if thorough else ()):
            s = slack or 0
            offs = set()
            for sign in (-1, 1):
                for extra in (-H, -1, 0, 1, 2, 60, H, 5 * H, 8 * H - 1, 8 * H + 1, 10 * H - 1, 10 * H + 1, 14 * H, DAY):
                    offs.add(sign * (DAY + s + extra))
                for inside in (0, 1, H, 8 * H, 10 * H, 12 * H, DAY - 10 * H, DAY - 8 * H, DAY - H):
                    offs.add(sign * inside)
            for off in sorted(offs):
                for service in (SERVICES if thorough else ["single_sign_on_service", "single_logout_service", "attribute_service"]):
                    yield mk(service, "post", REQS["unset"], None, off=off, slack=slack, tz=tz)
                yield mk("single_sign_on_service", "redirect", REQS["want"], None, *det_fields("valid"), off=off, slack=slack,
                         dest=S.IDP_SSO_REDIRECT, tz=tz)
                yield mk("single_logout_service", "soap", REQS["want"], ENV_STATES["valid"], off=off, slack=slack,
                         dest=S.IDP_SLO_SOAP, tz=tz)
                yield mk("single_logout_service", "post", REQS["unset"], None, off=off, slack=slack, receiver="sp", tz=tz)
        for now in (S.NOW0 - 10 ** 7, 951782400, 1774753200, 1793494800):  # incl. instants near DST changes elsewhere
            for off in (-(DAY + 1), -DAY, -(DAY - 1), 0, DAY - 1, DAY, DAY + 1, -(DAY + 8 * H - 1), DAY + 10 * H - 1):
                yield mk("single_sign_on_service", "post", REQS["unset"], None, off=off, now=now, tz=tz)
    for c in random_cases(rng, 300 if not thorough else 3000):
        c["tz"] = rng.choice(TZS)
        yield c


def surgery_cases(rng, tier):
    """Structure of the enveloped signature operated on (the content/key/address streams leave it alone): every
    request kind x binding x requirement x every operation; plus a few with another key, destination or instant."""
    for service in SERVICES:
        for name in SURGERIES:
            for binding in ("post", "soap", "redirect"):
                for rname in REQS:
                    if binding == "redirect" and takes_query_params(service):
                        yield mk(service, binding, REQS[rname], env_surgery(name), *det_fields("valid"))
                    else:
                        yield mk(service, binding, REQS[rname], env_surgery(name))
    for name in SURGERIES:
        for key in ("attacker", "sp2", "sp_enc2"):
            for rname in ("unset", "want", "cert-only"):
                for mdv in ("plain", "rotated"):
                    yield mk("single_sign_on_service", "post", REQS[rname], env_surgery(name, key), md_variant=mdv)
        yield mk("single_sign_on_service", "post", REQS["want"], env_surgery(name), dest=S.IDP_SSO_POST)
        yield mk("single_sign_on_service", "post", REQS["want"], env_surgery(name), dest="https://evil.example/endpoint")
        yield mk("single_logout_service", "soap", REQS["want"], env_surgery(name), off=-(DAY + 1))
        yield mk("single_logout_service", "soap", REQS["want"], env_surgery(name), version="1.1")
        yield mk("single_logout_service", "post", REQS["unset"], env_surgery(name, "idp_sign"), receiver="sp")
        yield mk("single_sign_on_service", "post", REQS["want"], env_surgery(name), validate_cert=True)


def gen_cases(rng, tier):
    yield from table_cases()
    yield from surgery_cases(rng, tier)
    yield from directed_cases(rng, tier)
    yield from tz_cases(rng, tier)
    yield from history_cases(rng, tier)
    yield from random_cases(rng, 1500 if tier == "quick" else 30000)


# ------------------------------------------------------------------ histories on one long-lived receiver

OLD, NEW = "sp", "sp_enc2"


def src(name, sp_keys=None, sp2=False):
    """One metadata source (a file): the SP with the given KeyDescriptors (or not at all), optionally the other
    member, and always a filler entity so that the document is never empty."""
    ents = []
    if sp_keys is not None:
        ents.append({"entity": S.SP_ID, "keys": [list(k) for k in sp_keys]})
    if sp2:
        ents.append({"entity": S.SP2_ID, "keys": [list(k) for k in SP2_KEYS]})
    ents.append({"entity": "https://filler-%s.verif.example/sp" % name.lower(), "keys": [["signing", "member2"]]})
    for e in ents:
        e["certs"] = md_certs([tuple(k) for k in e["keys"]])
    return {"name": name, "entities": ents}


def sig(k):
    return [("signing", k)]


def rq(binding, key, rname="want", service=None, **kw):
    """A request over `binding` whose signature (detached for Redirect, enveloped otherwise) was made with `key`."""
    service = service or "single_sign_on_service"
    if binding == "redirect":
        c = mk(service, binding, REQS[rname], None, *(det_fields("valid", key=key) if key else det_fields("absent")), **kw)
    else:
        c = mk(service, binding, REQS[rname], None if key is None else {"key": key, "corrupt": None, "keyinfo": key}, **kw)
    for k in ("op", "md", "md_variant"):
        c.pop(k, None)
    return {"recv": c}


def history(initial, steps, style="old"):
    return {"op": "history", "receiver": "idp", "style": style, "initial": initial, "steps": steps}


def history_cases(rng, tier):
    thorough = tier == "thorough"
    A_old, A_new, B_new = src("A", sig(OLD)), src("A", sig(NEW)), src("B", sig(NEW))
    B_old, C_other = src("B", sig(OLD)), src("C", None, sp2=True)
    B_enc = src("B", [("encryption", OLD)])
    X_att = src("X", sig("attacker"))
    for binding in ("redirect", "post", "soap"):
        for rname in ("want", "unset", "cert-only", "both"):
            for style in ("old", "new"):
                def r(key, **kw):
                    svc = {"redirect": "single_sign_on_service", "post": "single_sign_on_service",
                           "soap": "single_logout_service"}[binding]
                    return rq(binding, key, rname, service=svc, **kw)

                both = [r(OLD), r(NEW)]
                # source dropped: the SP leaves the federation
                yield history([A_old], [r(OLD), {"reload": [C_other]}, r(OLD), r(NEW), r(None)], style)
                # replaced: the SP's metadata moves to another source under a rotated key
                yield history([A_old], [r(OLD), r(NEW), {"reload": [B_new]}] + both + [{"reload": [A_old]}] + both, style)
                # same source refreshed in place, key rotated and rotated back
                yield history([A_old], [{"reload": [A_new]}] + both + [{"reload": [A_old]}] + both + [{"reload": [A_old]}] + both, style)
                # source added behind / in front of the old one (the first source that knows the issuer answers)
                yield history([A_old], [{"reload": [A_old, B_new]}] + both + [{"reload": [B_new, A_old]}] + both
                              + [{"reload": [C_other, A_old]}] + both, style)
                # a reload that fails half-way keeps the old store (and nothing of the half-imported specification)
                yield history([A_old], [{"reload": None, "partial": [X_att]}, r(OLD), r("attacker"), {"reload": [B_new]}]
                              + both + [{"reload": None, "partial": [A_old]}] + both, style)
                # chain of moves
                yield history([A_old, C_other], [r(OLD), {"reload": [B_new, C_other]}, r(OLD), {"reload": [C_other]}, r(NEW),
                                                 {"reload": [A_new]}] + both + [{"reload": [B_old]}] + both, style)
                # two sources at start, the one with the old key is dropped; then the SP only keeps an encryption key
                yield history([A_old, B_new], both + [{"reload": [B_new]}] + both + [{"reload": [B_enc]}] + both, style)
    for _ in range(80 if not thorough else 800):
        pool = {}

        def rnd_src():
            name = rng.choice("ABCD")
            k = rng.choice([OLD, OLD, NEW, NEW, "attacker", None, "enc"])
            keys = None if k is None else [("encryption", OLD)] if k == "enc" else sig(k)
            if rng.random() < 0.2 and keys is not None:
                keys = keys + sig(rng.choice([OLD, NEW]))
            pool[name] = src(name, keys, sp2=rng.random() < 0.3)
            return pool[name]

        def rnd_spec():
            names = []
            out = []
            for _i in range(rng.randint(1, 3)):
                s_ = rnd_src()
                if s_["name"] not in names:
                    names.append(s_["name"])
                    out.append(s_)
                else:
                    out[names.index(s_["name"])] = s_
            return out

        steps = []
        for _i in range(rng.randint(3, 9)):
            if rng.random() < 0.4:
                if rng.random() < 0.15:
                    steps.append({"reload": None, "partial": rnd_spec()})
                else:
                    steps.append({"reload": rnd_spec()})
            else:
                b = rng.choice(["redirect", "post", "soap"])
                steps.append(rq(b, rng.choice([OLD, OLD, NEW, NEW, "attacker", None]), rng.choice(["want", "want", "unset", "cert-only"]),
                                service=rng.choice(["single_sign_on_service", "single_logout_service"]),
                                off=rng.choice([0, 0, 0, -(DAY + 1), DAY - 1])))
        yield history(rnd_spec(), steps, rng.choice(["old", "new"]))


def search_cases(rng, broken, build_log):
    """A proof obligation (e.g. the regenerated dispatch table's lemma) broke: look harder where a
    request class might have stopped enforcing the requirement."""
    for service in SERVICES:
        for binding in ("post", "soap", "redirect"):
            for rname in REQS:
                for env in [None] + list(ENV_STATES.values())[1:] + ENV_VARIANTS:
                    for mdv in ("plain", "rotated"):
                        yield mk(service, binding, REQS[rname], env, md_variant=mdv)
    yield from surgery_cases(rng, "quick")
    yield from random_cases(rng, 3000)


# ------------------------------------------------------------------ implementation side


def _receiver(case):
    cfg = case["cfg"]
    recv = case["receiver"]
    if cfg.get("loader"):
        key = ("loader", recv, case["md_variant"], json.dumps(cfg, sort_keys=True))
    else:
        key = ("shared", recv, case["md_variant"], bool(cfg.get("validate_cert")))
    if key not in _state:
        if len(_state) > 24:
            _state.clear()
        if recv == "sp":
            conf = S.sp_config()
        else:
            conf = S.idp_config(sp_entities=[S.default_sp_entity(spsso=dict(S.default_sp_entity()["spsso"], keys=[
                tuple(k) for k in MD_VARIANTS[case["md_variant"]]])),
                {"entity_id": S.SP2_ID, "spsso": {"keys": SP2_KEYS, "acs": [(S.BINDING_POST, "https://sp2.verif.example/acs", 0)]}}])
        if cfg.get("validate_cert") is not None:
            conf["validate_certificate"] = cfg["validate_cert"]
        if cfg.get("loader"):
            # the whole configuration goes through Config.load
            if recv == "idp":
                idp = conf["service"]["idp"]
                idp["endpoints"] = {case["service"]: [tuple(e) if e[1] is not None else e[0] for e in cfg["eps"].get("idp", [])]}
                for ctx in CONTEXTS[1:]:
                    conf["service"][ctx] = {"endpoints": {case["service"]: [tuple(e) if e[1] is not None else e[0]
                                                                            for e in cfg["eps"].get(ctx, [])]}}
                if cfg.get("want") is not None:
                    idp["want_authn_requests_signed"] = cfg["want"]
                if cfg.get("cert_only") is not None:
                    idp["want_authn_requests_only_with_valid_cert"] = cfg["cert_only"]
            if cfg.get("slack") is not None:
                conf["accepted_time_diff"] = cfg["slack"]
        _state[key] = S.make_sp(conf) if recv == "sp" else S.make_idp(conf)
    ent = _state[key]
    if not cfg.get("loader"):
        _apply_cfg(ent, case)
    return ent


_msg_cache = {}


def _instant_str(case):
    inst = case["instant"]
    if "raw" in inst:
        return inst["raw"]
    t = case["now"] + inst["off"]
    if inst["fmt"] == "frac":
        return S.fmt_time(t, frac=True)
    if inst["fmt"] == "noz":
        return S.fmt_time(t, z=False)
    return S.fmt_time(t)


def build_message(case):
    """The request document as the independent writer produces it."""
    env = case["env"]
    key = json.dumps([case["service"], case["issuer"], env, case["dest"], case["version"], case["instant"], case["now"]],
                     sort_keys=True)
    if key in _msg_cache:
        return _msg_cache[key]
    rid = "id-" + hashlib.sha1(key.encode()).hexdigest()[:20]
    if env is not None and env.get("surgery"):
        xml = build_surgery(case, rid)
        if len(_msg_cache) > 256:
            _msg_cache.clear()
        _msg_cache[key] = xml
        return xml
    sig = None
    if env is not None:
        sig = sig_template(rid, env.get("keyinfo"), env.get("sigalg", RSA_SHA256),
                           env.get("digalg", "http://www.w3.org/2001/04/xmlenc#sha256"))
    xml = request_xml(case["service"], rid, case["issuer"], _instant_str(case), case["version"], case["dest"], sig)
    if env is not None:
        xml = sign_enveloped(xml, case["service"], rid, env["key"])
        if env.get("corrupt"):
            xml = corrupt(xml, env["corrupt"])
    if len(_msg_cache) > 256:
        _msg_cache.clear()
    _msg_cache[key] = xml
    return xml


def build_message_client(case):
    """Let a real Saml2Client build (and sign) the request.  Only for the plain cells the client can express."""
    from saml2 import saml

    key = ("client-sp",)
    if key not in _state:
        _state[key] = S.make_sp()
    sp = _state[key]
    env = case["env"]
    sign = env is not None
    dest = case["dest"]
    svc = case["service"]
    if svc == "single_sign_on_service":
        _rid, req = sp.create_authn_request(dest, sign=sign)
    elif svc == "single_logout_service":
        _rid, req = sp.create_logout_request(dest, S.IDP_ID, name_id=saml.NameID(text="subject-1"), sign=sign)
    else:
        _rid, req = sp.create_attribute_query(dest, "subject-1", sign=sign)
    xml = str(req)
    if env is not None and env.get("corrupt"):
        # alter signed content outside the signature, leaving the modelled fields alone
        if 'ProviderName="' in xml:
            new = xml.replace('ProviderName="', 'ProviderName="x', 1)
        else:
            new = xml.replace("subject-1", "subject-2", 1)
        assert new != xml
        xml = new
    return xml


def transport(xml, binding):
    if binding == "post":
        return base64.b64encode(xml.encode("utf-8")).decode()
    if binding == "redirect":
        return deflate_b64(xml)
    return soap_wrap(xml)


def _apply_cfg(ent, case):
    """per-request options set on the live receiver (the same Config.setattr the loader uses)"""
    cfg = case["cfg"]
    c = ent.config
    ctxs = ["sp"] if case["receiver"] == "sp" else CONTEXTS
    for ctx in ctxs:
        c.setattr(ctx, "endpoints", {case["service"]: [tuple(e) if e[1] is not None else e[0]
                                                       for e in cfg["eps"].get(ctx, [])]})
    c.setattr("idp", "want_authn_requests_signed", cfg.get("want"))
    c.setattr("idp", "want_authn_requests_only_with_valid_cert", cfg.get("cert_only"))
    c.accepted_time_diff = cfg.get("slack")


def _deliver(ent, case):
    from saml2.response import IncorrectlySigned
    from saml2.s_utils import OtherError, UnravelError, VersionMismatch
    from saml2.validate import MustValueError, NotValid, ShouldValueError

    binding = case["binding"]
    with S.clock(case["now"]):
        xml = build_message_client(case) if case.get("builder") == "client" else build_message(case)
        enc = transport(xml, binding)
        kw = {}
        if takes_query_params(case["service"]):
            kw["relay_state"] = case["relay"]
            kw["sigalg"] = case["sigalg"]
            det = case["det"]
            if det is None:
                kw["signature"] = None
            elif "garbage" in det:
                kw["signature"] = {"b64": base64.b64encode(hashlib.sha512(enc.encode()).digest() * 4).decode(),
                                   "nonb64": "!!! not base64 !!!", "empty": ""}[det["garbage"]]
            else:
                # "M2": the signature was made over another document of the same sender
                signed_over = enc if det["msg"] == "M" else transport(xml + "<!-- other -->", binding)
                kw["signature"] = detached_sign(det["key"], signed_over, det["relay"], det["alg"])
        method = getattr(ent, KINDS[case["service"]][3])
        del X.LOG[:]
        with _tz(case.get("tz")):  # only the receiver runs in the other zone
            try:
                res = method(enc, BIND[binding], **kw)
            except (IncorrectlySigned, VersionMismatch, OtherError, UnravelError, NotValid, MustValueError, ShouldValueError) as e:
                return {"r": "rejected", "err": type(e).__name__}
    if res is None:
        return {"r": "rejected", "err": "None"}
    if res.message is None or res.message.id is None:
        return {"r": "rejected", "err": "no-message"}
    out = {"r": "processed"}
    # which element did the stand-in verify?  (cross-check of the harness's own `covers` bookkeeping)
    env = case.get("env")
    oks = [r_ for r_ in X.LOG if r_.get("mode") == "verify" and r_.get("ok")]
    if env is not None and not env.get("as_absent") and oks and case.get("builder") != "client":
        any_processed = any(i == res.message.id for _t, i in oks[-1].get("covered", []))
        out["verified_ids"] = [i for _t, i in oks[-1].get("covered", [])]
        book = env.get("covers", env.get("intact", env.get("corrupt") is None))
        if book != any_processed:
            raise RuntimeError("covers bookkeeping (%s) contradicts the stand-in's log %r for processed id %s"
                               % (book, out["verified_ids"], res.message.id))
    return out


def _entity_spec(e):
    if e["entity"] == S.SP_ID:
        return S.default_sp_entity(spsso=dict(S.default_sp_entity()["spsso"], keys=[tuple(k) for k in e["keys"]]))
    host = e["entity"].split("/")[2]
    return {"entity_id": e["entity"], "spsso": {"keys": [tuple(k) for k in e["keys"]],
                                                "acs": [(S.BINDING_POST, "https://%s/acs" % host, 0)]}}


def _md_spec(d, sources, style, extra=()):
    """write the sources as files (same name = same file = same key in the store) and name them in a specification"""
    paths = []
    for s_ in sources:
        path = os.path.join(d, s_["name"] + ".xml")
        with open(path, "w", encoding="utf-8") as f:
            f.write(S.metadata_xml([_entity_spec(e) for e in s_["entities"]]))
        paths.append(path)
    paths += list(extra)
    if style == "new":
        return [{"class": "saml2.mdstore.MetaDataFile", "metadata": [(p_,) for p_ in paths]}]
    return {"local": paths}


def _run_history(case):
    """One fresh Server, kept alive over the whole history."""
    d = tempfile.mkdtemp(prefix="c07hist-")
    try:
        conf = S.idp_config()
        conf["metadata"] = _md_spec(d, case["initial"], case["style"])
        idp = S.make_idp(conf)
        outs = []
        for st in case["steps"]:
            if "reload" in st:
                if st["reload"] is None:  # import raises at a missing file, after the sources before it were read
                    spec = _md_spec(d, st.get("partial", []), case["style"], extra=[os.path.join(d, "no-such-file.xml")])
                else:
                    spec = _md_spec(d, st["reload"], case["style"])
                ok = idp.reload_metadata(spec)
                outs.append("reloaded" if ok else "reload-failed")
            else:
                c = st["recv"]
                _apply_cfg(idp, c)
                outs.append(_deliver(idp, c)["r"])
        return {"steps": outs}
    finally:
        shutil.rmtree(d, ignore_errors=True)


def run_impl(case):
    if case["op"] == "history":
        return _run_history(case)
    return _deliver(_receiver(case), case)


def compare(case, impl, model):
    if model is None:
        return False
    if case["op"] == "history":
        return impl.get("steps") == model.get("steps")
    return impl.get("r") == model.get("r")


def nontrivial(case, impl, lean):
    return not str(lean.get("path", "")).startswith("unravel-error")


def finding_key(case, impl, lean):
    """F7 (fixed by a947fd59): the verdict of issue_instant_ok was ignored, so requests issued *any* time ago were
    processed.  The key is given only to its signature: nothing else wrong with the request, IssueInstant a year or
    more off (a merely widened or one-sided window does not get it)."""
    why = lean.get("why") or ""
    off = (case.get("instant") or {}).get("off")
    if (impl.get("r") == "processed" and why.startswith("processed although IssueInstant")
            and isinstance(off, int) and abs(off) >= 365 * DAY):
        return "C07/stale-issue-instant-processed"
    return None


def shrink(case):
    if case["op"] == "history":  # drop one step at a time
        for i in range(len(case["steps"])):
            c = json.loads(json.dumps(case))
            del c["steps"][i]
            yield c
        return

    def with_(**kw):
        c = json.loads(json.dumps(case))
        for k, v in kw.items():
            c[k] = v
        return c

    if case.get("det") is not None or case.get("sigalg") is not None or case.get("relay") is not None:
        yield with_(det=None, sigalg=None, relay=None)
    if case.get("env") is not None:
        yield with_(env=None)
    if case.get("dest") is not None:
        yield with_(dest=None)
    if case.get("version") != "2.0":
        yield with_(version="2.0")
    if case.get("instant", {}).get("off"):
        c = with_(instant={"off": 0, "fmt": "z"})
        c["ts"] = c["now"]
        yield c
    if case.get("md_variant") != "plain" and case["receiver"] == "idp" and case["issuer"] == S.SP_ID:
        c = with_(md_variant="plain")
        c["md"] = md_certs(MD_VARIANTS["plain"])
        yield c
    cfg = case["cfg"]
    for k in ("slack", "validate_cert"):
        if cfg.get(k) is not None:
            c = with_()
            c["cfg"][k] = None
            yield c
    if case["receiver"] == "idp" and cfg["eps"] != std_eps(case["service"]):
        c = with_()
        e = std_eps(case["service"])
        c["cfg"].update(eps=e, own=e["idp"], fallback=[e[x] for x in CONTEXTS[1:]])
        yield c


def neighbours(case, rng):
    """vary one field at a time around a case on which model and implementation disagree"""
    if case["op"] == "history":
        return
    for ename, env in ENV_STATES.items():
        c = json.loads(json.dumps(case))
        c["env"] = env
        yield c
    for rname, req in REQS.items():
        c = json.loads(json.dumps(case))
        c["cfg"]["want"], c["cfg"]["cert_only"] = req["want"], req["cert_only"]
        yield c
    for b in ("post", "redirect", "soap"):
        c = json.loads(json.dumps(case))
        c["binding"] = b
        yield c
    if takes_query_params(case["service"]):
        for d in DET_STATES:
            c = json.loads(json.dumps(case))
            c["relay"], c["sigalg"], c["det"] = det_fields(d)
            yield c
    for off in (-10 ** 8, -(DAY + 1), 0, DAY + 1):
        c = json.loads(json.dumps(case))
        c["instant"] = {"off": off, "fmt": "z"}
        c["ts"] = c["now"] + off
        yield c
    for v in ("2.0", "1.1"):
        c = json.loads(json.dumps(case))
        c["version"] = v
        yield c
    for d in (None, "https://evil.example/endpoint"):
        c = json.loads(json.dumps(case))
        c["dest"] = d
        yield c


def distribution(recs):
    d = {"kind": {}, "binding": {}, "requirement": {}, "enveloped": {}, "detached": {}, "outcome": {}, "impl_error": {},
         "receiver": {}, "builder": {}}

    def inc(k, v):
        d[k][v] = d[k].get(v, 0) + 1

    d["history"] = {}
    d["tz"] = {}
    for r in recs:
        c = r["case"]
        if c["op"] == "history":
            inc("history", "%d steps, %d reloads" % (len(c["steps"]), sum(1 for s_ in c["steps"] if "reload" in s_)))
            continue
        inc("tz", c.get("tz") or "UTC")
        inc("kind", c["service"])
        inc("binding", c["binding"])
        inc("requirement", "want=%s,cert_only=%s" % (c["cfg"].get("want"), c["cfg"].get("cert_only")))
        e = c.get("env")
        inc("enveloped", "absent" if e is None else "surgery:" + e["surgery"] if e.get("surgery") else
            "%s%s" % (e["key"], "/corrupt-" + e["corrupt"] if e.get("corrupt") else ""))
        det = c.get("det")
        inc("detached", "absent" if det is None else "garbage" if "garbage" in det else
            "signed:%s%s" % (det["key"], "" if (det["msg"] == "M" and det["relay"] == c.get("relay") and det["alg"] == c.get("sigalg")) else "/mismatch"))
        inc("outcome", r["impl"].get("r", "?"))
        if r["impl"].get("err"):
            inc("impl_error", r["impl"]["err"])
        inc("receiver", c["receiver"])
        inc("builder", c.get("builder", "own"))
    return d
