"""C08 — routing only to endpoints registered in metadata: correspondence harness.

Real code exercised: Server.response_args / Entity.pick_binding (IdP side),
Base._sso_location + Saml2Client.prepare_for_authenticate, Saml2Client.do_logout (SP side),
DiscoveryServer.verify_return.  The model's input (endpoint lists) comes from the harness's own
metadata specification, rendered to XML by scenario.metadata_xml (independent of saml2.metadata)."""
import re
import urllib.parse

import scenario as S

PROP = "C08"
LEAN_PROPS = "PysamlModel.Props.C08"
MODEL_TARGETS = ["PysamlModel.Model.Routing", "PysamlModel.Spec.C08"]
AUDIT = "PysamlModel/Audit/C08.lean"
DRIVER = "Drivers/C08.lean"
CORRESPONDENCE = ("Drivers/C08.lean vs Entity.pick_binding/response_args (all request classes, IdP and SP), Base._sso_location/"
                  "sso_location (with/without entity id), create_ecp_authn_request, do_logout, verify_return, "
                  "Entity.reload_metadata histories over six metadata configuration forms")
RULE = ("random metadata (1-4 endpoints per service/binding, 1-3 requesters) x requests with URL/index/"
        "ProtocolBinding drawn from registered / other-binding / other-SP / unregistered / look-alike; "
        "request classes x entity roles; histories (look-up / source change / reload) x metadata configuration forms; "
        "non-trivial = case not refused for an unknown entity; distinct = distinct case JSON")
TRUSTED = [
    "metadata XML -> mdstore dictionaries (saml2.mdstore/mdie) is exercised, not modelled",
    "model input (endpoint lists) is derived by the harness from its own metadata specification",
]
ASSUMPTIONS = ["single metadata source (multi-source fall-through is C11)",
               "AssertionConsumerService endpoints always carry an index (schema requirement)"]

B = [S.BINDING_POST, S.BINDING_REDIRECT, S.BINDING_ARTIFACT, S.BINDING_PAOS, S.BINDING_SOAP]
_state = {}


def setup():
    S.install()


# ------------------------------------------------------------------ generators


def lookalikes(rng, url):
    c = rng.randrange(8)
    if c == 0:
        return url + "/"
    if c == 1:
        return url[:-1]
    if c == 2:
        return url.upper()
    if c == 3:
        return url.replace("https://", "http://")
    if c == 4:
        return url + "?x=1"
    if c == 5:
        return url.replace(".example", ".example.evil.test")
    if c == 6:
        return " " + url
    return url + "#frag"


def gen_sp_entity(rng, k):
    eid = "https://sp%d.c08.example/sp" % k
    acs = []
    n = rng.randint(1, 4)
    bs = [rng.choice(B[:4]) for _ in range(n)]
    for i, b in enumerate(bs):
        loc = "https://sp%d.c08.example/acs/%d" % (k, rng.randrange(3) if rng.random() < 0.3 else i)
        if rng.random() < 0.25:
            loc += rng.choice(["?option=com_saml&task=acs", "?tenant=a&app=b", "?x=1"])
        idx = str(rng.choice([i, i, i + 10, 0]))
        acs.append((b, loc, idx))
    slo = []
    for i in range(rng.randint(0, 3)):
        b = rng.choice([S.BINDING_POST, S.BINDING_REDIRECT, S.BINDING_SOAP])
        loc = "https://sp%d.c08.example/slo/%d" % (k, i)
        rl = "https://sp%d.c08.example/slo-resp/%d" % (k, i) if rng.random() < 0.4 else None
        slo.append((b, loc, rl))
    disco = [rng.choice(["https://sp%d.c08.example/disco%s" % (k, rng.choice(["", "/r", "?a=b", "/"])),
                         "https://sp%d.c08.example/" % k, "https://sp%d.c08.example/saml/ds/" % k])
             for _ in range(rng.randint(0, 2))]
    return {"entity_id": eid, "spsso": {"keys": [("signing", "sp")], "acs": acs, "slo": slo, "disco": disco}}


def gen_idp_entity(rng, k):
    eid = "https://idp%d.c08.example/idp" % k
    sso, slo = [], []
    for i in range(rng.randint(1, 4)):  # an IDPSSODescriptor without SSO service is schema-invalid
        sso.append((rng.choice([S.BINDING_POST, S.BINDING_REDIRECT, S.BINDING_ARTIFACT]),
                    "https://idp%d.c08.example/sso/%d" % (k, i) + (rng.choice(["?tenant=a&app=b", "?idp=1"]) if rng.random() < 0.25 else "")))
    for i in range(rng.randint(0, 4)):
        slo.append((rng.choice([S.BINDING_POST, S.BINDING_REDIRECT, S.BINDING_SOAP]),
                    "https://idp%d.c08.example/slo/%d" % (k, i)))
    return {"entity_id": eid, "idpsso": {"keys": [("signing", "idp_sign")], "sso": sso, "slo": slo}}


def eps_of(entity, role, svc):
    out = []
    for ep in entity.get(role, {}).get(svc, []):
        d = {"binding": ep[0], "location": ep[1]}
        if svc == "acs":
            d["index"] = ep[2]
        elif len(ep) > 2 and ep[2]:
            d["response_location"] = ep[2]
        out.append(d)
    return out


SVC_KEYS = {"acs": "assertion_consumer_service", "slo": "single_logout_service", "mni": "manage_name_id_service",
            "attr_cs": "attribute_consuming_service", "sso": "single_sign_on_service"}
KINDS = ["authn", "logout", "attr_query", "manage_nameid", "soap_only:AssertionIDRequest", "soap_only:ArtifactResolve",
         "soap_only:NameIDMappingRequest", "unsupported"]
FORMS = ["local", "local_dir", "inline", "class_file", "class_dir", "class_inmem"]


def enrich(rng, ent):
    """Round 5: ManageNameID services on both roles, attribute consuming services, a SOAP (ECP) sign-on endpoint."""
    k = re.search(r"(?:sp|idp)(\d+)\.", ent["entity_id"]).group(1)
    for role, host in (("spsso", "sp"), ("idpsso", "idp")):
        if role in ent:
            mni = []
            for i in range(rng.randint(0, 3)):
                b = rng.choice([S.BINDING_POST, S.BINDING_REDIRECT, S.BINDING_SOAP])
                rl = "https://%s%s.c08.example/mni-resp/%d" % (host, k, i) if rng.random() < 0.3 else None
                mni.append((b, "https://%s%s.c08.example/mni/%d" % (host, k, i), rl))
            ent[role]["mni"] = mni
    if "spsso" in ent and rng.random() < 0.4:
        ent["spsso"]["attr_cs"] = [[{"name": "urn:oid:2.5.4.4"}]]
    if "idpsso" in ent and rng.random() < 0.5:
        ent["idpsso"]["sso"] = list(ent["idpsso"]["sso"]) + [(S.BINDING_SOAP, "https://idp%s.c08.example/ecp" % k)]
    return ent


def tables_of(ent):
    """Endpoint lists per descriptor and service, from the harness's own metadata specification. AttributeConsumingService
    elements carry neither Binding nor Location: nothing of them can ever be eligible (empty list)."""
    if ent is None:
        return None
    t = {"spsso": None, "idpsso": None}
    if "spsso" in ent:
        t["spsso"] = {"acs": eps_of(ent, "spsso", "acs"), "slo": eps_of(ent, "spsso", "slo"),
                      "mni": eps_of(ent, "spsso", "mni"), "attr_cs": []}
    if "idpsso" in ent:
        t["idpsso"] = {"sso": eps_of(ent, "idpsso", "sso"), "slo": eps_of(ent, "idpsso", "slo"),
                       "mni": eps_of(ent, "idpsso", "mni")}
    return t


def pref_by_svc(pref):
    return {k: list(pref.get(v, [])) for k, v in SVC_KEYS.items()}


def gen_authn_fields(rng, acs, all_acs):
    c = rng.randrange(8)
    if c == 0 or not acs:
        url = None
    elif c in (1, 2, 3):
        url = rng.choice(acs)[1]
    elif c == 4:
        url = rng.choice(all_acs)
    elif c == 5:
        url = "https://evil.example/acs"
    elif c == 6:
        url = lookalikes(rng, rng.choice(acs)[1])
    else:
        url = ""
    c = rng.randrange(6)
    index = None if c < 2 or not acs else rng.choice(acs)[2] if c < 4 else rng.choice(["99", "abc", "", "-1", "00"])
    c = rng.randrange(6)
    pb = None if c < 2 or not acs else rng.choice(acs)[0] if c < 4 else rng.choice(B + ["urn:bogus:binding", ""])
    return url, index, pb


def gen_rargs(rng, side, ents, others, pref, pref_cfg):
    """response_args for every request class, on an IdP (`ents` = SPs it knows) or on an SP (`ents` = IdPs it knows);
    `others` = entities of the metadata that have only the other role."""
    md = {"sps" if side == "idp" else "idps": ents + others, "pref": pref_cfg}
    c = rng.randrange(12)
    ent = None if c == 0 else rng.choice(others) if (c == 1 and others) else rng.choice(ents)
    kind = rng.choice(KINDS)
    acs = (ent or {}).get("spsso", {}).get("acs", [])
    url = index = pb = None
    if kind == "authn":
        url, index, pb = gen_authn_fields(rng, acs, [ep[1] for e in ents + others for ep in e.get("spsso", {}).get("acs", [])])
        barg = [] if rng.random() < 0.5 else rng.sample(B, rng.randint(1, 3))
    elif kind.startswith("soap_only") or kind == "unsupported":
        barg = rng.choice([[], [S.BINDING_SOAP], rng.sample(B, rng.randint(1, 3))])
    else:  # bindings=None raises AttributeError for request classes without ProtocolBinding (robustness quirk, see design)
        b3 = [S.BINDING_POST, S.BINDING_REDIRECT, S.BINDING_SOAP]
        barg = rng.choice([[S.BINDING_SOAP], rng.sample(B, rng.randint(1, 3)), rng.sample(b3, rng.randint(1, 3)),
                           rng.sample(b3, rng.randint(2, 3)), rng.sample(b3[:2], rng.randint(1, 2))])
    return {"op": "rargs", "side": side, "kind": kind, "md": md,
            "entity": ent["entity_id"] if ent else "https://unknown.c08.example/x", "tables": tables_of(ent),
            "bindings_arg": barg, "protocol_binding": pb, "preferred": pref_by_svc(pref), "url": url, "index": index}


def gen_pickdirect(rng, side, ents, others, pref, pref_cfg):
    md = {"sps" if side == "idp" else "idps": ents + others, "pref": pref_cfg}
    c = rng.randrange(10)
    ent = None if c == 0 else rng.choice(others) if (c == 1 and others) else rng.choice(ents)
    if side == "sp" and rng.random() < 0.5:
        # the one caller inside the library: ECP sign-on (SOAP unless the caller names another binding)
        b = rng.choice([None, None, S.BINDING_SOAP, S.BINDING_POST, S.BINDING_PAOS])
        return {"op": "pickdirect", "side": side, "via": "ecp", "service": "sso", "md": md,
                "entity": ent["entity_id"] if ent else "https://unknown.c08.example/x", "tables": tables_of(ent),
                "binding": b, "bindings_arg": [b or S.BINDING_SOAP], "preferred": pref_by_svc(pref)}
    svc = rng.choice(["acs", "slo", "mni"] if side == "idp" else ["sso", "slo", "mni"])
    barg = [] if rng.random() < 0.3 else rng.sample(B, rng.randint(1, 3))
    return {"op": "pickdirect", "side": side, "via": "pick_binding", "service": svc, "md": md,
            "entity": ent["entity_id"] if ent else "https://unknown.c08.example/x", "tables": tables_of(ent),
            "bindings_arg": barg, "preferred": pref_by_svc(pref)}


def gen_sso_any(rng, idps, sp_only):
    """_sso_location / sso_location / prepare_for_authenticate with no (or an empty) entity id, over metadata holding
    none, one or several identity providers (and possibly entities that are service providers only)."""
    c = rng.randrange(6)
    chosen = [] if c == 0 else idps[:1] if c < 4 else idps[:]
    mdl = chosen + ([sp_only] if rng.random() < 0.5 or not chosen else [])
    ent = rng.choice([None, None, "", rng.choice(mdl)["entity_id"]])
    named = next((e for e in mdl if e["entity_id"] == ent), None) if ent else None
    return {"op": "sso_any", "md": {"idps": mdl}, "entity": ent,
            "eps": eps_of(named, "idpsso", "sso") if named is not None and "idpsso" in named else None,
            "idps_eps": [eps_of(e, "idpsso", "sso") for e in mdl if "idpsso" in e],
            "binding": rng.choice([S.BINDING_POST, S.BINDING_REDIRECT, S.BINDING_REDIRECT, S.BINDING_ARTIFACT, S.BINDING_SOAP]),
            "via": rng.choice(["_sso_location", "sso_location", "prepare_for_authenticate"])}


def mutate_entity(rng, ent, v):
    """A later version of the same entity's metadata: endpoints moved, dropped, added, re-bound."""
    import copy
    e = copy.deepcopy(ent)
    for role in ("spsso", "idpsso"):
        for svc in ("acs", "slo", "sso", "mni"):
            eps = e.get(role, {}).get(svc)
            if not eps:
                continue
            out = []
            for ep in eps:
                c = rng.randrange(6)
                ep = list(ep)
                if c == 0 and (len(eps) > 1 or svc in ("slo", "mni")):
                    continue  # dropped
                if c in (1, 2):
                    ep[1] = ep[1].replace(".c08.example/", ".c08.example/v%d/" % v)  # moved
                elif c == 3:
                    ep[0] = rng.choice([S.BINDING_POST, S.BINDING_REDIRECT])  # re-bound
                out.append(tuple(ep))
            if not out:
                out = [tuple(eps[0])]
            e[role][svc] = out
    return e


def gen_hist(rng, side, ents, pref, pref_cfg):
    """One long-lived entity: look-ups, changes of the metadata source (new version / unreadable), reloads, in random
    order, for every form the metadata configuration may take."""
    nv = rng.randint(2, 3)
    versions = [ents]
    for v in range(1, nv):
        prev = versions[-1]
        nxt = [mutate_entity(rng, e, v) for e in prev]
        if len(nxt) > 1 and rng.random() < 0.25:
            nxt = nxt[1:]  # an entity leaves the federation
        versions.append(nxt)
    form = rng.choice(FORMS)
    target = rng.choice(ents)
    eid = target["entity_id"]

    def at(v):
        return next((e for e in versions[v] if e["entity_id"] == eid), None)

    def ask():
        if side == "idp":
            if rng.random() < 0.75:
                acs0 = [ep for v in range(nv) if at(v) for ep in at(v)["spsso"]["acs"]]
                url, index, pb = gen_authn_fields(rng, acs0, [ep[1] for ep in acs0])
                return {"op": "pick", "service": "assertion_consumer_service",
                        "preferred": list(pref["assertion_consumer_service"]), "entity": eid,
                        "eps_v": [eps_of(at(v), "spsso", "acs") if at(v) else None for v in range(nv)],
                        "url": url, "index": index, "protocol_binding": pb,
                        "bindings_arg": [] if rng.random() < 0.6 else rng.sample(B, rng.randint(1, 3))}
            return {"op": "pick", "service": "single_logout_service", "preferred": list(pref["single_logout_service"]),
                    "entity": eid, "eps_v": [eps_of(at(v), "spsso", "slo") if at(v) else None for v in range(nv)],
                    "url": None, "index": None, "protocol_binding": None,
                    "bindings_arg": rng.sample([S.BINDING_POST, S.BINDING_REDIRECT, S.BINDING_SOAP], rng.randint(1, 3))}
        if rng.random() < 0.6:
            return {"op": "sso", "entity": eid, "binding": rng.choice([S.BINDING_POST, S.BINDING_REDIRECT, S.BINDING_ARTIFACT]),
                    "eps_v": [eps_of(at(v), "idpsso", "sso") if at(v) else None for v in range(nv)],
                    "via": rng.choice(["_sso_location", "prepare_for_authenticate"])}
        return {"op": "negotiate", "entity": eid, "binding": None, "to_try": [S.BINDING_REDIRECT, S.BINDING_POST],
                "eps_v": [eps_of(at(v), "idpsso", "sso") if at(v) else None for v in range(nv)]}

    pool = [ask() for _ in range(rng.randint(1, 3))]  # few distinct look-ups, repeated along the history
    steps, cur = [], 0
    for _ in range(rng.randint(3, 9)):
        c = rng.randrange(10)
        if c < 5:
            steps.append({"t": "ask", "q": rng.choice(pool)})
        elif c < 7:
            nxt = rng.choice([v for v in range(nv) if v != cur] + [None] * (1 if rng.random() < 0.3 else 0))
            steps.append({"t": "write", "v": nxt})
            cur = nxt if nxt is not None else cur
        else:
            steps.append({"t": "reload"})
    steps.append({"t": "ask", "q": rng.choice(pool)})
    return {"op": "hist", "side": side, "form": form, "init": 0, "versions": versions, "pref": pref_cfg, "steps": steps}


def random_r5(rng, pref, pref_cfg):
    return {"sps": [enrich(rng, gen_sp_entity(rng, k)) for k in range(rng.randint(1, 3))],
            "idps": [enrich(rng, gen_idp_entity(rng, k)) for k in range(rng.randint(1, 3))],
            "sp_only": enrich(rng, gen_sp_entity(rng, 8)), "idp_only": enrich(rng, gen_idp_entity(rng, 9))}


def gen_cases(rng, tier):
    n_md = 12 if tier == "quick" else 80
    per = 60 if tier == "quick" else 150
    from saml2.config import PREFERRED_BINDING  # the code's current table, read on every run

    # A NAMED entity that is not an identity provider in the metadata (unknown, or known only as a service provider), beside
    # one or two real IdPs that have an endpoint for every binding asked for: nothing may be chosen (in particular not the
    # "only IdP there is" default that applies when no entity is named).
    for n_idp in (1, 2):
        idps = []
        for k in range(n_idp):
            e = gen_idp_entity(rng, k)
            e["idpsso"]["sso"] = [(b, "https://idp%d.c08.example/sso/%d" % (k, i))
                                  for i, b in enumerate([S.BINDING_POST, S.BINDING_REDIRECT, S.BINDING_ARTIFACT])]
            idps.append(e)
        sp_only = gen_sp_entity(rng, 7)
        for mdl in (idps, idps + [sp_only]):
            for ent in ["https://unknown.c08.example/idp"] + ([sp_only["entity_id"]] if mdl is not idps else []):
                for b in (S.BINDING_POST, S.BINDING_REDIRECT, S.BINDING_ARTIFACT):
                    for via in ("_sso_location", "prepare_for_authenticate"):
                        yield {"op": "sso", "md": {"idps": mdl}, "entity": ent, "eps": None, "binding": b, "via": via}
                for b in (None, S.BINDING_POST, S.BINDING_REDIRECT):
                    yield {"op": "negotiate", "md": {"idps": mdl}, "entity": ent, "eps": None, "binding": b,
                           "to_try": [b] if b else [S.BINDING_REDIRECT, S.BINDING_POST]}
    for m in range(n_md):
        pref_cfg = None
        if rng.random() < 0.5:
            pref_cfg = {"assertion_consumer_service": rng.sample(B[:4], rng.randint(1, 3)),
                        "single_logout_service": rng.sample([S.BINDING_POST, S.BINDING_REDIRECT, S.BINDING_SOAP], rng.randint(1, 3)),
                        # a configured table REPLACES the default one (a service left out raises KeyError): configure all
                        "manage_name_id_service": rng.sample([S.BINDING_POST, S.BINDING_REDIRECT, S.BINDING_SOAP], rng.randint(1, 3)),
                        "single_sign_on_service": rng.sample([S.BINDING_POST, S.BINDING_REDIRECT, S.BINDING_ARTIFACT, S.BINDING_SOAP], rng.randint(1, 3)),
                        "attribute_consuming_service": rng.sample(B[:3], rng.randint(1, 2))}
        pref = dict(PREFERRED_BINDING)
        pref.update(pref_cfg or {})
        sps = [gen_sp_entity(rng, k) for k in range(rng.randint(1, 3))]
        idps = [gen_idp_entity(rng, k) for k in range(rng.randint(1, 3))]
        all_acs = [ep[1] for e in sps for ep in e["spsso"]["acs"]]
        # round 5: request classes x entity roles, pick_binding without descriptor type, no entity id, histories
        r5 = random_r5(rng, pref, pref_cfg)
        for _ in range(40 if tier == "quick" else 120):
            c = rng.randrange(10)
            if c < 4:
                side = rng.choice(["idp", "sp"])
                yield gen_rargs(rng, side, r5["sps"] if side == "idp" else r5["idps"],
                                [r5["idp_only"]] if side == "idp" else [r5["sp_only"]], pref, pref_cfg)
            elif c < 6:
                side = rng.choice(["idp", "sp"])
                yield gen_pickdirect(rng, side, r5["sps"] if side == "idp" else r5["idps"],
                                     [r5["idp_only"]] if side == "idp" else [r5["sp_only"]], pref, pref_cfg)
            elif c < 7:
                yield gen_sso_any(rng, r5["idps"], r5["sp_only"])
            else:
                side = rng.choice(["idp", "sp"])
                yield gen_hist(rng, side, r5["sps"] if side == "idp" else r5["idps"], pref, pref_cfg)
        # transport of back-channel logout under every transport configuration
        for ent in idps:
            if any(ep[0] == S.BINDING_SOAP for ep in ent["idpsso"]["slo"]):
                for http_cfg in ({}, {"verify_ssl_cert": True}, {"ca_certs": S.cert_path("idp_sign")},
                                 {"verify_ssl_cert": True, "ca_certs": S.cert_path("idp_sign")},
                                 {"verify_ssl_cert": True, "ca_certs": S.cert_path("idp_sign"), "key_file": S.key_path("sp"),
                                  "cert_file": S.cert_path("sp")},
                                 {"http_client_timeout": 5}):
                    yield {"op": "slo_transport", "md": {"idps": idps, "pref": pref_cfg}, "entity": ent["entity_id"],
                           "eps": eps_of(ent, "idpsso", "slo"), "http_cfg": http_cfg}
        for _ in range(per):
            kind = rng.choice(["pick", "pick", "pick", "pick_slo", "sso", "negotiate", "slo", "slo_multi", "verify_return", "verify_return"])
            if kind == "pick":
                unknown = rng.random() < 0.08
                ent = rng.choice(sps)
                acs = ent["spsso"]["acs"]
                c = rng.randrange(8)
                if c == 0:
                    url = None
                elif c in (1, 2, 3):
                    url = rng.choice(acs)[1]
                elif c == 4:
                    url = rng.choice(all_acs)  # possibly another SP's
                elif c == 5:
                    url = "https://evil.example/acs"
                elif c == 6:
                    url = lookalikes(rng, rng.choice(acs)[1])
                else:
                    url = ""
                c = rng.randrange(6)
                index = None if c < 2 else rng.choice(acs)[2] if c < 4 else rng.choice(["99", "abc", "", "-1", "00"])
                c = rng.randrange(6)
                pb = None if c < 2 else rng.choice(acs)[0] if c < 4 else rng.choice(
                    B + ["urn:bogus:binding", "", rng.choice(acs)[0] + "-SimpleSign", rng.choice(acs)[0][:-1],
                         rng.choice(acs)[0].upper(), "x" + rng.choice(acs)[0], rng.choice(acs)[0] + " "])
                c = rng.randrange(4)
                barg = [] if c < 2 else rng.sample(B, rng.randint(1, 3))
                yield {"op": "pick", "md": {"sps": sps, "pref": pref_cfg}, "service": "assertion_consumer_service",
                       "preferred": list(pref["assertion_consumer_service"]),
                       "entity": "https://unknown.c08.example/sp" if unknown else ent["entity_id"],
                       "eps": None if unknown else eps_of(ent, "spsso", "acs"),
                       "url": url, "index": index, "protocol_binding": pb, "bindings_arg": barg}
            elif kind == "pick_slo":
                ent = rng.choice(sps)
                # response_args(LogoutRequest, bindings=None) raises AttributeError in pysaml2
                # (LogoutRequest has no protocol_binding); callers always pass a binding list.
                barg = rng.sample([S.BINDING_POST, S.BINDING_REDIRECT, S.BINDING_SOAP], rng.randint(1, 3))
                yield {"op": "pick", "md": {"sps": sps, "pref": pref_cfg}, "service": "single_logout_service",
                       "preferred": list(pref["single_logout_service"]),
                       "entity": ent["entity_id"], "eps": eps_of(ent, "spsso", "slo"),
                       "url": None, "index": None, "protocol_binding": None, "bindings_arg": barg}
            elif kind == "sso":
                unknown = rng.random() < 0.1
                ent = rng.choice(idps)
                yield {"op": "sso", "md": {"idps": idps},
                       "entity": "https://unknown.c08.example/idp" if unknown else ent["entity_id"],
                       "eps": None if unknown else eps_of(ent, "idpsso", "sso"),
                       "binding": rng.choice([S.BINDING_POST, S.BINDING_REDIRECT, S.BINDING_ARTIFACT, "urn:bogus",
                                              S.BINDING_POST + "-SimpleSign", S.BINDING_REDIRECT[:-1], S.BINDING_POST.upper()]),
                       "via": rng.choice(["_sso_location", "prepare_for_authenticate"])}
            elif kind == "negotiate":
                unknown = rng.random() < 0.1
                ent = rng.choice(idps)
                b = rng.choice([None, None, None, S.BINDING_POST, S.BINDING_REDIRECT, S.BINDING_ARTIFACT])
                yield {"op": "negotiate", "md": {"idps": idps},
                       "entity": "https://unknown.c08.example/idp" if unknown else ent["entity_id"],
                       "eps": None if unknown else eps_of(ent, "idpsso", "sso"), "binding": b,
                       "to_try": [b] if b else [S.BINDING_REDIRECT, S.BINDING_POST]}
            elif kind == "slo":
                ent = rng.choice(idps)
                c = rng.randrange(5)
                exp = None if c < 2 else rng.choice([S.BINDING_POST, S.BINDING_REDIRECT, S.BINDING_SOAP, "urn:bogus", ""])
                yield {"op": "slo", "md": {"idps": idps, "pref": pref_cfg}, "entity": ent["entity_id"],
                       "preferred": list(pref["single_logout_service"]),
                       "eps": eps_of(ent, "idpsso", "slo"), "expected": exp}
            elif kind == "slo_multi":
                ents = [rng.choice(idps) for _ in range(rng.randint(2, 3))]
                c = rng.randrange(5)
                exp = None if c < 3 else rng.choice([S.BINDING_POST, S.BINDING_REDIRECT, S.BINDING_SOAP])
                yield {"op": "slo_multi", "md": {"idps": idps, "pref": pref_cfg}, "entities": [e["entity_id"] for e in ents],
                       "preferred": list(pref["single_logout_service"]),
                       "targets": [eps_of(e, "idpsso", "slo") for e in ents], "expected": exp}
            else:
                ent = rng.choice(sps)
                disco = ent["spsso"]["disco"]
                c = rng.randrange(6)
                if disco and c < 2:
                    url = rng.choice(disco) + rng.choice(["", "&entityID=x", "/more", "?q=1"])
                elif disco and c == 2:
                    url = lookalikes(rng, rng.choice(disco))
                elif disco and c == 3:
                    d0 = rng.choice(disco)
                    # diverge exactly at the end of the registered location (trailing slash, last characters)
                    url = rng.choice([d0[:-3], d0.rstrip("/") + ".evil.example/x", d0.rstrip("/") + "@evil.example/",
                                      d0.rstrip("/") + "x/steal", d0[:-1], d0.rstrip("/")])
                else:
                    url = rng.choice(["https://evil.example/", "", "https://sp0.c08.example/"])
                yield {"op": "verify_return", "md": {"sps": sps}, "entity": ent["entity_id"], "disco": disco, "url": url}


# ------------------------------------------------------------------ implementation side


def _idp(md):
    key = ("idp", repr(md))
    if key not in _state:
        if len(_state) > 6:
            _state.clear()
        extra = {"preferred_binding": md["pref"]} if md.get("pref") else {}
        _state[key] = S.make_idp(S.idp_config(sp_entities=md["sps"], **extra))
    return _state[key]


def _sp(md):
    key = ("sp", repr(md))
    if key not in _state:
        if len(_state) > 6:
            _state.clear()
        extra = {"preferred_binding": md["pref"]} if md.get("pref") else {}
        _state[key] = S.make_sp(S.sp_config(idp_entities=md["idps"], **extra))
    return _state[key]


def _disco(md):
    key = ("disco", repr(md))
    if key not in _state:
        if len(_state) > 6:
            _state.clear()
        from saml2.config import Config
        from saml2.discovery import DiscoveryServer

        c = Config()
        c.load({"entityid": "https://disco.c08.example/ds", "service": {"disco": {}},
                "metadata": {"inline": [S.metadata_xml(md["sps"])]}, "xmlsec_binary": S.xmlsec_standin.BINARY})
        _state[key] = DiscoveryServer(config=c)
    return _state[key]


def run_impl(case):
    from saml2 import saml, samlp

    op = case["op"]
    if op == "pick":
        return _do_pick(_idp(case["md"]), case)
    if op == "sso":
        return _do_sso(_sp(case["md"]), case)
    if op == "negotiate":
        return _do_negotiate(_sp(case["md"]), case)
    if op == "rargs":
        return _do_rargs(_idp(case["md"]) if case["side"] == "idp" else _sp(case["md"]), case)
    if op == "pickdirect":
        return _do_pickdirect(case)
    if op == "sso_any":
        return _do_sso(_sp(case["md"]), case)
    if op == "hist":
        return _do_hist(case)
    if op == "slo_transport":
        # back-channel (SOAP) logout is the one case in which the library itself transmits: observe the HTTP call it makes
        # (URL and whether redirects would be followed) for several transport configurations
        import saml2.httpbase as HB

        extra = dict(case.get("http_cfg") or {})
        if case["md"].get("pref"):
            extra["preferred_binding"] = case["md"]["pref"]
        sp = S.make_sp(S.sp_config(idp_entities=case["md"]["idps"], **extra))
        calls = []

        class _Resp:
            status_code = 307
            text = ""
            headers = {"location": "https://collector.evil.example/collect"}
            cookies = []

        def fake_request(method, url, **kw):
            calls.append({"url": url, "follow": kw.get("allow_redirects", True) is not False})
            return _Resp()

        orig = HB.requests.request
        HB.requests.request = fake_request
        nid = saml.NameID(text="subject-1", format=saml.NAMEID_FORMAT_TRANSIENT)
        try:
            with S.clock(S.NOW0):
                sp.do_logout(nid, [case["entity"]], "r", S.fmt_time(S.NOW0 + 600), sign=False, expected_binding=S.BINDING_SOAP)
        except Exception:
            pass
        finally:
            HB.requests.request = orig
        return {"r": "done", "calls": calls}
    if op == "slo":
        sp = _sp(case["md"])
        sent = []
        sp.send = lambda url=None, **kw: sent.append(url)
        nid = saml.NameID(text="subject-1", format=saml.NAMEID_FORMAT_TRANSIENT)
        try:
            with S.clock(S.NOW0):
                res = sp.do_logout(nid, [case["entity"]], "r", S.fmt_time(S.NOW0 + 600), sign=False,
                                   expected_binding=case["expected"])
        except Exception as e:
            if sent:
                return {"r": "ok", "binding": S.BINDING_SOAP, "dest": sent[0]}
            if type(e).__name__ == "LogoutError":
                return {"r": "skipped"}
            return {"r": "refused"}
        if case["entity"] in res and isinstance(res[case["entity"]], tuple):
            b, info = res[case["entity"]]
            return {"r": "ok", "binding": b, "dest": _dest_of(info, b)}
        if sent:
            return {"r": "ok", "binding": S.BINDING_SOAP, "dest": sent[0]}
        return {"r": "skipped"}
    if op == "slo_multi":
        sp = _sp(case["md"])
        sp.send = lambda url=None, **kw: None
        nid = saml.NameID(text="subject-1", format=saml.NAMEID_FORMAT_TRANSIENT)
        ents = case["entities"]
        made, bound = [], []
        orig_clr, orig_ab = sp.create_logout_request, sp.apply_binding

        def clr(destination, issuer_entity_id, *a, **kw):
            made.append((issuer_entity_id, destination))
            return orig_clr(destination, issuer_entity_id, *a, **kw)

        def ab(binding, msg_str, destination="", *a, **kw):
            info = orig_ab(binding, msg_str, destination, *a, **kw)
            bound.append((binding, _dest_of(info, binding)))
            return info

        sp.create_logout_request, sp.apply_binding = clr, ab
        try:
            with S.clock(S.NOW0):
                sp.do_logout(nid, list(ents), "r", S.fmt_time(S.NOW0 + 600), sign=False, expected_binding=case["expected"])
        except Exception as e:
            if type(e).__name__ != "LogoutError":  # LogoutError: every entity was handled, some SOAP calls unanswered
                return {"r": "exception"}
        finally:
            sp.create_logout_request, sp.apply_binding = orig_clr, orig_ab
        per, k = [], 0
        for eid in ents:
            if k < len(made) and k < len(bound) and made[k][0] == eid:
                per.append({"r": "ok", "binding": bound[k][0], "dest": bound[k][1]})
                k += 1
            else:
                per.append({"r": "skipped"})
        return {"r": "done", "per_entity": per}
    if op == "verify_return":
        ds = _disco(case["md"])
        try:
            return {"approved": bool(ds.verify_return(case["entity"], case["url"]))}
        except Exception:  # no discovery-response endpoint registered: lookup raises = not approved
            return {"approved": False}
    raise ValueError(op)


def _do_pick(idp, case):
    from saml2 import saml, samlp

    issuer = saml.Issuer(text=case["entity"])
    if case["service"] == "assertion_consumer_service":
        req = samlp.AuthnRequest(id="id-1", issuer=issuer,
                                 assertion_consumer_service_url=case["url"],
                                 assertion_consumer_service_index=case["index"],
                                 protocol_binding=case["protocol_binding"])
    else:
        req = samlp.LogoutRequest(id="id-1", issuer=issuer)
    try:
        info = idp.response_args(req, bindings=case["bindings_arg"] or None)
    except Exception as e:
        return {"r": "refused"}
    if info.get("destination") is None:
        return {"r": "ok", "binding": info["binding"], "dest": None}
    return {"r": "ok", "binding": info["binding"], "dest": info["destination"]}


def _do_sso(sp, case):
    try:
        if case["via"] == "_sso_location":
            d = sp._sso_location(case["entity"], case["binding"])
        elif case["via"] == "sso_location":
            d = sp.sso_location(case["entity"], case["binding"])
        else:
            with S.clock(S.NOW0):
                rid, info = sp.prepare_for_authenticate(case["entity"], binding=case["binding"], sign=False)
            d = _dest_of(info, case["binding"])
    except Exception:
        return {"dest": None}
    return {"dest": d}


def _do_negotiate(sp, case):
    try:
        with S.clock(S.NOW0):
            rid, b, info = sp.prepare_for_negotiated_authenticate(case["entity"], binding=case["binding"], sign=False)
        d = _dest_of(info, b)
    except Exception:
        return {"r": "refused"}
    return {"r": "ok", "binding": b, "dest": d}


def _request_of(case):
    from saml2 import saml, samlp

    issuer = saml.Issuer(text=case["entity"])
    kind = case["kind"]
    if kind == "authn":
        return samlp.AuthnRequest(id="id-1", issuer=issuer, assertion_consumer_service_url=case["url"],
                                  assertion_consumer_service_index=case["index"], protocol_binding=case["protocol_binding"])
    if kind == "logout":
        return samlp.LogoutRequest(id="id-1", issuer=issuer)
    if kind == "attr_query":
        return samlp.AttributeQuery(id="id-1", issuer=issuer)
    if kind == "manage_nameid":
        return samlp.ManageNameIDRequest(id="id-1", issuer=issuer)
    if kind.startswith("soap_only:"):
        return getattr(samlp, kind.split(":")[1])(id="id-1", issuer=issuer)
    return samlp.AuthzDecisionQuery(id="id-1", issuer=issuer)


def _do_rargs(ent, case):
    req = _request_of(case)
    try:
        info = ent.response_args(req, bindings=case["bindings_arg"] or None)
    except Exception:  # SAMLError / UnknownSystemEntity / KeyError on AttributeConsumingService entries: no answer is addressed
        return {"r": "refused"}
    if "binding" not in info and "destination" not in info:
        return {"r": "nodest"}
    return {"r": "ok", "binding": info.get("binding"), "dest": info.get("destination")}


def _sp_paos(md):
    key = ("sp_paos", repr(md))
    if key not in _state:
        if len(_state) > 6:
            _state.clear()
        extra = {"preferred_binding": md["pref"]} if md.get("pref") else {}
        ep = {"endpoints": {"assertion_consumer_service": [(S.SP_ACS_POST, S.BINDING_POST),
                                                           ("https://sp.c08.example/paos", S.BINDING_PAOS)]}}
        _state[key] = S.make_sp(S.sp_config(idp_entities=md["idps"], sp=ep, **extra))
    return _state[key]


def _do_pickdirect(case):
    if case["via"] == "ecp":
        sp = _sp_paos(case["md"])
        kw = {"binding": case["binding"]} if case["binding"] else {}
        try:
            with S.clock(S.NOW0):
                rid, env = sp.create_ecp_authn_request(case["entity"], "rs", sign=False, **kw)
        except Exception:
            return {"r": "refused"}
        import html
        m = re.search(r'<[^<>]*AuthnRequest[^<>]* Destination="([^"]*)"', env)
        return {"r": "ok", "binding": case["bindings_arg"][0], "dest": html.unescape(m.group(1)) if m else None}
    ent = _idp(case["md"]) if case["side"] == "idp" else _sp(case["md"])
    try:
        b, d = ent.pick_binding(SVC_KEYS[case["service"]], case["bindings_arg"] or None, entity_id=case["entity"])
    except Exception:
        return {"r": "refused"}
    return {"r": "ok", "binding": b, "dest": d}


def _md_conf(form, workdir, xml):
    """The metadata configuration of `form` for the source content `xml` (files are (re)written in place)."""
    import os

    f = os.path.join(workdir, "md.xml")
    d = os.path.join(workdir, "dir")
    os.makedirs(d, exist_ok=True)

    def w(path):
        with open(path, "w") as fp:
            fp.write(xml)
        return path

    if form == "local":
        return {"local": [w(f)]}
    if form == "local_dir":
        w(os.path.join(d, "a.xml"))
        return {"local": [d]}
    if form == "inline":
        return {"inline": [xml]}
    if form == "class_file":
        return [{"class": "saml2.mdstore.MetaDataFile", "metadata": [(w(f),)]}]
    if form == "class_dir":
        w(os.path.join(d, "a.xml"))
        return [{"class": "saml2.mdstore.MetaDataFile", "metadata": [(d,)]}]
    if form == "class_inmem":
        return [{"class": "saml2.mdstore.InMemoryMetaData", "metadata": [(xml,)]}]
    raise ValueError(form)


def _do_hist(case):
    import shutil
    import tempfile

    workdir = tempfile.mkdtemp(prefix="c08hist")
    try:
        xml = [S.metadata_xml(v) for v in case["versions"]]
        extra = {"preferred_binding": case["pref"]} if case.get("pref") else {}
        conf = _md_conf(case["form"], workdir, xml[case["init"]])
        if case["side"] == "idp":
            ent = S.make_idp(S.idp_config(sp_entities=case["versions"][0], metadata=conf, **extra))
        else:
            ent = S.make_sp(S.sp_config(idp_entities=case["versions"][0], metadata=conf, **extra))
        outs = []
        for st in case["steps"]:
            if st["t"] == "write":
                conf = _md_conf(case["form"], workdir, xml[st["v"]] if st["v"] is not None else "<md:EntitiesDescriptor")
            elif st["t"] == "reload":
                outs.append({"reloaded": bool(ent.reload_metadata(conf))})
            else:
                q = st["q"]
                outs.append(_do_pick(ent, q) if q["op"] == "pick" else _do_sso(ent, q) if q["op"] == "sso" else _do_negotiate(ent, q))
        return {"outs": outs}
    finally:
        shutil.rmtree(workdir, ignore_errors=True)


def _dest_of(info, binding):
    """Where the browser / HTTP client is sent, read back from the prepared request."""
    if info.get("method") == "GET" or binding in (S.BINDING_REDIRECT, S.BINDING_ARTIFACT):
        loc = dict(info.get("headers") or []).get("Location") or info.get("url")
        # the registered location may itself carry a query string: cut where the SAML parameters start
        cut = min([i for i in (loc.find(k) for k in ("SAMLRequest=", "SAMLResponse=", "SAMLart=")) if i >= 0] or [len(loc)])
        return loc[:cut].rstrip("?&")
    if "data" in info and isinstance(info["data"], str) and "<form" in info["data"]:
        m = re.search(r'action="([^"]*)"', info["data"])
        import html
        return html.unescape(m.group(1))
    return info.get("url")


def compare(case, impl, model):
    if case["op"] == "slo_transport":
        return True  # no model outcome to compare: the Lean spec is evaluated on what the library transmitted
    return impl == model


def nontrivial(case, impl, lean):
    return lean.get("path") not in ("pick/unknown-entity",)


def finding_key(case, impl, lean):
    return None


def shrink(case):
    if case.get("op") == "hist":
        for i in range(len(case["steps"])):
            c = dict(case)
            c["steps"] = case["steps"][:i] + case["steps"][i + 1:]
            if any(st["t"] == "ask" for st in c["steps"]):
                yield c
        return
    for k in ("url", "index", "protocol_binding"):
        if case.get(k) is not None:
            c = dict(case)
            c[k] = None
            yield c
    if case.get("bindings_arg"):
        c = dict(case)
        c["bindings_arg"] = []
        yield c


def distribution(recs):
    d = {}
    for r in recs:
        k = r["case"]["op"] + ":" + str(r["impl"].get("r", r["impl"].get("dest") is not None if "dest" in r["impl"] else r["impl"].get("approved")))
        d[k] = d.get(k, 0) + 1
    return d
