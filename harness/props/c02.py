"""C02 — reported identity always comes from signature-covered content.

Genuinely signed Responses (Response-signed, assertion-signed, both) are produced through the
stand-in; the quantifier's surgery (XSW placements x ID policy x signature policy, duplicate
singleton children, Reference/transform/c14n rewrites, extra References / ds:Object, splices, text
edits, seeded random tree surgery) is applied to the XML tree; every variant goes through the real
Saml2Client.  Observables: (1) every SecurityContext._check_signature call (document, node name,
item id, schema verdict, result) -- compared with the Lean model `Xsw.checkSignature` on the abstract
tree of that very document; (1b) when assertion signatures are required, the sequence of assertion-level checks
of AuthnResponse.parse_assertion on the received and on the decrypted document -- compared with `Xsw.flow`
(Model/XswFlow.lean); (2) the end-to-end outcome -- the Lean spec demands: rejected, or the
reported data equal the original's."""
import base64
import copy
import json
import random
from xml.etree import ElementTree as ET

import scenario as S
import spflow as F
from standin import xmlsec_standin as X
from props import _sp_common as C

PROP = "C02"
LEAN_PROPS = "PysamlModel.Props.C02"
MODEL_TARGETS = ["PysamlModel.Model.Xsw", "PysamlModel.Model.XswFlow", "PysamlModel.Spec.C02"]
AUDIT = "PysamlModel/Audit/C02.lean"
DRIVER = "Drivers/C02.lean"
PARALLEL = True
CORRESPONDENCE = ("Drivers/C02.lean (Xsw.checkSignature) vs SecurityContext._check_signature, per call, on the abstract tree of the verified document; "
                  "Xsw.flow vs AuthnResponse.parse_assertion when assertion signatures are required: the sequence of assertion-level checks "
                  "(received / decrypted document, ID, result) the implementation made must be a prefix of the model's, equal to it when the "
                  "message is accepted, and the assertion reported must be the first one the model adopts")
RULE = ("systematic surgery on genuinely signed Responses: 8 carriers x {Response, Assertion} x ID policy {same, fresh, removed, case-changed, padded} x "
        "signature policy {copied, stripped, moved, original-then-fake}, duplicates of every singleton member on the signature path, Reference URI / "
        "transform / c14n / method rewrites, extra Reference / ds:Object, splices of two genuine messages, text edits; wrapping across the "
        "encryption boundary: 16 layouts of {original, doctored copy} x {clear, encrypted to the SP, encrypted to another key, clear inside an "
        "EncryptedAssertion wrapper} below the Response or below an Advice x ID policy x signature {copied, stripped}; plus seeded "
        "random surgery (incl. encrypting a random assertion / appending an encrypted doctored copy); distinct = distinct variant documents")
TRUSTED = C.TRUSTED_COMMON + [
    "the abstract tree sent to the model is built by the harness from the document text (xml.etree), with DigestValue / "
    "SignatureValue texts mapped to ideal leaves through the genuine signing events",
    "schema validity of the re-serialised item is taken from the real xmlschema run (input of the model)",
]
ASSUMPTIONS = ["the flow model covers one decryption stage (EncryptedData inside decrypted content: generated, judged by the spec, not compared with the flow model)",
               "the decrypted document given to the flow model is the text the implementation handed to decrypt_assertions (probe); that the k-th clear "
               "assertion of the re-serialised decrypted Response is the k-th clear assertion of the received one is the object model's business (C12)",
               "claims are relative to the stand-in's model of xmlsec1 (first ds:Signature in document order from the start node)"]

SAML = F.SAML
SAMLP = F.SAMLP
DS = "http://www.w3.org/2000/09/xmldsig#"
Q = lambda ns, n: "{%s}%s" % (ns, n)
KEYID = {"idp_sign": 1, "idp_sign2": 1, "attacker": 2, "member2": 3}

_state = {}


def setup():
    C.setup()
    install_probe()


# --------------------------------------------------------------------------- genuine messages


def genuine(kind, n=1):
    """kind: resp | assert | both | encassert (the signed assertion encrypted to the SP) -> signed XML text.
    n: 1, 2 two different users; 3: user 1 with a SessionNotOnOrAfter on the AuthnStatement"""
    key = (kind, n)
    if key in _genuine_cache:
        return _genuine_cache[key]
    enc = kind == "encassert"
    flavour = n
    if n == 3:
        n = 1
    if enc:
        kind = "assert"
    c = C.base_case(PROP, cfg={})
    r = c["resp"]
    r["id"] = "r-orig-%d" % n
    a = r["assertions"][0]
    a["id"] = "a-orig-%d" % n
    a["subject"]["name_id"] = "genuine-user-%d" % n
    a["attrs"] = [["urn:oid:2.5.4.42", "urn:oasis:names:tc:SAML:2.0:attrname-format:uri", "givenName", ["Alice%d" % n]],
                  ["urn:oid:2.5.4.4", "urn:oasis:names:tc:SAML:2.0:attrname-format:uri", "sn", ["Genuine"]]]
    r["sig"] = "valid" if kind in ("resp", "both") else "absent"
    a["sig"] = "valid" if kind in ("assert", "both") else "absent"
    if flavour == 3:
        r["id"] = "r-orig-3"
        a["id"] = "a-orig-3"
        for st in a.get("authn", []):
            st["session_nooa"] = S.NOW0 + 1234
    if enc:
        a["encrypted"] = True
    x = F.render_response(r)
    _genuine_cache[key] = x
    return x


_genuine_cache = {}


# --------------------------------------------------------------------------- abstract trees


def content_tree(e, skip, table):
    """abstract tree (JSON) of element e, minus the element object `skip`"""
    kids = []
    if e.text:
        kids.append({"x": e.text})
    for c in e:
        if c is not skip:
            kids.append(abstract(c, skip, table))
        if c.tail:
            kids.append({"x": c.tail})
    return {"t": e.tag, "a": sorted([k, v] for k, v in e.attrib.items()), "c": kids}


def abstract(e, skip, table):
    if e.tag in (Q(DS, "DigestValue"), Q(DS, "SignatureValue")) and len(e) == 0:
        raw = e.text or ""
        txt = "".join(raw.split())
        node = {"t": e.tag, "a": sorted([k, v] for k, v in e.attrib.items()), "c": []}
        if txt:
            node["c"] = [table.get(txt, {"j": txt[:16]})]
        if raw != txt:
            # white space inside the base64 text: ignored when THIS value is checked, but part of the
            # content when an outer signature covers this element
            node["c"].append({"x": "".join(ch for ch in raw if ch.isspace())})
        return node
    return content_tree(e, skip, table)


def learn_genuine(xml, table):
    """Record, for every ds:Signature of a genuinely signed document, the ideal meaning of its
    DigestValue / SignatureValue texts."""
    root = ET.fromstring(xml)
    parent = {c: p for p in root.iter() for c in p}
    sigs = [n for n in root.iter() if n.tag == Q(DS, "Signature")]
    # innermost first so that nested digests are known when an outer one is built
    sigs.sort(key=lambda s: -depth(s, parent))
    for sig in sigs:
        target = parent[sig]
        si = sig.find(Q(DS, "SignedInfo"))
        dv = si.find(Q(DS, "Reference")).find(Q(DS, "DigestValue"))
        table["".join(dv.text.split())] = {"d": content_tree(target, sig, table)}
        sv = sig.find(Q(DS, "SignatureValue"))
        key = KEYID["idp_sign"]
        table["".join(sv.text.split())] = {"s": key, "o": abstract(si, None, table)}


def depth(n, parent):
    d = 0
    while n in parent:
        n = parent[n]
        d += 1
    return d


# --------------------------------------------------------------------------- probe around _check_signature

_calls = []
_decr = []


def install_probe():
    import saml2.sigver as sv

    if getattr(sv, "_verif_c02_probe", False):
        return
    sv._verif_c02_probe = True
    orig_check = sv.SecurityContext._check_signature
    orig_schema = sv.validate_doc_with_schema

    def schema(doc):
        try:
            r = orig_schema(doc)
        except Exception:
            if _calls and "schema_ok" not in _calls[-1]:
                _calls[-1]["schema_ok"] = False
            raise
        if _calls and "schema_ok" not in _calls[-1]:
            _calls[-1]["schema_ok"] = True
        return r

    def check(self, decoded_xml, item, node_name=sv.NODE_NAME, origdoc=None, must=False, only_valid_cert=False, issuer=None):
        rec = {"doc": decoded_xml if isinstance(decoded_xml, str) else decoded_xml.decode("utf-8"),
               "node_name": node_name, "id": item.id}
        _calls.append(rec)
        try:
            r = orig_check(self, decoded_xml, item, node_name, origdoc, must=must, only_valid_cert=only_valid_cert, issuer=issuer)
        except sv.MissingKey:
            rec["result"] = False
            rec["no_key"] = True
            raise
        except Exception as e:
            rec["result"] = False
            rec["exc"] = type(e).__name__
            raise
        rec["result"] = True
        return r

    sv.validate_doc_with_schema = schema
    sv.SecurityContext._check_signature = check

    import saml2.response as rs

    orig_dec = rs.AuthnResponse.decrypt_assertions

    def dec(self, encrypted_assertions, decr_txt, issuer=None, verified=False):
        _decr.append({"txt": decr_txt if isinstance(decr_txt, str) else decr_txt.decode("utf-8"), "verified": bool(verified),
                      "at": len(_calls)})
        return orig_dec(self, encrypted_assertions, decr_txt, issuer=issuer, verified=verified)

    rs.AuthnResponse.decrypt_assertions = dec


# --------------------------------------------------------------------------- surgery

EVIL_NAME = "evil-user"


def evilise(e):
    """change what would be reported: NameID text and first attribute value"""
    for n in e.iter(Q(SAML, "NameID")):
        n.text = EVIL_NAME
    for n in e.iter(Q(SAML, "AttributeValue")):
        n.text = "Mallory"
        break


def find1(root, tag):
    return next(n for n in root.iter() if n.tag == tag)


def strip_sigs(e, direct_only=True):
    for s in [c for c in e if c.tag == Q(DS, "Signature")]:
        e.remove(s)


def carrier_insert(host_root, hidden, carrier, rng):
    """place `hidden` somewhere inside/around the element host_root according to `carrier`"""
    if carrier == "extensions":
        ext = ET.Element(Q(SAMLP, "Extensions"))
        ext.append(hidden)
        idx = 1 + sum(1 for c in host_root if c.tag in (Q(SAML, "Issuer"), Q(DS, "Signature")))
        host_root.insert(idx, ext)
    elif carrier == "status_detail":
        st = host_root.find(Q(SAMLP, "Status"))
        if st is None:
            return False
        sd = ET.SubElement(st, Q(SAMLP, "StatusDetail"))
        sd.append(hidden)
    elif carrier == "advice":
        a = host_root if host_root.tag == Q(SAML, "Assertion") else host_root.find(Q(SAML, "Assertion"))
        if a is None:
            return False
        adv = ET.Element(Q(SAML, "Advice"))
        adv.append(hidden)
        pos = [i for i, c in enumerate(a) if c.tag == Q(SAML, "Conditions")]
        a.insert(pos[0] + 1 if pos else len(a), adv)
    elif carrier == "object":
        sig = next((n for n in host_root.iter() if n.tag == Q(DS, "Signature")), None)
        if sig is None:
            return False
        ob = ET.SubElement(sig, Q(DS, "Object"))
        ob.append(hidden)
    elif carrier == "scd":
        scd = next((n for n in host_root.iter() if n.tag == Q(SAML, "SubjectConfirmationData")), None)
        if scd is None:
            return False
        scd.append(hidden)
    elif carrier == "attribute_value":
        av = next((n for n in host_root.iter() if n.tag == Q(SAML, "AttributeValue")), None)
        if av is None:
            return False
        av.append(hidden)
    elif carrier == "first_child":
        host_root.insert(0, hidden)
    elif carrier == "last_child":
        host_root.append(hidden)
    else:
        raise ValueError(carrier)
    return True


CARRIERS = ["extensions", "status_detail", "advice", "object", "scd", "attribute_value", "first_child", "last_child"]


def xsw_variant(xml, level, carrier, id_policy, sig_policy, rng, sig_pos="schema"):
    """level: Response | Assertion.  Returns XML text or None if not applicable."""
    root = ET.fromstring(xml)
    if level == "Response":
        orig = root
        evil = copy.deepcopy(root)
        hidden = copy.deepcopy(root)
    else:
        orig = root.find(Q(SAML, "Assertion"))
        evil = copy.deepcopy(orig)
        hidden = copy.deepcopy(orig)
    has_sig = any(c.tag == Q(DS, "Signature") for c in orig)
    if not has_sig and sig_policy != "stripped":
        return None
    evilise(evil)
    if id_policy == "fresh":
        evil.set("ID", "evil-" + orig.get("ID"))
    elif id_policy == "removed":
        evil.attrib.pop("ID", None)
    elif id_policy == "case":
        evil.set("ID", orig.get("ID").swapcase())
    elif id_policy == "padded":
        evil.set("ID", orig.get("ID") + " ")
    if sig_policy == "stripped":
        strip_sigs(evil)
    elif sig_policy == "moved":
        strip_sigs(hidden)  # the signature stays on the evil element only
    elif sig_policy == "copied":
        pass  # both carry the original signature
    elif sig_policy == "orig_then_fake":
        # the F12 shape: evil keeps the original signature FIRST and a second one (its own Reference) LAST
        strip_sigs(hidden)
        sigs = [c for c in evil if c.tag == Q(DS, "Signature")]
        fake = copy.deepcopy(sigs[0])
        for ref in fake.iter(Q(DS, "Reference")):
            ref.set("URI", "#" + (evil.get("ID") or ""))
        evil.insert(list(evil).index(sigs[0]) + 1, fake)
    # nested copies must not carry the nested original again
    if level == "Response":
        if not carrier_insert(evil, hidden, carrier, rng):
            return None
        out = evil
    else:
        if carrier in ("first_child", "last_child", "advice", "object", "scd", "attribute_value"):
            if not carrier_insert(evil, hidden, carrier, rng):
                return None
            idx = list(root).index(orig)
            root.remove(orig)
            root.insert(idx, evil)
        else:
            # sibling placements inside the Response
            idx = list(root).index(orig)
            root.remove(orig)
            if carrier == "extensions":
                root.insert(idx, evil)
                if not carrier_insert(root, hidden, "extensions", rng):
                    return None
            else:
                root.insert(idx, evil)
                if not carrier_insert(root, hidden, "status_detail", rng):
                    return None
        out = root
    return ET.tostring(out, encoding="unicode")


def sibling_variant(xml, level, order, id_policy, sig_policy):
    """original as sibling before/after the evil copy (Assertion level: two Assertions in the Response)."""
    root = ET.fromstring(xml)
    orig = root.find(Q(SAML, "Assertion"))
    if orig is None:
        return None
    evil = copy.deepcopy(orig)
    evilise(evil)
    if id_policy == "fresh":
        evil.set("ID", "evil-" + orig.get("ID"))
    elif id_policy == "removed":
        evil.attrib.pop("ID", None)
    elif id_policy == "case":
        evil.set("ID", orig.get("ID").swapcase())
    elif id_policy == "padded":
        evil.set("ID", orig.get("ID") + " ")
    if sig_policy == "stripped":
        strip_sigs(evil)
    elif sig_policy == "moved":
        strip_sigs(orig)
    idx = list(root).index(orig)
    root.insert(idx if order == "evil_first" else idx + 1, evil)
    return ET.tostring(root, encoding="unicode")


# ---- wrapping across the encryption boundary

_enc_n = [0]


def enc_wrap(assertion, form):
    """-> <saml:EncryptedAssertion> carrying a copy of `assertion`.  form: enc (encrypted to the SP's certificate: anybody can do
    that) | enc_other (encrypted to a key the SP does not hold) | plain (left in clear inside the wrapper)"""
    a = copy.deepcopy(assertion)
    a.tail = None
    if form == "plain":
        ea = ET.Element(Q(SAML, "EncryptedAssertion"))
        ea.append(a)
        return ea
    scratch = ('<samlp:Response xmlns:samlp="%s" xmlns:saml="%s"><saml:EncryptedAssertion>%s</saml:EncryptedAssertion></samlp:Response>'
               % (SAMLP, SAML, ET.tostring(a, encoding="unicode")))
    out = F.encrypt_first_assertion(scratch, "sp_enc1" if form == "enc" else "attacker")
    ea = ET.fromstring(out).find(Q(SAML, "EncryptedAssertion"))
    _enc_n[0] += 1
    for n in ea.iter():
        if n.get("Id"):
            n.set("Id", "%s_%d" % (n.get("Id"), _enc_n[0]))
    ea.tail = None
    return ea


def apply_id_policy(evil, orig, id_policy):
    if id_policy == "fresh":
        evil.set("ID", "evil-" + orig.get("ID"))
    elif id_policy == "removed":
        evil.attrib.pop("ID", None)
    elif id_policy == "case":
        evil.set("ID", orig.get("ID").swapcase())
    elif id_policy == "padded":
        evil.set("ID", orig.get("ID") + " ")


# a layout: the assertion slots that replace the genuine assertion, in order.  slot = (who, form, advice) with who: orig | evil,
# form: clear | enc | enc_other | plain, advice: None or (who, form) placed below the slot's saml:Advice before the slot is wrapped
ENC_LAYOUTS = {
    "Eevil+orig": [("evil", "enc", None), ("orig", "clear", None)],
    "orig+Eevil": [("orig", "clear", None), ("evil", "enc", None)],
    "evil+Eorig": [("evil", "clear", None), ("orig", "enc", None)],
    "Eorig+evil": [("orig", "enc", None), ("evil", "clear", None)],
    "Eevil+Eorig": [("evil", "enc", None), ("orig", "enc", None)],
    "Eorig+Eevil": [("orig", "enc", None), ("evil", "enc", None)],
    "Eevil": [("evil", "enc", None)],
    "Pevil+Eorig": [("evil", "plain", None), ("orig", "enc", None)],
    "Eorig+Pevil": [("orig", "enc", None), ("evil", "plain", None)],
    "Pevil+orig": [("evil", "plain", None), ("orig", "clear", None)],
    "orig+Xevil": [("orig", "clear", None), ("evil", "enc_other", None)],
    "Xorig+Eevil": [("orig", "enc_other", None), ("evil", "enc", None)],
    "evil{Eorig}": [("evil", "clear", ("orig", "enc"))],
    "evil{Porig}+Eorig": [("evil", "clear", ("orig", "plain")), ("orig", "enc", None)],
    "E(evil{orig})": [("evil", "enc", ("orig", "clear"))],
    "E(evil{Eorig})": [("evil", "enc", ("orig", "enc"))],     # two decryption stages
}


def encwrap_variant(xml, layout, id_policy, sig_policy):
    """the genuine assertion and a doctored copy on the two sides of the encryption boundary"""
    root = ET.fromstring(xml)
    orig = root.find(Q(SAML, "Assertion"))
    if orig is None:
        return None
    if not any(c.tag == Q(DS, "Signature") for c in orig):
        return None
    evil = copy.deepcopy(orig)
    evilise(evil)
    apply_id_policy(evil, orig, id_policy)
    if sig_policy == "stripped":
        strip_sigs(evil)
    idx = list(root).index(orig)
    root.remove(orig)
    who = {"orig": orig, "evil": evil}
    out = []
    for (w, form, adv) in ENC_LAYOUTS[layout]:
        e = copy.deepcopy(who[w])
        e.tail = None
        if adv is not None:
            inner = copy.deepcopy(who[adv[0]])
            inner.tail = None
            if adv[1] != "clear":
                inner = enc_wrap(inner, adv[1])
            if not carrier_insert(e, inner, "advice", None):
                return None
        out.append(e if form == "clear" else enc_wrap(e, form))
    for k, e in enumerate(out):
        root.insert(idx + k, e)
    return ET.tostring(root, encoding="unicode")


SINGLETONS = [  # (parent tag, child tag)
    (Q(SAMLP, "Response"), Q(SAML, "Issuer")), (Q(SAMLP, "Response"), Q(DS, "Signature")), (Q(SAMLP, "Response"), Q(SAMLP, "Status")),
    (Q(SAML, "Assertion"), Q(SAML, "Issuer")), (Q(SAML, "Assertion"), Q(DS, "Signature")), (Q(SAML, "Assertion"), Q(SAML, "Subject")),
    (Q(SAML, "Assertion"), Q(SAML, "Conditions")), (Q(SAML, "Subject"), Q(SAML, "NameID")),
    (Q(DS, "Signature"), Q(DS, "SignedInfo")), (Q(DS, "Signature"), Q(DS, "SignatureValue")), (Q(DS, "Signature"), Q(DS, "KeyInfo")),
    (Q(DS, "SignedInfo"), Q(DS, "CanonicalizationMethod")), (Q(DS, "SignedInfo"), Q(DS, "SignatureMethod")),
    (Q(DS, "Reference"), Q(DS, "Transforms")), (Q(DS, "Reference"), Q(DS, "DigestMethod")), (Q(DS, "Reference"), Q(DS, "DigestValue")),
]


def duplicate_variant(xml, parent_tag, child_tag, evil_first, which, rng):
    root = ET.fromstring(xml)
    parents = [n for n in root.iter() if n.tag == parent_tag and any(c.tag == child_tag for c in n)]
    if not parents:
        return None
    p = parents[which % len(parents)]
    c = next(x for x in p if x.tag == child_tag)
    dup = copy.deepcopy(c)
    # make the duplicate differ in a way that matters
    if child_tag == Q(SAML, "NameID"):
        dup.text = EVIL_NAME
    elif child_tag == Q(SAML, "Subject"):
        evilise(dup)
    elif child_tag == Q(SAML, "Issuer"):
        dup.text = "https://evil.example/idp"
    elif child_tag == Q(SAML, "Conditions"):
        for a in dup.iter(Q(SAML, "Audience")):
            a.text = "https://other.example/sp"
        dup.set("NotOnOrAfter", S.fmt_time(S.NOW0 + 10 ** 7))
    elif child_tag == Q(DS, "Signature"):
        for ref in dup.iter(Q(DS, "Reference")):
            ref.set("URI", "#nothing")
    elif child_tag == Q(DS, "SignedInfo"):
        for ref in dup.iter(Q(DS, "Reference")):
            ref.set("URI", "#" + rng.choice(["x", "r-orig-1", "a-orig-1"]))
    elif child_tag in (Q(DS, "DigestValue"), Q(DS, "SignatureValue")):
        dup.text = base64.b64encode(b"garbage-garbage-garbage").decode()
    elif child_tag == Q(DS, "Transforms"):
        for t in list(dup):
            if t.get("Algorithm") == X.TRANSFORM_ENVELOPED:
                dup.remove(t)
    elif child_tag in (Q(DS, "CanonicalizationMethod"), Q(DS, "SignatureMethod"), Q(DS, "DigestMethod")):
        dup.set("Algorithm", "http://www.w3.org/TR/2001/REC-xml-c14n-20010315")
    elif child_tag == Q(SAMLP, "Status"):
        for sc in dup.iter(Q(SAMLP, "StatusCode")):
            sc.set("Value", "urn:oasis:names:tc:SAML:2.0:status:Responder")
    idx = list(p).index(c)
    p.insert(idx if evil_first else idx + 1, dup)
    return ET.tostring(root, encoding="unicode")


def rewrite_variant(xml, what, which, rng):
    root = ET.fromstring(xml)
    sigs = [n for n in root.iter() if n.tag == Q(DS, "Signature")]
    if not sigs:
        return None
    sig = sigs[which % len(sigs)]
    ref = next(sig.iter(Q(DS, "Reference")))
    si = sig.find(Q(DS, "SignedInfo"))
    if what == "uri_empty":
        ref.set("URI", "")
    elif what == "uri_missing":
        ref.attrib.pop("URI", None)
    elif what == "uri_other":
        ids = [n.get("ID") for n in root.iter() if n.get("ID")]
        ref.set("URI", "#" + rng.choice(ids))
    elif what == "uri_external":
        ref.set("URI", "http://evil.example/doc#x")
    elif what == "uri_space":
        ref.set("URI", ref.get("URI") + " ")
    elif what == "uri_hash_only":
        ref.set("URI", "#")
    elif what == "uri_case":
        ref.set("URI", ref.get("URI").swapcase())
    elif what == "drop_enveloped":
        ts = ref.find(Q(DS, "Transforms"))
        for t in list(ts):
            if t.get("Algorithm") == X.TRANSFORM_ENVELOPED:
                ts.remove(t)
    elif what == "extra_transform":
        ts = ref.find(Q(DS, "Transforms"))
        ET.SubElement(ts, Q(DS, "Transform"), {"Algorithm": rng.choice([
            "http://www.w3.org/TR/1999/REC-xpath-19991116", "http://www.w3.org/TR/1999/REC-xslt-19991116",
            "http://www.w3.org/2001/10/xml-exc-c14n#WithComments", "http://www.w3.org/TR/2001/REC-xml-c14n-20010315"])})
    elif what == "no_transforms":
        ref.remove(ref.find(Q(DS, "Transforms")))
    elif what == "c14n_method":
        si.find(Q(DS, "CanonicalizationMethod")).set("Algorithm", rng.choice([
            "http://www.w3.org/TR/2001/REC-xml-c14n-20010315", "http://www.w3.org/2001/10/xml-exc-c14n#WithComments", "urn:bogus"]))
    elif what == "digest_method":
        ref.find(Q(DS, "DigestMethod")).set("Algorithm", "http://www.w3.org/2001/04/xmlenc#sha256")
    elif what == "signature_method":
        si.find(Q(DS, "SignatureMethod")).set("Algorithm", "http://www.w3.org/2001/04/xmldsig-more#rsa-sha256")
    elif what == "extra_reference":
        r2 = copy.deepcopy(ref)
        ids = [n.get("ID") for n in root.iter() if n.get("ID")]
        r2.set("URI", "#" + rng.choice(ids))
        si.append(r2) if rng.random() < 0.5 else si.insert(list(si).index(ref), r2)
    elif what == "object":
        ob = ET.SubElement(sig, Q(DS, "Object"))
        ET.SubElement(ob, Q(SAML, "Assertion"), {"ID": "in-object", "Version": "2.0", "IssueInstant": S.fmt_time(S.NOW0)})
    elif what == "keyinfo_attacker":
        ki = sig.find(Q(DS, "KeyInfo"))
        if ki is not None:
            for c in ki.iter(Q(DS, "X509Certificate")):
                c.text = S.cert_b64("attacker")
    elif what == "flip_digest":
        dv = ref.find(Q(DS, "DigestValue"))
        dv.text = base64.b64encode(b"01234567890123456789").decode()
    elif what == "flip_sigvalue":
        sv = sig.find(Q(DS, "SignatureValue"))
        sv.text = sv.text[:-8] + "AAAAAA=="
    else:
        raise ValueError(what)
    return ET.tostring(root, encoding="unicode")


REWRITES = ["uri_case", "uri_empty", "uri_missing", "uri_other", "uri_external", "uri_space", "uri_hash_only", "drop_enveloped", "extra_transform",
            "no_transforms", "c14n_method", "digest_method", "signature_method", "extra_reference", "object", "keyinfo_attacker",
            "flip_digest", "flip_sigvalue"]


def edit_variant(xml, where, rng):
    root = ET.fromstring(xml)
    if where == "nameid":
        find1(root, Q(SAML, "NameID")).text = EVIL_NAME
    elif where == "attr":
        find1(root, Q(SAML, "AttributeValue")).text = "Mallory"
    elif where == "audience":
        find1(root, Q(SAML, "Audience")).text = S.SP_ID + "x"
    elif where == "nooa":
        find1(root, Q(SAML, "Conditions")).set("NotOnOrAfter", S.fmt_time(S.NOW0 + 10 ** 7))
    elif where == "issuer":
        find1(root, Q(SAML, "Issuer")).text = S.IDP2_ID
    elif where == "response_attr":
        root.set("Consent", "urn:oasis:names:tc:SAML:2.0:consent:unspecified")
    elif where == "ws_tail":
        find1(root, Q(SAML, "Subject")).tail = "\n  "
    elif where == "session_index":
        find1(root, Q(SAML, "AuthnStatement")).set("SessionIndex", "evil-session")
    elif where == "session_nooa":
        find1(root, Q(SAML, "AuthnStatement")).set("SessionNotOnOrAfter", S.fmt_time(S.NOW0 + 10 ** 7))
    elif where == "id":
        a = find1(root, Q(SAML, "Assertion"))
        a.set("ID", a.get("ID") + "x")
    return ET.tostring(root, encoding="unicode")


EDITS = ["nameid", "attr", "audience", "nooa", "issuer", "response_attr", "ws_tail", "session_index", "id"]


def splice_variant(xml1, xml2, how):
    r1, r2 = ET.fromstring(xml1), ET.fromstring(xml2)
    a1, a2 = r1.find(Q(SAML, "Assertion")), r2.find(Q(SAML, "Assertion"))
    if how == "swap_assertion":
        idx = list(r1).index(a1)
        r1.remove(a1)
        r1.insert(idx, a2)
    elif how == "append_assertion":
        r1.append(a2)
    elif how == "swap_signature":
        s1 = next((c for c in a1 if c.tag == Q(DS, "Signature")), None)
        s2 = next((c for c in a2 if c.tag == Q(DS, "Signature")), None)
        if s1 is None or s2 is None:
            return None
        idx = list(a1).index(s1)
        a1.remove(s1)
        a1.insert(idx, copy.deepcopy(s2))
    elif how == "response_sig_swap":
        s1 = next((c for c in r1 if c.tag == Q(DS, "Signature")), None)
        s2 = next((c for c in r2 if c.tag == Q(DS, "Signature")), None)
        if s1 is None or s2 is None:
            return None
        idx = list(r1).index(s1)
        r1.remove(s1)
        r1.insert(idx, copy.deepcopy(s2))
    return ET.tostring(r1, encoding="unicode")


def random_surgery(xml, rng, other_xml):
    root = ET.fromstring(xml)
    nodes = [n for n in root.iter()]
    parent = {c: p for p in root.iter() for c in p}
    for _ in range(rng.randint(1, 3)):
        op = rng.randrange(7 if ENCRYPTION_BOUNDARY else 6)
        n = rng.choice(nodes)
        if op == 0 and n in parent:  # duplicate
            p = parent[n]
            p.insert(rng.randrange(len(p) + 1), copy.deepcopy(n))
        elif op == 1 and n in parent:  # move
            p = parent[n]
            tgt = rng.choice(nodes)
            if tgt is not n and n not in list(tgt.iter()) and tgt not in list(n.iter()):
                p.remove(n)
                tgt.insert(rng.randrange(len(tgt) + 1), n)
                parent[n] = tgt
        elif op == 2 and n in parent:  # delete
            parent[n].remove(n)
            nodes = [x for x in root.iter()]
        elif op == 3:  # text edit
            n.text = (n.text or "") + rng.choice(["x", " ", "é"])
        elif op == 4 and n.attrib:  # attribute edit
            k = rng.choice(list(n.attrib))
            n.set(k, n.get(k) + rng.choice(["x", " ", ""]))
        elif op == 5:  # graft from the other genuine message
            o = ET.fromstring(other_xml)
            g = rng.choice([x for x in o.iter()])
            n.insert(rng.randrange(len(n) + 1), copy.deepcopy(g))
        elif op == 6:  # across the encryption boundary: encrypt an assertion where it stands / add an encrypted doctored copy
            asr = [x for x in nodes if x.tag == Q(SAML, "Assertion") and x in parent]
            if asr:
                a = rng.choice(asr)
                form = rng.choice(["enc", "enc", "plain", "enc_other"])
                if rng.random() < 0.4:
                    p = parent[a]
                    i = list(p).index(a)
                    p.remove(a)
                    p.insert(i, enc_wrap(a, form))
                else:
                    ev = copy.deepcopy(a)
                    evilise(ev)
                    apply_id_policy(ev, a, rng.choice(["same", "fresh", "removed", "case", "padded"]))
                    if rng.random() < 0.5:
                        strip_sigs(ev)
                    tgt = rng.choice([root, parent[a]])
                    tgt.insert(rng.randrange(len(tgt) + 1), enc_wrap(ev, form))
        nodes = [x for x in root.iter()]
        parent = {c: p for p in root.iter() for c in p}
    return ET.tostring(root, encoding="unicode")


# --------------------------------------------------------------------------- case generation

GENUINE_KINDS = ["resp", "assert", "both"]


def gen_cases(rng, tier):
    setup()
    gens = {k: genuine(k, 1) for k in GENUINE_KINDS}
    gens2 = {k: genuine(k, 2) for k in GENUINE_KINDS}
    seen = set()

    def emit(kind, xml, tag, cfg=None, key=None, n=1):
        if xml is None or (xml, key) in seen:
            return None
        seen.add((xml, key))
        return {"op": "xsw", "kind": kind, "n": n, "xml": xml, "tag": tag, "cfg": cfg or CFG_FOR[kind]}

    # genuine messages of the other shapes: the signed assertion encrypted to the SP; a session limit on the AuthnStatement
    c = emit("encassert", genuine("encassert", 1), "genuine")
    if c:
        yield c
    for kind in ("assert", "both"):
        g3 = genuine(kind, 3)
        c = emit(kind, g3, "genuine:session-limit", n=3)
        if c:
            yield c
        for where in ("session_nooa", "nameid", "nooa"):
            c = emit(kind, edit_variant(g3, where, rng), "edit3:" + where, n=3)
            if c:
                yield c
        for carrier in ("extensions", "advice", "last_child"):
            for sp in ("copied", "moved"):
                try:
                    v = xsw_variant(g3, "Assertion", carrier, "fresh", sp, rng)
                except (StopIteration, IndexError, ValueError):
                    v = None
                c = emit(kind, v, "xsw3:Assertion/%s/fresh/%s" % (carrier, sp), n=3)
                if c:
                    yield c
    # wrapping across the encryption boundary
    if ENCRYPTION_BOUNDARY:
        for kind in ("assert", "both"):
            for layout in ENC_LAYOUTS:
                for idp in (("same", "fresh", "removed", "case", "padded") if kind == "assert" else ("same", "fresh")):
                    for sp in (("copied", "stripped") if kind == "assert" else ("copied",)):
                        c = emit(kind, encwrap_variant(gens[kind], layout, idp, sp), "encwrap:%s/%s/%s" % (layout, idp, sp))
                        if c:
                            yield c

    for kind in GENUINE_KINDS:
        c = emit(kind, gens[kind], "genuine")
        if c:
            yield c
        for level in ("Response", "Assertion"):
            for carrier in CARRIERS:
                for idp in ("same", "fresh", "removed", "case", "padded"):
                    for sp in ("copied", "stripped", "moved", "orig_then_fake"):
                        try:
                            v = xsw_variant(gens[kind], level, carrier, idp, sp, rng)
                        except (StopIteration, IndexError, ValueError):
                            v = None
                        c = emit(kind, v, "xsw:%s/%s/%s/%s" % (level, carrier, idp, sp))
                        if c:
                            yield c
        for order in ("evil_first", "evil_last"):
            for idp in ("same", "fresh", "removed", "case", "padded"):
                for sp in ("copied", "stripped", "moved"):
                    c = emit(kind, sibling_variant(gens[kind], "Assertion", order, idp, sp), "sibling:%s/%s/%s" % (order, idp, sp))
                    if c:
                        yield c
        for (ptag, ctag) in SINGLETONS:
            for evil_first in (True, False):
                for which in (0, 1):
                    c = emit(kind, duplicate_variant(gens[kind], ptag, ctag, evil_first, which, rng),
                             "dup:%s>%s/%s/%d" % (ptag.split("}")[1], ctag.split("}")[1], evil_first, which))
                    if c:
                        yield c
        for what in REWRITES:
            for which in (0, 1):
                c = emit(kind, rewrite_variant(gens[kind], what, which, rng), "rewrite:%s/%d" % (what, which))
                if c:
                    yield c
        for where in EDITS:
            c = emit(kind, edit_variant(gens[kind], where, rng), "edit:" + where)
            if c:
                yield c
        # the same message as bytes in other encodings: unchanged (control) and with non-ASCII characters inserted
        # inside the signed region
        for enc in ("ISO-8859-1", "UTF-16", "cp1252"):
            c = emit(kind, gens[kind] + " ", "encoding:%s/unchanged" % enc, key=enc)
            if c:
                c["enc"] = enc
                yield c
            for ch in ("\u00e9", "\u00fc\u00df", "\u00a0"):
                root = ET.fromstring(gens[kind])
                nid = find1(root, Q(SAML, "NameID"))
                nid.text = (nid.text or "") + ch
                av = find1(root, Q(SAML, "AttributeValue"))
                av.text = (av.text or "") + ch
                c = emit(kind, ET.tostring(root, encoding="unicode"), "encoding:%s/edited-%s" % (enc, "+".join("%04x" % ord(x) for x in ch)), key=enc)
                if c:
                    c["enc"] = enc
                    yield c
        for how in ("swap_assertion", "append_assertion", "swap_signature", "response_sig_swap"):
            for k2 in GENUINE_KINDS:
                c = emit(kind, splice_variant(gens[kind], gens2[k2], how), "splice:%s/%s" % (how, k2))
                if c:
                    yield c
    n = 300 if tier == "quick" else 6000
    for i in range(n):
        kind = rng.choice(GENUINE_KINDS)
        try:
            v = random_surgery(gens[kind], rng, gens2[rng.choice(GENUINE_KINDS)])
        except Exception:
            continue
        c = emit(kind, v, "random")
        if c:
            yield c


# signature requirement matching what the genuine message carries ("when a signature is required")
CFG_FOR = {"resp": {"want_resp": True}, "assert": {"want_resp": False, "want_assert": True},
           "both": {"want_resp": True, "want_assert": True}, "encassert": {"want_resp": False, "want_assert": True}}
# wrapping variants across the encryption boundary in the systematic stream and in the random surgery
ENCRYPTION_BOUNDARY = True
# every genuine message whose report a variant may legitimately equal
ALL_GENUINE = [(k, n) for k in GENUINE_KINDS for n in (1, 2)] + [("assert", 3), ("both", 3), ("encassert", 1)]


# --------------------------------------------------------------------------- implementation side

_orig_reported = {}
_table = {}


def _prepare():
    if _table:
        return
    for (k, n) in ALL_GENUINE:
        if k != "encassert":      # its signature values are those of ("assert", 1): signing is deterministic
            learn_genuine(genuine(k, n), _table)


def run_sp_xml(xml, cfg, enc=None):
    sp = F.sp_for(cfg)
    from saml2.cache import Cache
    from saml2.population import Population

    sp.users = Population(Cache())
    del _calls[:]
    del _decr[:]
    n0 = len(X.LOG)
    if enc:
        # the document as BYTES in another encoding, with a matching declaration (what is verified and what is reported
        # must be the same bytes, whatever the encoding)
        raw = ('<?xml version="1.0" encoding="%s"?>' % enc).encode("ascii") + xml.encode(enc)
    else:
        raw = xml.encode("utf-8")
    msg = base64.b64encode(raw).decode("ascii")
    out = None
    with S.clock(S.NOW0):
        try:
            r = sp.parse_authn_request_response(msg, S.BINDING_POST, {"req-1": "/came/from/req-1"})
        except Exception as e:
            out = {"r": "rejected", "err": type(e).__name__}
        else:
            if r is None or (getattr(r, "name_id", None) is None and not r.ava):
                out = {"r": "none"}
            else:
                try:
                    si = r.session_info()
                except Exception:
                    si = {}
                conds = r.assertion.conditions if r.assertion is not None else None
                out = {"r": "identity", "name_id": r.name_id.text if r.name_id is not None else None,
                       "assertion_id": r.assertion.id if r.assertion is not None else None,
                       "ava": {k: list(v) for k, v in sorted((r.ava or {}).items())},
                       "issuer": si.get("issuer"), "not_on_or_after": si.get("not_on_or_after"),
                       "session_index": si.get("session_index"), "came_from": si.get("came_from"),
                       "audiences": sorted(a.text or "" for ar in (conds.audience_restriction if conds is not None else []) for a in ar.audience)}
    calls = [dict(c) for c in _calls]
    verifs = [dict(v) for v in X.LOG[n0:] if v.get("mode") == "verify"]
    _last["decr"] = [dict(d) for d in _decr]
    return out, calls, verifs


_last = {}


def find_item_path(root, node_name, item_id):
    ns, _, local = node_name.rpartition(":")
    tag = "{%s}%s" % (ns, local)
    if root.tag == tag and root.get("ID") == item_id:
        return []
    for i, c in enumerate(root):
        if c.tag == tag and c.get("ID") == item_id:
            return [i]
    for i, c in enumerate(root):
        for j, d in enumerate(c):
            if d.tag == tag and d.get("ID") == item_id:
                return [i, j]

    def walk(e, path):  # deeper (assertions below Advice / EncryptedAssertion): first in document order
        for i, c in enumerate(e):
            if c.tag == tag and c.get("ID") == item_id:
                return path + [i]
            r = walk(c, path + [i])
            if r is not None:
                return r
        return None

    return walk(root, [])


def tree_paths(e):
    """index paths in the ABSTRACT tree (text nodes count as children)"""
    # mapping element -> abstract child index
    idx = {}
    k = 0
    if e.text:
        k += 1
    for c in e:
        idx[c] = k
        k += 1
        if c.tail:
            k += 1
    return idx


def abstract_path(root, elem_path):
    p = []
    cur = root
    for i in elem_path:
        child = list(cur)[i]
        p.append(tree_paths(cur)[child])
        cur = child
    return p


def run_impl(case):
    _prepare()
    kind = case["kind"]
    if not _orig_reported:
        for (k, n) in ALL_GENUINE:
            o, _, _ = run_sp_xml(genuine(k, n), CFG_FOR[k])
            if o["r"] != "identity":
                raise RuntimeError("genuine message not accepted: %r" % (o,))
            o.pop("assertion_id", None)
            _orig_reported[(k, n)] = o
    out, calls, verifs = run_sp_xml(case["xml"], case["cfg"], case.get("enc"))
    decr = _last["decr"]
    adopted_id = out.pop("assertion_id", None)
    acalls = []
    for c in calls:
        try:
            root = ET.fromstring(c["doc"])
        except ET.ParseError:
            continue
        ep = find_item_path(root, c["node_name"], c["id"])
        ns, _, local = c["node_name"].rpartition(":")
        acalls.append({"tree": abstract(root, None, _table), "item_path": abstract_path(root, ep) if ep is not None else None,
                       "node_name": "{%s}%s" % (ns, local), "key": None if c.get("no_key") else 1,
                       "schema_ok": c.get("schema_ok", True), "result": c["result"], "exc": c.get("exc"),
                       "id": c["id"]})
    own_ok = all(v.get("sig_is_last_own", True) and v.get("n_sig_children", 1) == 1 for v in verifs if v.get("ok"))
    # what genuinely signed elements say: the original, or (splices) the second genuine message
    origs = [_orig_reported[(kind, case.get("n", 1))]] + [_orig_reported[(k, 2)] for k in GENUINE_KINDS]
    return {"outcome": out, "origs": origs, "calls": acalls, "own_sig_first": own_ok,
            "flow": flow_input(case, calls, decr, adopted_id)}


def flow_input(case, calls, decr, adopted_id):
    """what the flow model (Model/XswFlow.lean) is given and what the implementation did at assertion level"""
    if not case["cfg"].get("want_assert"):
        return None      # no signature required on assertions: Entity._parse_response runs verify() twice, not modelled
    try:
        recv = ET.fromstring(case["xml"])
    except ET.ParseError:
        return None
    first = decr[0]["at"] if decr else None
    a_name = SAML + ":Assertion"
    seen, hints = [], []
    for i, c in enumerate(calls):
        if c["node_name"] != a_name:
            continue
        d = first is not None and i >= first
        seen.append({"decr": d, "id": c["id"], "result": c["result"]})
        hints.append({"decr": d, "id": c["id"], "schema_ok": c.get("schema_ok", True), "key": None if c.get("no_key") else 1})
    skip = None
    dtree = None
    if decr:
        if any(d["verified"] for d in decr) or len(set(d["txt"] for d in decr)) > 1:
            skip = "two-stages"
        else:
            try:
                droot = ET.fromstring(decr[0]["txt"])
            except ET.ParseError:
                skip = "decrypted-text-unparsable"
            else:
                for ea in droot.iter(Q(SAML, "EncryptedAssertion")):
                    if any(ch.tag != Q(SAML, "Assertion") and ch.tag.startswith(("{%s}" % SAML, "{%s}" % SAMLP)) for ch in ea):
                        skip = "foreign-element-in-EncryptedAssertion"
                dtree = abstract(droot, None, _table)
    f = {"recv": abstract(recv, None, _table), "decr": dtree, "require_sig": True, "hints": hints, "seen": seen,
         "adopted_id": adopted_id}
    if skip:
        f["skip"] = skip
    return f


def compare(case, impl, model):
    if model is None:
        return False
    if [c["result"] for c in impl["calls"]] != model.get("calls"):
        return False
    fi, fm = impl.get("flow"), model.get("flow")
    if fi is None or fm is None or fm.get("skip"):
        return True
    mine = [[c["decr"], c["id"], c["result"]] for c in fi["seen"]]
    theirs = [[c["decr"], c["id"], c["result"]] for c in fm["calls"]]
    if mine != theirs[:len(mine)]:
        return False       # a check the model does not make, or one it makes and the implementation skipped / answered otherwise
    if impl["outcome"]["r"] == "identity":
        # accepted: every check of the model was made, the model adopts, and what is reported is the first adopted assertion
        return mine == theirs and fm["verdict"] == "adopted" and fm["adopted"][:1] == [fi["adopted_id"]]
    return True


def finding_key(case, impl, lean):
    """F12: accepted with data that differ from the original's while some successful verification
    used a ds:Signature that is not the item's own single Signature child."""
    out = impl["outcome"]
    if out.get("r") != "identity":
        return None
    if not impl.get("own_sig_first", True):
        return "C02/xsw-first-signature-not-own"
    # the Response envelope is not covered by any signature (assertion-signed message, Response
    # signature not required) and ONLY the reported issuer differs from a genuine record
    if case["kind"] == "assert":
        for o in impl["origs"]:
            if all(out.get(k) == o.get(k) for k in out if k != "issuer") and out.get("issuer") != o.get("issuer"):
                return "C02/issuer-from-unsigned-envelope"
    return None


def nontrivial(case, impl, lean):
    return bool(impl["calls"])


def flow_stats(recs):
    d = {}
    for r in recs:
        f = r["impl"].get("flow")
        k = "not-applicable" if f is None else ("skipped:" + f["skip"] if f.get("skip") else
                                                "compared/%s/%d-checks%s" % (r["impl"]["outcome"]["r"], len(f["seen"]),
                                                                            "/decrypted" if f.get("decr") is not None else ""))
        d[k] = d.get(k, 0) + 1
    return d


def distribution(recs):
    d = {}
    for r in recs:
        k = r["case"]["tag"].split(":")[0] + ":" + r["impl"]["outcome"]["r"] + ("" if r["impl"]["outcome"] in r["impl"]["origs"] or r["impl"]["outcome"]["r"] != "identity" else "/DIFFERENT")
        d[k] = d.get(k, 0) + 1
    for k, v in flow_stats(recs).items():
        d["flow:" + k] = v
    return d


def shrink(case):
    return []
