"""C17 — attribute names map to the wire and back without loss: correspondence harness.

Real code exercised: saml2.attribute_converter (ac_factory with and without a path,
AttributeConverter.from_dict/adjust/to_/to_eptid_value/ava_from/lcd_ava_from, from_local,
list_to_local), saml2.s_utils.do_ava/factory, and — for the cases marked "xml" — the serialisation of
saml.Attribute and its parsing back (what a received assertion goes through before
read_attribute_statement/to_local sees it).  Cases with a "glue" field run the same operations through the
code real entities put around the converters (config.Config.load_complex -> attribute_converters /
allow_unknown_attributes, assertion.Assertion.construct + Policy.get_name_form, response.AuthnResponse.
read_attribute_statement/get_identity, Server.create_authn_response/create_attribute_response,
Saml2Client.parse_authn_request_response); the Lean model is the same: the glue must be the identity on what
the converters return.  Glue to_local cases with "groups"/"layout" distribute the wire attributes over several
AttributeStatements, Advice assertions and (AuthnResponse object only) several assertions; the model is then
`getIdentity` (per statement `list_to_local`, merged with dict.update: a later statement replaces a local name
of an earlier one).  to_local cases whose values carry "xsi_type"/"nil" are written by the harness's own XML
writer (the AttributeValue forms peers send: xs:/xsd:/foreign/rebound/unprefixed types, matching and non-matching
lexical forms, xsi:nil) and parsed by saml.attribute_from_string; the model's `parsedText` says which local type
names convert (integer/short/int/long, float/double, boolean, date - the prefix is ignored by the code) with
Python's own int/float/strptime as an oracle per value, every other type preserves the text.

Case kinds (`op`):
  to_wire    identity -> wire attributes            (from_local / acs[i].to_)
  to_local   wire attributes -> local dictionary     (list_to_local)
  roundtrip  identity -> wire -> [XML] -> local      (same converter set on both sides)
  strops     the Lean string operations (lower/strip/str(int) on Nat codes) against Python's
Map sets: {"bundled": [indices into the ac_factory() order]} or {"custom": [map dictionaries]}
(custom sets are loaded through real map modules + ac_factory(path), or through from_dict).
"""
import json
import os
import shutil
import sys
import tempfile

PROP = "C17"
LEAN_PROPS = "PysamlModel.Props.C17"
MODEL_TARGETS = ["PysamlModel.Model.AttrConv", "PysamlModel.Model.AttrCode", "PysamlModel.Spec.C17"]
AUDIT = "PysamlModel/Audit/C17.lean"
DRIVER = "Drivers/C17.lean"
CORRESPONDENCE = ("Drivers/C17.lean (Model/AttrConv.lean on Model/AttrCode.natOps, Gen/AttrMaps.lean) vs "
                  "saml2.attribute_converter ac_factory/from_dict/to_/from_local/list_to_local + s_utils.do_ava")
RULE = ("every (map, attribute) pair of the bundled maps in both directions and as a round trip with the full "
        "set, the singleton set and the distinct-format subset; random custom map sets (two-directional, "
        "one-directional, aliases, several wire names per local name, asymmetric, case-colliding, shared "
        "formats, eduPersonTargetedID) x identities/statements mixing known, alias, case-variant, unknown, "
        "unspecified-format, nameless attributes x value lists (empty list, empty string, padded, unicode, "
        "booleans, integers, None, bare scalars) x allow_unknown_attributes x object/XML transport x "
        "{converters called directly, through Assertion.construct/AuthnResponse objects configured from a real "
        "SPConfig, through Server.create_*_response and Saml2Client.parse_authn_request_response} x container "
        "structure on receipt (1-4 attribute statements, Advice assertions, several assertions, empty statements, "
        "the same attribute in two statements) x AttributeValue wire forms (33 xsi:type values x matching / "
        "non-matching lexical forms x xsi:nil x padding); "
        "non-trivial = the model path is not a set-up error or a pure string-operation case")
TRUSTED = [
    "Gen/AttrMaps.lean is regenerated from the imported saml2.attributemaps modules by harness/translate/attrmaps.py",
    "strings are compared through an injective Nat code (1 followed by the UTF-8 bytes); Model/AttrCode.lean "
    "implements str.lower (ASCII letters only) and str.strip (Python's white-space set) on codes; both are "
    "checked against Python on every string of every case ('strops' cases and every comparison of results)",
    "XML serialisation/parsing of saml.Attribute (xml.etree / defusedxml) is exercised, not modelled (C12)",
    "AttributeValue typing (xsi:type / xsi:nil bookkeeping of saml.AttributeValueBase.set_text) is exercised, "
    "only the resulting text is modelled",
]
ASSUMPTIONS = [
    "attribute names, name formats and map keys contain no non-ASCII cased characters (str.lower is modelled "
    "as ASCII lower-casing; generated names are filtered accordingly, table strings are checked by the translator)",
    "values handed to the eduPersonTargetedID special case are scalars (dictionary items with "
    "NameQualifier/SPNameQualifier are not modelled on the sending side)",
    "extension elements inside received AttributeValues are saml:NameID elements (what to_eptid_value produces)",
    "cases run through real entities ('glue') use map sets an entity can be configured with (the bundled default or "
    "a directory of map modules), from_local's own choice of the sending converter, statements that can be "
    "serialised, and - for the full Saml2Client path - attributes with a non-empty Name; an absent attribute "
    "statement is read as None exactly when no map of the set has the requested name format",
    "typed AttributeValues: int()/float()/strptime and the boolean table are an oracle computed by the harness with "
    "the same Python built-ins; a statement with a value that does not fit its declared type is refused by the "
    "parser (model: raised, specification silent); mixed content inside AttributeValue is not generated (C12)",
    "EncryptedAttribute elements are not produced (the xmlsec1 stand-in has no text-encryption mode): "
    "AuthnResponse.decrypt_attributes runs on statements without encrypted attributes only; a Response carries "
    "exactly one assertion (the real client rejects any other number), several assertions are exercised on the "
    "AuthnResponse object only; every Advice assertion carries exactly one attribute statement",
    "eduPersonTargetedID values are text that XML 1.0 carries unchanged (ava_from serialises and re-parses the "
    "NameID elements); with XML transport the same holds for every value",
]
EXHAUSTIVE = False
PARALLEL = False

from translate import attrmaps as _tr  # noqa: E402

GEN = [_tr.generate]

UNSPEC = "urn:oasis:names:tc:SAML:2.0:attrname-format:unspecified"
URI = "urn:oasis:names:tc:SAML:2.0:attrname-format:uri"
BASIC = "urn:oasis:names:tc:SAML:2.0:attrname-format:basic"
EPTID_OID = "urn:oid:1.3.6.1.4.1.5923.1.1.1.10"
EPTID_LOCAL = "eduPersonTargetedID"
PERSISTENT = "urn:oasis:names:tc:SAML:2.0:nameid-format:persistent"

KEY_SHARED = "C17/bundled-maps-share-name-format"
KEY_CASE = "C17/case-colliding-map-keys"
KEY_EPTID = "C17/eptid-empty-value"

_state = {}


def setup():
    import scenario as S

    S.install()  # xmlsec1 stand-in + virtual clock for the cases that run through real entities


# ------------------------------------------------------------------ the map sets


def _bundled_raw():
    if "raw" not in _state:
        _state["raw"] = [m for (_t, _v, m) in _tr.bundled_maps()]
    return _state["raw"]


def _as_pairs(d):
    return None if d is None else [[k, v] for k, v in d.items()]


def raw_maps(case):
    """The map dictionaries of a case as {"identifier","to","fro"} with dicts (None when absent)."""
    m = case["maps"]
    if "bundled" in m:
        raw = _bundled_raw()
        return [{"identifier": raw[i]["identifier"], "to": raw[i].get("to"), "fro": raw[i].get("fro")} for i in m["bundled"]]
    res = []
    for d in m["custom"]:
        res.append({"identifier": d["identifier"],
                    "to": None if d.get("to") is None else dict(map(tuple, d["to"])),
                    "fro": None if d.get("fro") is None else dict(map(tuple, d["fro"]))})
    return res


def is_map(d):
    return d["to"] is not None or d["fro"] is not None


_counter = [0]


import contextlib  # noqa: E402


@contextlib.contextmanager
def _map_dir(maps):
    """A directory of real map modules for `maps` (what `attribute_map_dir` points at); the modules are
    unloaded and the directory removed on exit (the converters built meanwhile keep their tables)."""
    _counter[0] += 1
    d = tempfile.mkdtemp(prefix="c17maps_")
    names = []
    old = sys.dont_write_bytecode
    sys.dont_write_bytecode = True
    try:
        i = 0
        idx = 0
        while i < len(maps):
            # one or two maps per module, in order
            group = maps[i:i + (2 if (idx % 3 == 2) else 1)]
            name = "c17m%d_%03d" % (_counter[0], idx)
            names.append(name)
            with open(os.path.join(d, name + ".py"), "w", encoding="utf-8") as f:
                f.write("# generated by the C17 harness\n")
                for j, m in enumerate(group):
                    item = {"identifier": m["identifier"]}
                    if m["fro"] is not None:
                        item["fro"] = m["fro"]
                    if m["to"] is not None:
                        item["to"] = m["to"]
                    f.write("MAP%d = %r\n" % (j, item))
                f.write("NOT_A_MAP = {'to': {'x': 'y'}}\n__private = {'identifier': 'p', 'to': {'x': 'y'}}\n")
            i += len(group)
            idx += 1
        yield d
    finally:
        sys.dont_write_bytecode = old
        for n in names:
            sys.modules.pop(n, None)
        while d in sys.path:
            sys.path.remove(d)
        shutil.rmtree(d, ignore_errors=True)


def _acs_from_modules(maps):
    """Write real map modules and load them with ac_factory(path)."""
    from saml2.attribute_converter import ac_factory

    with _map_dir(maps) as d:
        return ac_factory(d)


# ------------------------------------------------------------------ the glue real entities put around the converters
#
# case["glue"]:
#   None        the converters are called directly (from_local / acs[i].to_ / list_to_local)
#   "objects"   send: assertion.Assertion(identity).construct(sp, config.attribute_converters, Policy(name_form))
#               receive: response.AuthnResponse(sec, config.attribute_converters, entity_id,
#                        allow_unknown_attributes=config.allow_unknown_attributes).read_attribute_statement /
#                        .get_identity();  the converters and the option come from a real SPConfig/IdPConfig
#                        (bundled maps, or attribute_map_dir pointing at real map modules)
#   "entities"  send: Server.create_authn_response / create_attribute_response (name_form from the IdP's policy)
#               receive: Saml2Client.parse_authn_request_response on the unsigned Response, `.ava`
# The Lean model is the same in every case: the glue must be the identity on what the converters return.

SP_GLUE = "https://sp.verif.example/sp"
AUTHN = {"class_ref": "urn:oasis:names:tc:SAML:2.0:ac:classes:Password", "authn_auth": "https://idp.verif.example/login"}


def _glue_cache(key, build):
    c = _state.setdefault("glue", {})
    if key not in c:
        if len(c) > 24:
            c.clear()
        c[key] = build()
    return c[key]


def _maps_key(case):
    return json.dumps(case["maps"], sort_keys=True)


def _with_map_conf(case, fn):
    """fn(extra_config) with `attribute_map_dir` set for custom map sets (the bundled maps are the default)."""
    if "bundled" in case["maps"]:
        return fn({})
    with _map_dir(raw_maps(case)) as d:
        return fn({"attribute_map_dir": d})


def _light_config(case, allow):
    import scenario as S
    from saml2.config import SPConfig

    def build():
        def load(extra):
            c = SPConfig()
            c.load(dict({"entityid": SP_GLUE, "service": {"sp": {}}, "xmlsec_binary": S.xmlsec_standin.BINARY,
                         "allow_unknown_attributes": allow}, **extra))
            return c
        return _with_map_conf(case, load)
    return _glue_cache(("conf", _maps_key(case), allow), build)


def _idp(case, nf):
    import scenario as S

    def build():
        pol = {"default": {"lifetime": {"minutes": 15}, "attribute_restrictions": None, "name_form": nf}}

        def make(extra):
            conf = S.idp_config(idp={"policy": pol}, **extra)
            # create_attribute_response takes its policy from the attribute-authority service
            conf["service"]["aa"] = {"endpoints": {"attribute_service": [("https://idp.verif.example/aa", S.BINDING_SOAP)]},
                                     "policy": pol}
            return S.make_idp(conf)
        return _with_map_conf(case, make)
    return _glue_cache(("idp", _maps_key(case), nf), build)


def _sp(case, allow):
    import scenario as S

    def build():
        sp = {"want_response_signed": False, "want_assertions_signed": False}
        return _with_map_conf(case, lambda extra: S.make_sp(S.sp_config(sp=sp, allow_unknown_attributes=allow, **extra)))
    return _glue_cache(("sp", _maps_key(case), allow), build)


def _name_id():
    from saml2 import saml

    return saml.NameID(text="subject-c17", format=saml.NAMEID_FORMAT_TRANSIENT)


def _glue_send(case):
    """-> the Attribute objects of the statement the glue produced ([] when there is no statement)."""
    import scenario as S
    from saml2 import saml
    from saml2.assertion import Assertion, Policy
    from saml2.server import Server

    ava = {k: _py_vals(v) for k, v in case["ava"]}
    if case["glue"] == "objects":
        conf = _light_config(case, False)
        farg = Server.update_farg("id-c17", S.SP_ACS_POST)
        a = Assertion(ava).construct(SP_GLUE, conf.attribute_converters, Policy({"default": {"name_form": case["nf"]}}),
                                     issuer=saml.Issuer(text=S.IDP_ID), farg=farg["assertion"], name_id=_name_id())
        return a, a
    idp = _idp(case, case["nf"])
    with S.clock(S.NOW0):
        if case.get("via_query"):
            resp = idp.create_attribute_response(ava, "id-c17", S.SP_ACS_POST, S.SP_ID, name_id=_name_id(), sign_response=False,
                                                 sign_assertion=False)
        else:
            resp = idp.create_authn_response(ava, "id-c17", S.SP_ACS_POST, S.SP_ID, name_id=_name_id(), authn=AUTHN,
                                             sign_response=False, sign_assertion=False)
    return resp.assertion, resp


def _statement_attrs(assertion):
    st = assertion.attribute_statement or []
    if len(st) > 1:
        raise ValueError("more than one attribute statement")
    return list(st[0].attribute) if st else []


def _has_format(case, nf):
    return any(is_map(m) and m["identifier"] == nf for m in raw_maps(case))


def _glue_receive_objects(case, attrs):
    """attrs: saml.Attribute objects -> local dictionary through a real AuthnResponse object."""
    import scenario as S
    from saml2 import saml
    from saml2.response import AuthnResponse
    from saml2.sigver import CryptoBackendXmlSec1, SecurityContext

    conf = _light_config(case, case["allow"])
    resp = AuthnResponse(SecurityContext(CryptoBackendXmlSec1(S.xmlsec_standin.BINARY)), conf.attribute_converters,
                         conf.entityid, allow_unknown_attributes=conf.allow_unknown_attributes)
    if case.get("groups") is not None:
        resp.assertions = _containers(case, attrs)
        resp.assertion = resp.assertions[0]
        return resp.get_identity()
    stmt = saml.AttributeStatement(attribute=attrs)
    assertion = saml.Assertion(attribute_statement=[stmt])
    resp.assertion = assertion
    resp.assertions = [assertion]
    direct = resp.read_attribute_statement(stmt)
    ident = resp.get_identity()
    return ident if ident == direct else {"__glue__": ["read_attribute_statement and get_identity differ"]}


def _containers(case, attrs, like=None):
    """The wire attributes distributed over containers: case["groups"] are the attribute statements (lists of
    indices into the attribute list) in the order get_identity reads them, case["layout"] says where they sit:
    per assertion the statements carried by Advice assertions (one each) and the assertion's own statements.
    `like`: an assertion whose issuer/version/instant the new assertions copy (full-client path)."""
    from saml2 import saml

    def stmt(g):
        return saml.AttributeStatement(attribute=[attrs[i] for i in case["groups"][g]])

    def shell(k, **kw):
        if like is None:
            return saml.Assertion(**kw)
        return saml.Assertion(id="id-c17-adv-%d" % k, version=like.version, issue_instant=like.issue_instant,
                              issuer=saml.Issuer(text=like.issuer.text), **kw)

    out = []
    k = 0
    for lay in case["layout"]:
        a = shell(k, attribute_statement=[stmt(g) for g in lay["own"]])
        k += 1
        if lay["advice"]:
            advs = []
            for g in lay["advice"]:
                advs.append(shell(k, attribute_statement=[stmt(g)]))
                k += 1
            a.advice = saml.Advice(assertion=advs)
        out.append(a)
    return out


def _glue_receive_entities(case, resp_obj):
    """A Response object (unsigned) -> what Saml2Client.parse_authn_request_response reports as `.ava`."""
    import base64

    import scenario as S

    sp = _sp(case, case["allow"])
    xml = str(resp_obj)
    with S.clock(S.NOW0):
        r = sp.parse_authn_request_response(base64.b64encode(xml.encode("utf-8")).decode("ascii"), S.BINDING_POST,
                                            outstanding={"id-c17": "/"})
    return r.ava


def _template_response(attrs):
    """An unsigned Response of a real IdP whose attribute statement is replaced by `attrs`."""
    import scenario as S
    from saml2 import saml

    idp = _glue_cache(("idp-template",), lambda: S.make_idp(S.idp_config()))
    with S.clock(S.NOW0):
        resp = idp.create_authn_response({}, "id-c17", S.SP_ACS_POST, S.SP_ID, name_id=_name_id(), authn=AUTHN,
                                         sign_response=False, sign_assertion=False)
    resp.assertion.attribute_statement = [saml.AttributeStatement(attribute=attrs)]
    return resp


def _template_response_multi(case, attrs):
    """The same with the attributes distributed over several statements and Advice assertions of the one
    assertion a Response may carry."""
    resp = _template_response([])
    (c,) = _containers(case, attrs, like=resp.assertion)
    resp.assertion.attribute_statement = c.attribute_statement
    resp.assertion.advice = c.advice
    return resp


def build_acs(case):
    """-> list of AttributeConverter, or None when building raised ConverterError."""
    from saml2.attribute_converter import AttributeConverter, ConverterError, ac_factory

    m = case["maps"]
    if "bundled" in m:
        if "bundled_acs" not in _state:
            _state["bundled_acs"] = ac_factory()
        acs = _state["bundled_acs"]
        return [acs[i] for i in m["bundled"]]
    key = json.dumps([m, case.get("via")], sort_keys=True)
    if _state.get("custom_key") == key:
        return _state["custom_acs"]
    maps = raw_maps(case)
    if case.get("via") == "from_dict":
        acs = []
        for d in maps:
            item = {"identifier": d["identifier"]}
            if d["fro"] is not None:
                item["fro"] = d["fro"]
            if d["to"] is not None:
                item["to"] = d["to"]
            ac = AttributeConverter(d["identifier"])
            try:
                ac.from_dict(item)
            except ConverterError:
                acs = None
                break
            acs.append(ac)
    else:
        acs = _acs_from_modules(maps)
    _state["custom_key"], _state["custom_acs"] = key, acs
    return acs


# ------------------------------------------------------------------ implementation side


def _py_vals(v):
    return list(v["list"]) if "list" in v else v["bare"]


def _canon_attr(a):
    from saml2 import saml

    vals = None
    if a.attribute_value is not None:
        vals = []
        for x in a.attribute_value:
            ext = []
            for e in x.extension_elements or []:
                if e.tag != "NameID" or e.namespace != saml.NAMESPACE:
                    raise ValueError("unexpected extension element %s" % e.tag)
                at = e.attributes or {}
                ext.append({"format": at.get("Format"), "nq": at.get("NameQualifier"), "spnq": at.get("SPNameQualifier"),
                            "spid": at.get("SPProvidedID"), "text": e.text})
            vals.append({"text": x.text, "ext": ext})
    return {"name": a.name, "nf": a.name_format, "fn": a.friendly_name, "values": vals}


class _ParseRefused(Exception):
    """pysaml2 refused to parse an AttributeValue (text does not fit the declared xsi:type)."""


WIRE_NS = ('xmlns:saml="urn:oasis:names:tc:SAML:2.0:assertion" xmlns:xsi="http://www.w3.org/2001/XMLSchema-instance" '
           'xmlns:xs="http://www.w3.org/2001/XMLSchema" xmlns:xsd="http://www.w3.org/2001/XMLSchema" '
           'xmlns:schema="http://www.w3.org/2001/XMLSchema" xmlns:eidas="http://eidas.europa.eu/attributes/naturalperson" '
           'xmlns:custom="urn:x-c17:types" xmlns:foo="urn:x-c17:foo"')


def _xattr(s):
    for a, b in (("&", "&amp;"), ("<", "&lt;"), ('"', "&quot;"), ("\t", "&#9;"), ("\n", "&#10;"), ("\r", "&#13;")):
        s = s.replace(a, b)
    return s


def _xtext(s):
    return s.replace("&", "&amp;").replace("<", "&lt;").replace(">", "&gt;")


def _is_typed(j):
    return any("xsi_type" in v or "nil" in v for v in j.get("values") or [])


def _attr_xml(j):
    """An <Attribute> as a peer writes it (own writer: pysaml2 itself only emits xs: types)."""
    out = ["<saml:Attribute %s" % WIRE_NS]
    for k, n in (("name", "Name"), ("nf", "NameFormat"), ("fn", "FriendlyName")):
        if j.get(k) is not None:
            out.append(' %s="%s"' % (n, _xattr(j[k])))
    out.append(">")
    for v in j["values"]:
        out.append("<saml:AttributeValue")
        if v.get("xsi_type") is not None:
            out.append(' xsi:type="%s"' % _xattr(v["xsi_type"]))
        if v.get("nil"):
            out.append(' xsi:nil="true"')
        out.append(">%s</saml:AttributeValue>" % _xtext(v.get("text") or ""))
    out.append("</saml:Attribute>")
    return "".join(out)


def conv_oracle(raw):
    """What Python's own int / float / strptime and the xs:boolean table make of a text (absent: refused)."""
    import datetime

    o = {}
    try:
        o["int"] = str(int(raw))
    except ValueError:
        pass
    try:
        o["float"] = str(float(raw))
    except (ValueError, OverflowError):
        pass
    if raw.lower() in ("true", "false"):
        o["bool"] = raw.lower()
    try:
        o["date"] = str(datetime.datetime.strptime(raw, "%Y-%m-%d").date())
    except ValueError:
        pass
    return o


def _mk_attr(j):
    from saml2 import ExtensionElement, saml

    if _is_typed(j):
        try:
            return saml.attribute_from_string(_attr_xml(j))
        except ValueError as e:  # "Type and value do not match"
            raise _ParseRefused(str(e))

    a = saml.Attribute(name=j.get("name"), name_format=j.get("nf"), friendly_name=j.get("fn"))
    if j.get("values") is None:
        a.attribute_value = None
        return a
    vals = []
    for v in j["values"]:
        av = saml.AttributeValue()
        if v.get("text") is not None:
            av.set_text(v["text"])
        if v.get("ext"):
            els = []
            for e in v["ext"]:
                at = {}
                for k, n in (("format", "Format"), ("nq", "NameQualifier"), ("spnq", "SPNameQualifier"), ("spid", "SPProvidedID")):
                    if e.get(k) is not None:
                        at[n] = e[k]
                els.append(ExtensionElement("NameID", saml.NAMESPACE, attributes=at, text=e.get("text")))
            av.extension_elements = els
        vals.append(av)
    a.attribute_value = vals
    return a


def _canon_local(d):
    out = []
    for k, vs in d.items():
        cv = []
        for v in vs:
            if isinstance(v, dict):
                (tag, fields), = v.items()
                cv.append({tag: dict(fields)})
            else:
                cv.append(v)
        out.append([k, cv])
    return out


def _via_xml(attrs):
    from saml2 import saml

    return [saml.attribute_from_string(a.to_string()) for a in attrs]


def _send(acs, case):
    from saml2.attribute_converter import from_local

    ava = {k: _py_vals(v) for k, v in case["ava"]}
    if case.get("send") is not None:
        return acs[case["send"]].to_(ava)
    return from_local(acs, ava, case["nf"])


def run_impl(case):
    from saml2.attribute_converter import list_to_local

    op = case["op"]
    if op == "strops":
        s = case["s"]
        return {"lower": s.lower(), "strip": s.strip(), "truthy": bool(s), "int": str(case["i"])}
    glue = case.get("glue")
    if glue:
        return _run_glue(case)
    acs = build_acs(case)
    if acs is None:
        return {"r": "raised"}
    if op == "to_wire":
        try:
            w = _send(acs, case)
        except Exception:  # do_ava / set_text refuse a value (OtherError, TypeError, ValueError)
            return {"r": "raised"}
        if w is None:
            return {"r": "none"}
        return {"r": "ok", "attrs": [_canon_attr(a) for a in w]}
    if op == "to_local":
        try:
            attrs = [_mk_attr(j) for j in case["attrs"]]
        except _ParseRefused:
            return {"r": "raised"}
        if case.get("xml"):
            attrs = _via_xml(attrs)
        try:
            d = list_to_local(acs, attrs, case["allow"])
        except Exception:  # AttributeError / TypeError escaping list_to_local
            return {"r": "raised"}
        return {"r": "ok", "ava": _canon_local(d)}
    if op == "roundtrip":
        try:
            w = _send(acs, case)
        except Exception:
            return {"r": "raised"}
        if w is None:
            return {"r": "none"}
        if case.get("xml"):
            w = _via_xml(w)
        try:
            d = list_to_local(acs, w, case["allow"])
        except Exception:
            return {"r": "raised"}
        return {"r": "ok", "ava": _canon_local(d)}
    raise ValueError(op)


def _run_glue(case):
    """The same three operations through the code real entities run.  An absent attribute statement is read
    as `None` (from_local found no converter) exactly when no map of the set has the requested name format,
    otherwise as the empty list."""
    op, glue = case["op"], case["glue"]
    if op in ("to_wire", "roundtrip"):
        try:
            assertion, resp = _glue_send(case)
        except Exception:  # do_ava / set_text refuse a value
            return {"r": "raised"}
        attrs = _statement_attrs(assertion)
        if not attrs and not _has_format(case, case["nf"]):
            return {"r": "none"}
        if op == "to_wire":
            return {"r": "ok", "attrs": [_canon_attr(a) for a in attrs]}
        try:
            if glue == "objects":
                d = _glue_receive_objects(case, _via_xml(attrs))
            else:
                d = _glue_receive_entities(case, resp)
        except Exception:
            return {"r": "raised"}
        return {"r": "ok", "ava": _canon_local(d)}
    if op == "to_local":
        try:
            attrs = [_mk_attr(j) for j in case["attrs"]]
        except _ParseRefused:
            return {"r": "raised"}
        if case.get("groups") is not None and not all(0 <= j < len(attrs) for g in case["groups"] for j in g):
            raise ValueError("statement refers to an attribute the case does not have")
        if glue == "objects":
            if case.get("xml"):
                attrs = _via_xml(attrs)
            resp = None
        else:
            resp = _template_response_multi(case, attrs) if case.get("groups") is not None else _template_response(attrs)
        try:
            d = _glue_receive_objects(case, attrs) if glue == "objects" else _glue_receive_entities(case, resp)
        except Exception:  # what the receiving entity raises
            return {"r": "raised"}
        return {"r": "ok", "ava": _canon_local(d)}
    raise ValueError(op)


def compare(case, impl, model):
    if model is None:
        return False
    if impl.get("r") == "ok" and model.get("r") == "ok" and "ava" in impl and "ava" in model:
        a, b = impl["ava"], model["ava"]
        return len(a) == len(b) and {k: v for k, v in a} == {k: v for k, v in b} and len({k for k, _ in a}) == len(a)
    return impl == model


def nontrivial(case, impl, lean):
    return lean.get("path") not in ("strops", "setup/converter-error")


# ------------------------------------------------------------------ known-finding classification


BUNDLED_CASE_COLLISIONS = {(URI, "dateofbirth"), (URI, "birthname"), (URI, "placeofbirth"), (URI, "gender")}


def _send_map(case, maps):
    eff = [m for m in maps if is_map(m)]
    if case.get("send") is not None:
        return eff[case["send"]] if case["send"] < len(eff) else None
    for m in eff:
        if m["identifier"] == case["nf"]:
            return m
    return None


def _to_raw(m):
    """local -> wire as declared ("to", else the lower-cased mirror of "fro")."""
    if m["to"] is not None:
        return dict(m["to"])
    fro = {k.lower(): v for k, v in m["fro"].items()}
    return {v.lower(): k for k, v in fro.items()}


def _fro_keys(m):
    if m["fro"] is not None:
        return {k.lower() for k in m["fro"]}
    to = {k.lower(): v for k, v in m["to"].items()}
    return {v.lower() for v in to.values()}


def _case_collision(case, m, key):
    """`key` is written in "to" and another key differing only in case is written with another wire name."""
    if m is None or m["to"] is None or key not in m["to"]:
        return False
    others = [k for k in m["to"] if k != key and k.lower() == key.lower() and m["to"][k] != m["to"][key]]
    if not others:
        return False
    if "bundled" in case["maps"]:
        return (m["identifier"], key.lower()) in BUNDLED_CASE_COLLISIONS
    return True


def _shared_format_loss(maps, fmt, wire):
    """Two or more maps have format `fmt`; the last one does not know `wire`, an earlier one does."""
    same = [m for m in maps if is_map(m) and m["identifier"] == fmt]
    if len(same) < 2 or wire is None:
        return False
    q = wire.strip().lower()
    return q not in _fro_keys(same[-1]) and any(q in _fro_keys(m) for m in same[:-1])


def _shared_format_effects(case, maps):
    """For a wire statement: the local names that get lost because their attribute is known only to an
    earlier map of a shared name format, and (when unknown attributes are allowed) the wire names under
    which those attributes are passed on instead."""
    lost, spill = set(), set()
    for a in case["attrs"]:
        nf = a.get("nf")
        if nf is None and case.get("xml"):
            nf = UNSPEC
        if nf is None or a.get("name") is None or not _shared_format_loss(maps, nf, a["name"]):
            continue
        q = a["name"].strip().lower()
        for m in [x for x in maps if is_map(x) and x["identifier"] == nf][:-1]:
            fro = {x.lower(): y for x, y in m["fro"].items()} if m["fro"] is not None else \
                {v.lower(): x.lower() for x, v in m["to"].items()}
            if q in fro:
                lost.add(fro[q])
        if case["allow"]:
            spill.add(a["name"].strip())
    return lost, spill


def _sent_wire(m, key):
    to = {k.lower(): v for k, v in _to_raw(m).items()} if m["to"] is not None else _to_raw(m)
    return to.get(key.lower())


def finding_key(case, impl, lean):
    why = lean.get("why") or []
    if not why:
        return None
    maps = raw_maps(case)
    keys = set()
    for kind, name in why:
        k = None
        if case["op"] in ("to_wire", "roundtrip"):
            m = _send_map(case, maps)
            if m is None:
                return None
            if _case_collision(case, m, name):
                k = KEY_CASE
            elif case["op"] == "roundtrip" and kind in ("attribute-lost", "value-lost") and \
                    _shared_format_loss(maps, m["identifier"], (m["to"] or {}).get(name) or _sent_wire(m, name)):
                k = KEY_SHARED
            elif case["op"] == "roundtrip" and kind == "value-lost" and _sent_wire(m, name) == EPTID_OID and \
                    any(_sent_wire(m, k2) == EPTID_OID and "list" in v2 and "" in v2["list"] for k2, v2 in case["ava"]):
                k = KEY_EPTID  # (entries that collapse to the same local name are reported together)
        elif case["op"] == "to_local":
            lost, spill = _shared_format_effects(case, maps)
            if kind in ("known-attribute-missing", "values-differ") and name in lost:
                k = KEY_SHARED
            elif kind in ("unexpected-attribute", "values-differ") and name in spill:
                k = KEY_SHARED
        if k is None:
            return None
        keys.add(k)
    return keys.pop() if len(keys) == 1 else None


# ------------------------------------------------------------------ generators


def ascii_lower(s):
    return "".join(chr(ord(c) + 32) if "A" <= c <= "Z" else c for c in s)


PY_WS = [chr(c) for c in (0x9, 0xa, 0xb, 0xc, 0xd, 0x1c, 0x1d, 0x1e, 0x1f, 0x20, 0x85, 0xa0, 0x1680)] + \
        [chr(c) for c in range(0x2000, 0x200b)] + [chr(c) for c in (0x2028, 0x2029, 0x202f, 0x205f, 0x3000)]
XML_WS = [chr(c) for c in (0x20, 0x9, 0xa, 0xa0, 0x2003, 0x3000, 0x2009, 0x85, 0x2028)]
# look-alikes that are NOT white space for str.strip(): ZWSP, BOM, Mongolian vowel separator, word joiner,
# soft hyphen, U+0080, U+00C2 (whose UTF-8 form starts like NBSP's), U+2027, U+200B
NOT_WS = [chr(c) for c in (0x200b, 0xfeff, 0x180e, 0x2060, 0xad, 0x80, 0xc2, 0x2027, 0x200c, 0x2100, 0x3001, 0xe1, 0x1681)]
WORDS = ["x", "alice", "Alice Example", "\u00fc", "\u00dcn\u00ef c\u00f6d\u00e9", "\u65e5\u672c\u8a9e", "\U0001f600", "a@b.example", "0", "true", "None",
         "<&>\"'", "a b  c", "\u00c9", "\u01c5", "\u00df", "i\u0307", "\u0130", "tab\tinside", "line\nbreak", "nbsp\u00a0inside"]


def gen_value_string(rng, xml):
    c = rng.randrange(12)
    if c == 0:
        return ""
    if c == 1:
        return rng.choice(XML_WS if xml else PY_WS) * rng.randint(1, 2)
    core = rng.choice(WORDS)
    if c in (2, 3, 4):
        return core
    ws = XML_WS if xml else PY_WS
    pre = "".join(rng.choice(ws) for _ in range(rng.randint(0, 2)))
    post = "".join(rng.choice(ws) for _ in range(rng.randint(0, 2)))
    if c == 5:
        pre += rng.choice(NOT_WS)
    if c == 6:
        post = rng.choice(NOT_WS) + post
    return pre + core + post


def gen_vals(rng, xml, strings_only=False):
    """-> {"list": [...]} or {"bare": v}"""
    c = rng.randrange(20)
    if c == 0:
        return {"list": []}
    if strings_only or c < 13:
        return {"list": [gen_value_string(rng, xml) for _ in range(rng.randint(1, 3))]}
    if c < 16:  # booleans / integers mixed in
        return {"list": [rng.choice([True, False, 1, 7, -3, 10 ** 20, 0, gen_value_string(rng, xml)]) for _ in range(rng.randint(1, 3))]}
    if c == 16:
        return {"list": [gen_value_string(rng, xml), None]}
    if c == 17:
        return {"bare": rng.choice([gen_value_string(rng, xml), True, False, 5, 0, -1])}
    if c == 18:
        return {"bare": None}
    return {"list": [gen_value_string(rng, xml)] * 2}


LOCALS = ["givenName", "sn", "mail", "email", "uid", "displayName", "eduPersonAffiliation", "o", "cn", "title",
          "DateOfBirth", "dateOfBirth", "schacHomeOrganization", "mobile", "role", "group", "x-é", "名前"]
FORMATS = ["urn:x-c17:format:a", "urn:x-c17:format:b", URI, BASIC, UNSPEC, "urn:X-C17:Format:A", ""]


def wire_name(rng, k):
    c = rng.randrange(5)
    if c == 0:
        return "urn:oid:2.5.4.%d" % k
    if c == 1:
        return "urn:mace:dir:attribute-def:Attr%d" % k
    if c == 2:
        return "http://schemas.example.org/Claims/Name%d" % k
    if c == 3:
        return "urn:x-c17:wire:é%d" % k
    return "w%d" % k


def case_variant(rng, s):
    c = rng.randrange(4)
    if c == 0:
        return s.upper() if s.isascii() else s
    if c == 1:
        return ascii_lower(s)
    if c == 2:
        return s[:1].upper() + s[1:] if s[:1].isascii() else s
    return s.swapcase() if s.isascii() else s


def gen_custom_map(rng, ident, flavour):
    """One map dictionary {"identifier", "to": pairs|None, "fro": pairs|None}; Wf unless the flavour says otherwise."""
    n = rng.randint(1, 6)
    locs = []
    for l in rng.sample(LOCALS, n):  # no accidental case collisions: those are a flavour of their own
        if l.lower() not in {x.lower() for x in locs}:
            locs.append(l)
    to, fro = {}, {}
    for i, l in enumerate(locs):
        w = wire_name(rng, rng.randrange(40))
        if w.lower() in {x.lower() for x in fro}:
            continue
        to[l] = w
        fro[w] = l
    if not to:
        to["uid"] = "w-uid"
        fro["w-uid"] = "uid"
    if flavour == "aliases":  # several local names for one wire name
        for _ in range(rng.randint(1, 2)):
            l = rng.choice(list(to))
            alias = l + rng.choice(["Alias", "2", "-alt"])
            to[alias] = to[l]
    elif flavour == "many-wire":  # several wire names for one local name
        for _ in range(rng.randint(1, 2)):
            l = rng.choice(list(to))
            fro[to[l] + rng.choice([".old", "/v1", "-legacy"])] = l
    elif flavour == "case-same":  # keys differing in case, same value
        l = rng.choice([x for x in to if x.isascii()] or ["uid"])
        if l in to and l.swapcase() not in to:
            to[l.swapcase()] = to[l]
    elif flavour == "case-collision":  # keys differing in case, different wire names (the saml_uri DateOfBirth shape)
        l = rng.choice([x for x in to if x.isascii() and x.swapcase() != x] or ["uid"])
        if l not in to:
            to[l] = "w-uid"
            fro["w-uid"] = l
        other = l.swapcase() if rng.random() < 0.5 else l[:1].swapcase() + l[1:]
        if other not in to:
            w = "urn:x-c17:collide:%d" % rng.randrange(9)
            to[other] = w
            fro[w] = other
    elif flavour == "asymmetric":
        c = rng.randrange(3)
        if c == 0:
            to["onlyTo"] = "urn:x-c17:only-to"
        elif c == 1:
            fro["urn:x-c17:only-fro"] = "onlyFro"
        else:
            l = rng.choice(list(to))
            del fro[to[l]]
    elif flavour == "padded":
        l = rng.choice(list(to))
        w = to[l]
        to[l] = rng.choice([" ", "\t", ""]) + w + rng.choice([" ", "\n", "  "])
    elif flavour == "empty-wire":
        to["blank"] = ""
    elif flavour == "eptid":
        to[EPTID_LOCAL] = EPTID_OID
        fro[EPTID_OID] = EPTID_LOCAL
    elif flavour == "eptid-other-local":
        to["eptid"] = EPTID_OID
        fro[EPTID_OID] = "eptid"
    elif flavour == "upper-wire":
        l = rng.choice(list(to))
        w = to[l]
        if w.isascii():
            del fro[w]
            to[l] = w.upper()
            fro[w.upper() if rng.random() < 0.5 else w] = l
    c = rng.randrange(10)
    if flavour in ("asymmetric", "many-wire", "case-collision"):
        c = 9  # keep both directions
    if c == 0:
        return {"identifier": ident, "to": _as_pairs(to), "fro": None}
    if c == 1:
        return {"identifier": ident, "to": None, "fro": _as_pairs(fro)}
    m = {"identifier": ident, "to": _as_pairs(to), "fro": _as_pairs(fro)}
    if rng.random() < 0.3:
        rng.shuffle(m["to"])
    return m


SAFE_FLAVOURS = ["plain", "plain", "aliases", "many-wire", "case-same", "padded", "empty-wire", "eptid",
                 "eptid-other-local", "upper-wire"]


def names_ok(mapd):
    strs = [mapd["identifier"]]
    for d in (mapd["to"], mapd["fro"]):
        for k, v in d or []:
            strs += [k, v]
    return all(s.lower() == ascii_lower(s) for s in strs)


def gen_custom_set(rng):
    """-> (maps, feature) where feature names the single deliberate irregularity of the set (or None)."""
    c = rng.randrange(20)
    feature = None
    if c == 0:
        return [], "no-maps"
    n = rng.choice([1, 1, 2, 2, 3])
    fmts = rng.sample(FORMATS, n)
    flavours = [rng.choice(SAFE_FLAVOURS) for _ in range(n)]
    if c == 1:
        feature = "asymmetric"
        flavours[rng.randrange(n)] = "asymmetric"
    elif c == 2:
        feature = "case-collision"
        flavours = ["plain"] * n
        flavours[rng.randrange(n)] = "case-collision"
    elif c in (3, 4) and n >= 2:
        feature = "shared-format"
        fmts[1] = fmts[0]
        flavours = [f if f not in ("eptid", "eptid-other-local") else "plain" for f in flavours]
    maps = [gen_custom_map(rng, f, fl) for f, fl in zip(fmts, flavours)]
    if c == 5:
        feature = "non-map"
        maps.insert(rng.randrange(len(maps) + 1), {"identifier": "urn:x-c17:format:nomap", "to": None, "fro": None})
    maps = [m for m in maps if names_ok(m)]
    return maps, feature


def round_trip_wf(m):
    """Python-side copy of Spec.roundTripWf (used only to decide which custom sets get round-trip cases)."""
    if not is_map(m):
        return True
    to = _to_raw(m)
    known = _fro_keys(m)
    return all((not w) or w.strip().lower() in known for w in to.values())


def local_pool(maps):
    pool = []
    for m in maps:
        if is_map(m):
            pool += list(_to_raw(m))
    return pool


def gen_identity(rng, maps, xml, strings_only, allow_empty_eptid):
    pool = local_pool(maps)
    ava = {}
    for _ in range(rng.choice([1, 1, 1, 2, 3, 5])):
        c = rng.randrange(10)
        ept = [x for x in pool if x.lower() in (EPTID_LOCAL.lower(), "eptid")]
        if ept and rng.random() < 0.08:
            k = rng.choice(ept)
        elif pool and c < 6:
            k = rng.choice(pool)
        elif pool and c < 8:
            k = case_variant(rng, rng.choice(pool))
        elif c == 8:
            k = rng.choice(LOCALS)
        else:
            k = rng.choice(["unknownAttr", " padded ", "", "urn:oid:2.5.4.3"])
        if k.lower() != ascii_lower(k):
            continue
        # the eduPersonTargetedID special case always serialises its values (NameID elements): XML-safe text only
        v = gen_vals(rng, xml or k.lower() in (EPTID_LOCAL.lower(), "eptid"), strings_only)
        ava[k] = v
    if not allow_empty_eptid:
        for k, v in list(ava.items()):
            if k.lower() in (EPTID_LOCAL.lower(), "eptid") and "list" in v:
                v["list"] = [x if x != "" else "id" for x in v["list"]]
    return [[k, v] for k, v in ava.items()]


def xml_safe_identity(ava):
    """XML transport needs a sendable identity whose eptid items are strings."""
    for _k, v in ava:
        items = v["list"] if "list" in v else [v["bare"]]
        for x in items:
            if x is None or (x == 0 and x is not False):
                return False
            if isinstance(x, str) and any(ch in x for ch in "\r\x0b\x0c\x1c\x1d\x1e\x1f"):
                return False
            if not isinstance(x, str):
                return False
    return True


def gen_wire_value(rng, xml):
    c = rng.randrange(12)
    if c == 0:
        return {"text": None, "ext": []}
    if c == 1:  # a NameID element, as to_eptid_value produces (plus the optional qualifiers)
        e = {"format": rng.choice([PERSISTENT, None, ""]), "nq": rng.choice([None, "nq", ""]), "spnq": rng.choice([None, "sp"]),
             "spid": rng.choice([None, None, "pid"]), "text": rng.choice(["id-1", " id-2 ", "", None, " "])}
        if not xml and rng.random() < 0.2:
            e["text"] = rng.choice([True, False, 0, 5])
        return {"text": rng.choice([None, "ignored"]), "ext": [e] * rng.choice([1, 1, 2])}
    return {"text": gen_value_string(rng, xml), "ext": []}


def gen_statement(rng, maps, xml):
    """A wire statement: name format, name and values of every attribute are drawn independently."""
    eff = [m for m in maps if is_map(m)]
    attrs = []
    for _ in range(rng.choice([1, 1, 1, 2, 3, 4])):
        m = rng.choice(eff) if eff else None
        known = list(_fro_names(m)) if m else []
        c = rng.randrange(100)
        if c < 60:
            nf = m["identifier"] if m else "urn:x-c17:format:zzz"
        elif c < 68:
            nf = rng.choice([x["identifier"] for x in eff]) if eff else UNSPEC  # possibly another map's format
        elif c < 76:
            nf = rng.choice(["urn:x-c17:format:zzz", BASIC, URI.upper(), URI + " "])
        elif c < 82:
            nf = ""
        elif c < 90:
            nf = UNSPEC
        else:
            nf = None
        fn = rng.choice([None, "Friendly", " fn "])
        c = rng.randrange(100)
        name = rng.choice(known) if known else "urn:oid:2.5.4.99"
        if c < 60:
            pass
        elif c < 68:
            name = case_variant(rng, name)
        elif c < 74:
            name = rng.choice([" ", "\t", ""]) + name + rng.choice([" ", "\n"])
        elif c < 88:
            name = rng.choice(["urn:oid:2.5.4.99", "unknownName", " padded-unknown ", "", "Friendly"])
        elif c < 94:
            name = None
            fn = rng.choice(["Friendly", " fn ", rng.choice(known) if known else "x"])
        else:
            name, fn = None, None
        values = [gen_wire_value(rng, xml) for _ in range(rng.choice([0, 1, 1, 2, 3]))]
        if not xml and rng.random() < 0.06:
            values = None
        for s_ in (name, fn):
            if s_ is not None and s_.lower() != ascii_lower(s_):
                break
        else:
            attrs.append({"name": name, "nf": nf, "fn": fn, "values": values})
    return attrs


XSI_TYPES = [None, None, "xs:string", "xsd:string", "xs:anyURI", "xs:integer", "xs:int", "xs:long", "xs:short", "xs:boolean",
             "xs:base64Binary", "xs:dateTime", "xs:date", "xs:float", "xs:double", "xs:anyType", "xs:unknownThing",
             "eidas:CurrentFamilyNameType", "eidas:string", "custom:Thing", "foo:integer", "foo:boolean", "schema:string",
             "schema:integer", "schema:date", "CustomType", "integer", "string", "boolean", "", ":x", "a:b:c", "xs:"]
TYPED_TEXTS = {
    "int": ["5", " 007 ", "+5", "-12", "0", "1_000", "12345678901234567890"],
    "float": ["1e3", " 2.50 ", "nan", "1", "-0", "1e400", ".5"],
    "bool": ["true", "TRUE", "False"],
    "date": ["2020-01-31", "1999-12-01"],
    "other": ["Garcia", " padded ", "", "\u00fc", "urn:x:y", "QUJD", "2020-01-01T00:00:00Z", "abc", "1.5", "1", " true", "31.1.2020",
              "<&>", "a b"],
}


def gen_typed_value(rng):
    """An AttributeValue as peers send it: declared type x lexical form (mostly matching the type)."""
    t = rng.choice(XSI_TYPES)
    local = (t or "").split(":", 1)[-1]
    kind = {"integer": "int", "int": "int", "long": "int", "short": "int", "float": "float", "double": "float",
            "boolean": "bool", "date": "date"}.get(local, "other")
    if kind != "other" and rng.random() < 0.12:
        kind = rng.choice(["other", "int", "float", "bool", "date"])  # a lexical form of another type
    text = rng.choice(TYPED_TEXTS[kind])
    if rng.random() < 0.15:
        text = rng.choice([" ", "\n", ""]) + text + rng.choice([" ", "\t", ""])
    v = {"text": text, "ext": [], "xsi_type": t, "conv": conv_oracle(text)}
    c = rng.randrange(12)
    if c == 0:
        v["text"], v["nil"], v["conv"] = None, True, {}
    elif c == 1:
        v["nil"] = True
    if t is None:
        del v["xsi_type"]
        if not v.get("nil"):
            v["nil"] = False  # still written by the harness's own XML writer
    return v


def gen_typed_statement(rng, maps):
    """A statement whose values carry the xsi:type / xsi:nil forms peers send (text values only)."""
    attrs = gen_statement(rng, maps, True)
    out = []
    for a in attrs:
        if a.get("values") is None:
            continue
        a["values"] = [gen_typed_value(rng) for _ in range(rng.choice([1, 1, 2, 3]))]
        out.append(a)
    return out


def _fro_names(m):
    """Wire names as a peer would write them: the keys of "fro" (or the values of "to")."""
    if m["fro"] is not None:
        return list(m["fro"])
    return list(m["to"].values())


INTERESTING_VALUES = [["v"], [], [""], [" padded ", "two"], ["\u00fc", "\u65e5\u672c\u8a9e"], ["a", "a"], [" x\u3000"], ["x\u200b"],
                      [True, 7], ["1", 2, False]]


def gen_bundled_exhaustive(rng, tier):
    raw = _bundled_raw()
    n = len(raw)
    full = list(range(n))
    fmts = [m["identifier"] for m in raw]
    distinct = [i for i in range(n) if fmts[i] not in fmts[i + 1:]]  # keep the LAST map of every format
    k = 0
    for i, m in enumerate(raw):
        to, fro = m.get("to") or {}, m.get("fro") or {}
        for key in to:
            k += 1
            vals = INTERESTING_VALUES[k % len(INTERESTING_VALUES)]
            if to[key] == EPTID_OID:
                vals = [["id-1"], [" id-2 ", "x"], []][k % 3]
            yield {"op": "to_wire", "maps": {"bundled": [i]}, "send": 0, "nf": m["identifier"], "ava": [[key, {"list": vals}]]}
            yield {"op": "roundtrip", "maps": {"bundled": full}, "send": i, "nf": m["identifier"], "allow": False,
                   "ava": [[key, {"list": vals}]], "xml": all(isinstance(v, str) for v in vals) and k % 2 == 0}
            yield {"op": "roundtrip", "maps": {"bundled": [i]}, "send": 0, "nf": m["identifier"], "allow": bool(k % 2),
                   "ava": [[key, {"list": vals}]], "xml": False}
            if i in distinct:
                yield {"op": "roundtrip", "maps": {"bundled": distinct}, "send": None, "nf": m["identifier"], "allow": False,
                       "ava": [[key, {"list": vals}]], "xml": False}
            if tier == "thorough":
                yield {"op": "roundtrip", "maps": {"bundled": full}, "send": None, "nf": m["identifier"], "allow": True,
                       "ava": [[case_variant(rng, key), gen_vals(rng, False, True)]], "xml": False}
        for w in fro:
            k += 1
            vals = INTERESTING_VALUES[k % 8]
            values = [{"text": v, "ext": []} for v in vals]
            yield {"op": "to_local", "maps": {"bundled": full}, "allow": False, "xml": k % 2 == 0,
                   "attrs": [{"name": w, "nf": m["identifier"], "fn": fro[w] if k % 3 else None, "values": values}]}
            yield {"op": "to_local", "maps": {"bundled": [i]}, "allow": bool(k % 2), "xml": False,
                   "attrs": [{"name": w, "nf": m["identifier"], "fn": None, "values": values}]}
            if k % 5 == 0 or tier == "thorough":
                yield {"op": "to_local", "maps": {"bundled": full}, "allow": bool(k % 2), "xml": False,
                       "attrs": [{"name": case_variant(rng, w) if w.isascii() else w, "nf": m["identifier"], "fn": None, "values": values},
                                 {"name": " " + w + "\n", "nf": m["identifier"], "fn": None, "values": values}]}
        # the whole map as one identity
        if to:
            yield {"op": "roundtrip", "maps": {"bundled": [i]}, "send": 0, "nf": m["identifier"], "allow": False, "xml": True,
                   "ava": [[key, {"list": ["v-" + key]}] for key in to]}
            yield {"op": "roundtrip", "maps": {"bundled": full}, "send": i, "nf": m["identifier"], "allow": False, "xml": False,
                   "ava": [[key, {"list": ["v-" + key, " w "]}] for key in to]}


def gen_strops(rng, tier):
    for w in PY_WS + NOT_WS:
        for s in (w, w + "x", "x" + w, w + "x" + w, w + w + "X y" + w + " ", "a" + w + "b"):
            if s.lower() == ascii_lower(s):
                yield {"op": "strops", "s": s, "i": rng.choice([0, 1, -1, 9, 10, -10, 255, 256, 10 ** 18, -(10 ** 30)])}
    for _ in range(400 if tier == "quick" else 4000):
        s = "".join(rng.choice(PY_WS + NOT_WS + WORDS + ["A", "Z", "a", "z", "@", "[", "`", "{", "É", "é"]) for _ in range(rng.randint(0, 6)))
        if s.lower() == ascii_lower(s):
            yield {"op": "strops", "s": s, "i": rng.randint(-10 ** rng.randint(1, 25), 10 ** rng.randint(1, 25))}


XML_UNSAFE = "\r\x0b\x0c\x1c\x1d\x1e\x1f"


def _xml_safe_eptid(case):
    """ava_from serialises and re-parses the NameID elements of the eduPersonTargetedID special case even
    when the attributes travel as objects: its values must be text XML 1.0 can carry unchanged."""
    for _k, v in case.get("ava") or []:
        if _k.lower() in (EPTID_LOCAL.lower(), "eptid"):
            if "list" in v:
                v["list"] = [x.translate({ord(ch): None for ch in XML_UNSAFE}) if isinstance(x, str) else x for x in v["list"]]
            elif isinstance(v.get("bare"), str):
                v["bare"] = v["bare"].translate({ord(ch): None for ch in XML_UNSAFE})
    return case


def glue_eligible(case):
    """The map set can be given to a real entity: the bundled default, or real map modules in a directory."""
    if case.get("op") not in ("to_wire", "to_local", "roundtrip") or case.get("send") is not None:
        return False
    m = case["maps"]
    if "bundled" in m:
        return m["bundled"] == list(range(len(_bundled_raw())))
    return case.get("via") == "module" and any(is_map(x) for x in raw_maps(case))


def glue_variant(rng, case, entities_ok=True):
    """The same case through the glue (None if the case cannot travel that way)."""
    if not glue_eligible(case):
        return None
    glue = "entities" if entities_ok and rng.random() < 0.4 else "objects"
    c = dict(case, glue=glue)
    if case["op"] == "roundtrip":
        if not xml_safe_identity(case["ava"]):
            return None  # the statement is serialised
        if glue == "entities" and any(not k for k, _v in case["ava"]):
            return None  # an empty key is sent as an Attribute with an empty Name (see below)
        c["xml"] = True
    if case["op"] == "to_local":
        # get_identity() formats the statement into a log message: it must be serialisable
        for a in case["attrs"]:
            if a.get("values") is None:
                return None
            for v in a["values"]:
                if any(not (e.get("text") is None or isinstance(e.get("text"), str)) for e in v.get("ext") or []):
                    return None
    if case["op"] == "to_local" and glue == "entities":
        if not case.get("xml"):
            return None  # generated for XML transport: text XML carries, values present
        if any(not a.get("name") for a in case["attrs"]):
            return None  # a Response with an Attribute without (or with an empty) Name is rejected by the
            #              message checks before the converters are reached
    if case["op"] == "to_wire" and glue == "entities" and rng.random() < 0.3:
        c["via_query"] = True  # Server.create_attribute_response instead of create_authn_response
    return c


def multi_statement_variant(rng, g):
    """A glue to_local case with its wire attributes distributed over 1-3 attribute statements, over an
    assertion and its Advice assertions and (AuthnResponse object only: a Response must carry exactly one
    assertion) over several assertions.  Sometimes the same attribute is put into two statements."""
    if g is None or g["op"] != "to_local" or not g["attrs"]:
        return None
    c = json.loads(json.dumps(g))
    attrs = c["attrs"]
    for _ in range(rng.choice([0, 0, 1, 1, 2])):  # the same name again, other values, to land in another statement
        a = json.loads(json.dumps(rng.choice(attrs)))
        a["values"] = [gen_wire_value(rng, True) for _ in range(rng.randint(0, 2))]
        a["values"] = [v for v in a["values"] if not v["ext"]]
        attrs.append(a)
    idx = list(range(len(attrs)))
    rng.shuffle(idx)
    n = min(len(idx), rng.choice([1, 2, 2, 3, 3]))
    cuts = sorted(rng.sample(range(1, len(idx)), n - 1)) if n > 1 else []
    groups = [idx[i:j] for i, j in zip([0] + cuts, cuts + [len(idx)])]
    if n < 3 and rng.random() < 0.15:
        groups.insert(rng.randrange(len(groups) + 1), [])  # an empty statement
    n = len(groups)
    n_ass = 1 if c["glue"] == "entities" else rng.choice([1, 1, 2])
    n_ass = min(n_ass, n)
    bounds = sorted(rng.sample(range(1, n), n_ass - 1)) if n_ass > 1 else []
    layout = []
    for lo, hi in zip([0] + bounds, bounds + [n]):
        gs = list(range(lo, hi))
        k = rng.choice([0, 0, 1, len(gs) - 1]) if len(gs) > 1 else rng.choice([0, 0, 1])
        k = max(0, min(k, len(gs)))
        layout.append({"advice": gs[:k], "own": gs[k:]})
    c["groups"], c["layout"] = groups, layout
    return c


def gen_cases(rng, tier):
    for c in _gen_cases(rng, tier):
        yield _xml_safe_eptid(c)
        if c.get("glue") and c["op"] == "to_local" and rng.random() < 0.6:
            m = multi_statement_variant(rng, c)
            if m is not None:
                yield m


def _gen_cases(rng, tier):
    yield from gen_strops(rng, tier)
    yield from gen_bundled_exhaustive(rng, tier)
    raw = _bundled_raw()
    n = len(raw)
    full = list(range(n))

    # random identities / statements against the bundled set and its subsets
    for _ in range(1500 if tier == "quick" else 25000):
        idx = rng.choice([full, full, full, [rng.randrange(n)], sorted(rng.sample(full, rng.randint(2, n))), [1, 2, 3, 4][:n]])
        maps = [{"identifier": raw[i]["identifier"], "to": raw[i].get("to"), "fro": raw[i].get("fro")} for i in idx]
        c = rng.randrange(3)
        xml = rng.random() < 0.4
        fmts = [m["identifier"] for m in maps]
        shared = len(set(fmts)) < len(fmts)
        if c == 0:
            send = rng.choice([None, rng.randrange(len(idx))])
            nf = rng.choice(fmts + ["urn:x-c17:format:none"])
            yield {"op": "to_wire", "maps": {"bundled": idx}, "send": send, "nf": nf,
                   "ava": gen_identity(rng, maps if send is None else [maps[send]], False, False, True)}
        elif c == 1:
            yield {"op": "to_local", "maps": {"bundled": idx}, "allow": rng.random() < 0.4, "xml": xml,
                   "attrs": gen_statement(rng, maps, xml)}
        else:
            send = rng.choice([None, rng.randrange(len(idx))])
            nf = rng.choice(fmts + ["urn:x-c17:format:none"]) if send is None else fmts[send]
            src = [m for m in maps if m["identifier"] == nf][:1] if send is None else [maps[send]]
            ava = gen_identity(rng, src, xml, rng.random() < 0.7, allow_empty_eptid=not shared and rng.random() < 0.15)
            yield {"op": "roundtrip", "maps": {"bundled": idx}, "send": send, "nf": nf, "allow": rng.random() < 0.4,
                   "ava": ava, "xml": xml and xml_safe_identity(ava)}

    # the same kinds of cases through the glue real entities put around the converters (full bundled set)
    maps = [{"identifier": m["identifier"], "to": m.get("to"), "fro": m.get("fro")} for m in raw]
    fmts = [m["identifier"] for m in maps]
    for _ in range(700 if tier == "quick" else 9000):
        c = rng.randrange(3)
        nf = rng.choice(fmts + ["urn:x-c17:format:none"])
        src = [m for m in maps if m["identifier"] == nf][:1]
        if c == 0:
            base = {"op": "to_wire", "maps": {"bundled": full}, "send": None, "nf": nf,
                    "ava": gen_identity(rng, src, False, False, True)}
        elif c == 1:
            base = {"op": "to_local", "maps": {"bundled": full}, "allow": rng.random() < 0.5, "xml": rng.random() < 0.7}
            base["attrs"] = gen_statement(rng, maps, base["xml"])
        else:
            ava = gen_identity(rng, src, True, True, allow_empty_eptid=False)
            base = {"op": "roundtrip", "maps": {"bundled": full}, "send": None, "nf": nf, "allow": rng.random() < 0.5,
                    "ava": ava, "xml": True}
        g = glue_variant(rng, base)
        if g is not None:
            yield g

    # wire forms of AttributeValue that peers send (xsi:type / xsi:nil), directly and through the glue
    for _ in range(500 if tier == "quick" else 6000):
        idx = rng.choice([full, full, [rng.randrange(n)], [1, 2, 3, 4][:n]])
        sub = [maps[i] for i in idx]
        base = {"op": "to_local", "maps": {"bundled": idx}, "allow": rng.random() < 0.5, "xml": True,
                "attrs": gen_typed_statement(rng, sub)}
        if not base["attrs"]:
            continue
        yield base
        if rng.random() < 0.6:
            g = glue_variant(rng, json.loads(json.dumps(base)))
            if g is not None:
                yield g

    # random custom map sets
    for _ in range(500 if tier == "quick" else 6000):
        maps_j, feature = gen_custom_set(rng)
        via = "from_dict" if rng.random() < 0.6 else "module"
        base = {"maps": {"custom": maps_j}, "via": via}
        maps = raw_maps({"maps": {"custom": maps_j}})
        eff = [m for m in maps if is_map(m)]
        if feature == "non-map" and via == "from_dict":
            yield dict(base, op="to_local", allow=False, xml=False, attrs=gen_statement(rng, maps, False))
            continue
        fmts = [m["identifier"] for m in eff]
        wf = all(round_trip_wf(m) for m in eff)
        # a share of the sets loaded from real modules is also given to real entities (attribute_map_dir)
        glue_set = via == "module" and bool(eff) and rng.random() < 0.5
        glue_entities = glue_set and rng.random() < 0.15
        batch = []
        for _ in range(rng.randint(4, 10)):
            c = rng.randrange(3)
            xml = rng.random() < 0.35
            if c == 0 or not eff:
                send = None if (not eff or rng.random() < 0.5) else rng.randrange(len(eff))
                nf = rng.choice(fmts + ["urn:x-c17:format:none"])
                batch.append(dict(base, op="to_wire", send=send, nf=nf,
                                  ava=gen_identity(rng, eff if send is None else [eff[send]], False, False, True)))
            if c == 1 or not eff:
                batch.append(dict(base, op="to_local", allow=rng.random() < 0.4, xml=xml, attrs=gen_statement(rng, maps, xml)))
            if c == 2 and eff and wf:
                send = None if rng.random() < 0.5 else rng.randrange(len(eff))
                nf = rng.choice(fmts + ["urn:x-c17:format:none"]) if send is None else fmts[send]
                src = [m for m in eff if m["identifier"] == nf][:1] if send is None else [eff[send]]
                ava = gen_identity(rng, src, xml, rng.random() < 0.7, allow_empty_eptid=feature is None and rng.random() < 0.15)
                batch.append(dict(base, op="roundtrip", send=send, nf=nf, allow=rng.random() < 0.4, ava=ava,
                                  xml=xml and xml_safe_identity(ava)))
        for case in batch:
            yield case
            if glue_set and rng.random() < 0.7:
                g = glue_variant(rng, json.loads(json.dumps(case)), entities_ok=glue_entities)
                if g is not None:
                    yield g


# ------------------------------------------------------------------ shrinking, neighbours, evidence


def shrink(case):
    for fld in ("ava", "attrs"):
        if fld in case and len(case[fld]) > 1:
            for i in range(len(case[fld])):
                c = dict(case)
                c[fld] = case[fld][:i] + case[fld][i + 1:]
                if fld == "attrs" and case.get("groups") is not None:  # keep the statements' indices valid
                    c["groups"] = [[j - (j > i) for j in g if j != i] for g in case["groups"]]
                yield c
    if "custom" in case.get("maps", {}) and len(case["maps"]["custom"]) > 1 and case.get("send") is None:
        for i in range(len(case["maps"]["custom"])):
            c = dict(case)
            c["maps"] = {"custom": case["maps"]["custom"][:i] + case["maps"]["custom"][i + 1:]}
            yield c
    if case.get("glue"):
        c = dict(case)
        c["glue"] = "objects" if case["glue"] == "entities" else None
        yield c
    if case.get("xml") and not case.get("glue"):
        c = dict(case)
        c["xml"] = False
        yield c
    if case.get("allow"):
        c = dict(case)
        c["allow"] = False
        yield c
    if "ava" in case:
        for i, (k, v) in enumerate(case["ava"]):
            if "list" in v and len(v["list"]) > 1:
                for j in range(len(v["list"])):
                    c = dict(case)
                    c["ava"] = [list(x) for x in case["ava"]]
                    c["ava"][i] = [k, {"list": v["list"][:j] + v["list"][j + 1:]}]
                    yield c


def neighbours(case, rng):
    """Around a disagreement: the same identity as a round trip / one-way, with and without XML and allow."""
    if case["op"] == "to_wire":
        yield dict(case, op="roundtrip", allow=False, xml=False)
        yield dict(case, op="roundtrip", allow=True, xml=False)
    if case["op"] == "roundtrip":
        yield dict(case, op="to_wire")
        yield dict(case, allow=not case.get("allow"))
        yield dict(case, xml=False)
    if case["op"] == "to_local":
        yield dict(case, allow=not case.get("allow"))
        yield dict(case, xml=False)
        for a in case["attrs"]:
            yield dict(case, attrs=[a], xml=False)
    if case["op"] in ("to_wire", "roundtrip"):
        for e in case["ava"]:
            yield dict(case, ava=[e], xml=False)


def search_cases(rng, broken, build_log):
    """A table lemma broke: send every bundled attribute through the real converters again, with the
    plain value list (the exhaustive pairs already do; this adds the whole-set variants)."""
    raw = _bundled_raw()
    full = list(range(len(raw)))
    for i, m in enumerate(raw):
        for key in (m.get("to") or {}):
            yield {"op": "to_wire", "maps": {"bundled": full}, "send": i, "nf": m["identifier"], "ava": [[key, {"list": ["v"]}]]}


def distribution(recs):
    d = {"ops": {}, "branches": {}, "map_sets": {}, "transport": {}, "glue": {}}
    for r in recs:
        c = r["case"]
        d["ops"][c["op"]] = d["ops"].get(c["op"], 0) + 1
        for p in r["lean"].get("paths") or []:
            d["branches"][p] = d["branches"].get(p, 0) + 1
        if "maps" in c:
            k = "bundled" if "bundled" in c["maps"] else "custom/" + str(c.get("via"))
            d["map_sets"][k] = d["map_sets"].get(k, 0) + 1
            t = "xml" if c.get("xml") else "objects"
            d["transport"][t] = d["transport"].get(t, 0) + 1
            g = "%s/%s" % (c.get("glue") or "direct", c["op"])
            d["glue"][g] = d["glue"].get(g, 0) + 1
    return d
