"""C05 — validity windows plus skew.  One-dimensional sweeps of each of the six timestamps over the
quantifier's offsets x skew x syntax are exhaustive; pairs/triples are sampled."""
import copy
import json

import spflow as F

import scenario as S
from props._sp_common import *  # noqa: F401,F403
from props import _sp_common as C

PROP = "C05"
LEAN_PROPS = "PysamlModel.Props.C05"
AUDIT = "PysamlModel/Audit/C05.lean"
CORRESPONDENCE = "Drivers/Sp.lean (Sp.process) vs Saml2Client.parse_authn_request_response, time dimension"
RULE = ("each of the six timestamps at each offset of the quantifier (absent, -1h, -skew-2s … +1d±) x skew in "
        "{unset,0,60,180} x syntax {plain, fractional} under the frozen clock, complete; the confirmation/Conditions sweeps "
        "repeated with an Address attribute, with conversation information and behind a data-less confirmation; the "
        "Conditions/confirmation/IssueInstant sweeps repeated on the attribute-query answer path "
        "(parse_attribute_query_response); pairs and triples sampled; a cross-dimension random stream; "
        "distinct = distinct (timestamp, offset, skew, syntax) cells")
TRUSTED = C.TRUSTED_COMMON + ["time.strptime/calendar.timegm parse the rendered timestamps (str_to_time is exercised, not modelled)"]
ASSUMPTIONS = C.ASSUMPTIONS_COMMON + ["the second where now == bound +- skew is unconstrained by the spec",
                                       "a bearer SubjectConfirmationData with NotBefore but no NotOnOrAfter (skipped by the code) is unconstrained"]
EXHAUSTIVE = True

STAMPS = ["c_nb", "c_nooa", "sc_nb", "sc_nooa", "sess", "ii"]
DAY = 86400


def offsets(skew):
    k = skew or 0
    return [None, -3600, -k - 2, -k - 1, -k, -k + 1, -1, 0, 1, k - 1, k, k + 1, k + 2, 3600,
            DAY - k - 1, DAY - 1, DAY, DAY + 1, DAY + k - 1, DAY + k, DAY + k + 1, DAY + k + 2,
            -DAY - k - 2, -DAY - k - 1, -DAY - k, -DAY - k + 1, -DAY + 1, -DAY, -DAY - 1]


def place(case, stamp, off):
    now = case["env"]["now"]
    v = None if off is None else now + off
    a = case["resp"]["assertions"][0]
    if stamp == "c_nb":
        a["conditions"]["nb"] = v
    elif stamp == "c_nooa":
        a["conditions"]["nooa"] = v
    elif stamp == "sc_nb":
        a["subject"]["confs"][0]["data"]["nb"] = v
    elif stamp == "sc_nooa":
        a["subject"]["confs"][0]["data"]["nooa"] = v
    elif stamp == "sess":
        a["authn"][0]["session_nooa"] = v
    elif stamp == "ii":
        if v is not None:
            case["resp"]["issue_instant"] = v
    return case


def fresh(skew, syntax, rng=None):
    c = C.base_case(PROP)
    if skew is not None:
        c["cfg"]["skew"] = skew
    c["syntax"] = syntax
    # generous defaults so that only the swept timestamp decides
    a = c["resp"]["assertions"][0]
    a["conditions"]["nb"] = None
    a["conditions"]["nooa"] = S.NOW0 + 10 * DAY
    a["subject"]["confs"][0]["data"]["nooa"] = S.NOW0 + 10 * DAY
    return c


def gen_cases(rng, tier):
    for skew in (None, 0, 60, 180):
        for syntax in ("z", "frac"):
            for stamp in STAMPS:
                for off in offsets(skew):
                    c = place(fresh(skew, syntax), stamp, off)
                    c["tag"] = "%s@%s/skew=%s/%s" % (stamp, off, skew, syntax)
                    yield c
    # the same sweeps with features on the confirmation that must not switch a window off: an Address attribute,
    # a Recipient check driven by conversation information, a data-less confirmation in front
    for skew in (None, 60):
        for stamp in ("sc_nb", "sc_nooa", "c_nooa", "c_nb", "sess"):
            for off in offsets(skew):
                for feat in ("address", "conv", "nodata-first"):
                    c = place(fresh(skew, "z"), stamp, off)
                    a = c["resp"]["assertions"][0]
                    if feat == "address":
                        a["subject"]["confs"][0]["data"]["address"] = "192.0.2.7"
                    elif feat == "conv":
                        c["env"]["conv_info"] = {"entity_id": S.SP_ID, "remote_addr": "192.0.2.7"}
                        a["subject"]["confs"][0]["data"]["address"] = "192.0.2.7"
                    else:
                        a["subject"]["confs"].insert(0, {"method": "sender-vouches", "data": None})
                    c["tag"] = "%s@%s/skew=%s/%s" % (stamp, off, skew, feat)
                    yield c
    # attribute-query answers (parse_attribute_query_response -> AttributeResponse): the same sweeps of the Conditions and
    # confirmation timestamps and of IssueInstant, with and without an AuthnStatement in the assertion
    for skew in (None, 0, 60, 180):
        for stamp in ("c_nb", "c_nooa", "sc_nb", "sc_nooa", "ii"):
            for off in offsets(skew):
                c = place(fresh(skew, "z"), stamp, off)
                c["env"]["kind"] = "attr"
                c["env"]["binding"] = "soap"
                c["return_addrs"] = []
                c["resp"]["destination"] = None
                if (off or 0) % 2 == 0:
                    c["resp"]["assertions"][0]["authn"] = []
                c["tag"] = "attr:%s@%s/skew=%s" % (stamp, off, skew)
                yield c
    # lexical forms beyond UTC-with-Z: no designator (the library reads it as UTC) and numeric zone designators (legal
    # xs:dateTime, not legal SAML; the library does not read them, the message yields nothing).  The instants of the case
    # are the TRUE instants: a library that accepted a designator and then ignored it would be off by the zone shift
    for syntax in list(F.OFFSETS) + ["nozone"]:
        for skew in (None, 60):
            for stamp in STAMPS:
                for off in (None, -43200 - 61, -19800 - 61, -7200 - 61, -3600, -61, -1, 1, 61, 3600, 7200 + 61, 12600 + 61,
                            43200 + 61, DAY + 3600, -DAY - 3600):
                    if stamp != "ii" and abs(off or 0) > DAY:
                        continue
                    c = place(fresh(skew, syntax), stamp, off)
                    c["env"]["time_form"] = F.time_form(syntax)
                    c["tag"] = "%s@%s/skew=%s/%s" % (stamp, off, skew, syntax)
                    if stamp in ("c_nooa", "sc_nb") and off in (-61, 61):
                        yield C.as_factory(json.loads(json.dumps(c)))
                        c2 = json.loads(json.dumps(c))
                        c2["env"]["kind"] = "attr"
                        c2["env"]["binding"] = "soap"
                        c2["return_addrs"] = []
                        c2["resp"]["destination"] = None
                        c2["tag"] = "attr:" + c2["tag"]
                        yield c2
                    yield c
    # the other public entry points (saml2.response.authn_response + loads + verify, and saml2.response.response_factory +
    # verify): the same window sweeps, solicited and with unsolicited Responses allowed
    for via in (None, "response_factory"):
        for uns in (False, True):
            for skew in (None, 0, 60, 180):
                for stamp in STAMPS:
                    for off in offsets(skew):
                        if uns and off is not None and abs(off) > 3600 and stamp != "ii":
                            continue
                        c = C.as_factory(place(fresh(skew, "frac" if (off or 0) % 2 else "z"), stamp, off))
                        if via:
                            c["env"]["via"] = via
                        c["env"]["time_form"] = F.time_form(c["syntax"])
                        if uns:
                            c["cfg"]["allow_unsolicited"] = True
                        c["tag"] = "%s@%s/skew=%s/uns=%s/via=%s" % (stamp, off, skew, uns, via or "authn_response")
                        yield c
    # further fractional-second syntaxes (1, 6, 7 and 9 digits, all zeros) on every timestamp at the deciding offsets
    for syntax in ("frac1", "frac6", "frac7", "frac9", "frac0s"):
        for stamp in STAMPS:
            for off in (-3600, -61, -59, 1, 59, 61, 3600):
                c = place(fresh(60, syntax), stamp, off)
                c["tag"] = "%s@%s/skew=60/%s" % (stamp, off, syntax)
                yield c
    # the process time zone must not matter (all SAML times are UTC): the IssueInstant and window sweeps under zones
    # west and east of Greenwich
    for tz in ("PST8", "AEST-10", "EST5EDT,M3.2.0,M11.1.0"):
        for skew in (None, 60):
            for stamp in STAMPS:
                for off in offsets(skew):
                    if stamp != "ii" and abs(off or 0) > 3600:
                        continue
                    c = place(fresh(skew, "z"), stamp, off)
                    c["env"]["tz"] = tz
                    c["tag"] = "%s@%s/skew=%s/tz=%s" % (stamp, off, skew, tz.split(",")[0])
                    yield c
    # inverted windows whose two bounds lie within the same minute / hour / day, inside the skew band
    for skew in (60, 180, 3600):
        for which in ("cond", "sc"):
            for nb_off, nooa_off in ((20, 5), (5, 4), (59, 0), (30, -20), (-5, -30), (1, 0), (0, -1), (50, 10), (3, 2)):
                c = fresh(skew, "z")
                c["env"]["now"] = S.NOW0 - (S.NOW0 % 60) + 0  # start of a minute: both bounds in the same minute
                c["resp"]["issue_instant"] = c["env"]["now"]
                a = c["resp"]["assertions"][0]
                a["conditions"]["nooa"] = c["env"]["now"] + 600
                a["subject"]["confs"][0]["data"]["nooa"] = c["env"]["now"] + 600
                tgt = a["conditions"] if which == "cond" else a["subject"]["confs"][0]["data"]
                tgt["nb"] = c["env"]["now"] + nb_off
                tgt["nooa"] = c["env"]["now"] + nooa_off
                c["tag"] = "inverted-same-minute:%s/%s>%s/skew=%s" % (which, nb_off, nooa_off, skew)
                yield c
    n = 400 if tier == "quick" else 6000
    for _ in range(n):
        skew = rng.choice([None, 0, 60, 180, 7])
        c = fresh(skew, rng.choice(["z", "frac", "frac7", "frac9"]))
        for stamp in rng.sample(STAMPS, rng.randint(2, 4)):
            place(c, stamp, rng.choice(offsets(skew)))
        if rng.random() < 0.2:
            c["env"]["binding"] = "soap"
            c["return_addrs"] = []
            c["resp"]["destination"] = None
        if rng.random() < 0.15:
            c["cfg"] = dict(c["cfg"], want_resp=None)
            c["resp"]["sig"] = "valid"
        if rng.random() < 0.1:
            c["resp"]["assertions"][0]["encrypted"] = True
        c["tag"] = "combo"
        yield c
    # a second confirmation / a second clock
    for _ in range(60 if tier == "quick" else 600):
        skew = rng.choice([None, 0, 60])
        c = fresh(skew, "z")
        c["env"]["now"] = S.NOW0 + rng.choice([-10 ** 6, 12345, 10 ** 7])
        c["resp"]["issue_instant"] = c["env"]["now"]
        a = c["resp"]["assertions"][0]
        a["conditions"]["nooa"] = c["env"]["now"] + 600
        a["subject"]["confs"][0]["data"]["nooa"] = c["env"]["now"] + 600
        for stamp in rng.sample(STAMPS[:5], 2):
            place(c, stamp, rng.choice(offsets(skew)[:14]))
        c["tag"] = "other-clock"
        yield c
    # cross-dimension stream: every dimension of the SP model varied at once
    for _ in range(150 if tier == "quick" else 4000):
        yield C.random_full(rng, PROP)
    for _ in range(60 if tier == "quick" else 1500):
        yield C.via_entry(C.random_full(rng, PROP), "response_factory")

    # extension <Condition> elements (condition_ok): entry point x configured schemas x condition types; the understood
    # ones crossed with the window sweeps of the Conditions element (an understood extension condition must not displace
    # the time tests, nor the reported expiry)
    def vary_window(c, rng):
        skew = rng.choice([None, 0, 60, 180])
        if skew is not None:
            c["cfg"]["skew"] = skew
        for stamp in rng.sample(["c_nb", "c_nooa", "c_nooa", "sc_nooa", "sess"], rng.choice([1, 1, 2])):
            off = rng.choice(offsets(skew)[:14])
            place(c, stamp, off)
            c["tag"] += "/%s%s" % (stamp, off)
        c["syntax"] = rng.choice(["z", "z", "frac", "frac7"])
        c["env"]["time_form"] = F.time_form(c["syntax"])

    yield from C.extension_cases(rng, PROP, tier, vary_window)


def finding_key(case, impl, lean):
    return None


def distribution(recs):
    d = {}
    for r in recs:
        k = r["case"].get("tag", "?").split("@")[0].split("/")[0] + ":" + r["impl"].get("r")
        d[k] = d.get(k, 0) + 1
    return d
