"""Shared pieces of the C01/C04/C05/C06 harness modules (one SP model, one driver, four projections)."""
import copy

import scenario as S
import spflow as F
from translate import spdefaults, statuscodes

MODEL_TARGETS = ["PysamlModel.Model.Sp", "PysamlModel.Spec.Sp", "PysamlModel.Gen.StatusCodes", "PysamlModel.Gen.SpDefaults"]
DRIVER = "Drivers/Sp.lean"
GEN = [statuscodes.generate, spdefaults.generate]
PARALLEL = True
TRUSTED_COMMON = [
    "xmlsec1 stand-in (harness/standin/xmlsec_standin.py): model of xmlsec1's documented behaviour; real RSA/AES via `cryptography`",
    "independent XML writer harness/spflow.py renders the abstract Response; XML parsing (xml.etree/defusedxml) and pysaml2's object model are exercised, not modelled",
    "ideal cryptography in the Lean model: a signature is one of {absent, valid, corrupted, untrusted}; an encrypted assertion is decryptable or not",
    "virtual clock installed by harness/scenario.py (time.gmtime/time.time/datetime.utcnow)",
]
ASSUMPTIONS_COMMON = [
    "at most one plain and one encrypted assertion per generated Response unless a case is about the assertion count",
    "Address attributes, when generated, are syntactically valid IP addresses",
]

_defaults = {}


def setup():
    S.install()
    _defaults.update(spdefaults.read_defaults())


def defaults():
    if not _defaults:
        _defaults.update(spdefaults.read_defaults())
    return {k: (v is True or v == "true") for k, v in _defaults.items()}


def base_assertion(rid="req-1", binding="post", **over):
    a = {"id": "a-1", "issuer": S.IDP_ID, "sig": "absent", "encrypted": False, "decryptable": True,
         "subject": {"name_id": "user-1", "confs": [{"method": "bearer", "data": {
             "nooa": S.NOW0 + 300, "recipient": F.own_addrs(binding)[0] if F.own_addrs(binding) else S.SP_ACS_POST,
             "irt": rid}}]},
         "conditions": {"nb": S.NOW0 - 60, "nooa": S.NOW0 + 300, "audiences": [[S.SP_ID]]},
         "authn": [{"session_index": "sess-1"}],
         "attrs": [["urn:oid:2.5.4.42", "urn:oasis:names:tc:SAML:2.0:attrname-format:uri", "givenName", ["Anna"]]]}
    a.update(over)
    return a


def base_case(prop, binding="post", rid="req-1", cfg=None, **resp_over):
    """An otherwise-valid, unsigned, solicited Response for an SP that does not require signatures
    (cfg can override)."""
    addrs = F.own_addrs(binding)
    r = {"id": "r-1", "version": "2.0", "issue_instant": S.NOW0, "destination": addrs[0] if addrs else None,
         "in_response_to": rid, "issuer": S.IDP_ID, "sig": "absent",
         "assertions": [base_assertion(rid, binding)]}
    r.update(resp_over)
    c = {"prop": prop, "cfg": cfg if cfg is not None else {"want_resp": False},
         "defaults": defaults(), "entity_id": S.SP_ID, "return_addrs": addrs,
         "env": {"now": S.NOW0, "binding": binding, "outstanding": [[rid, "/came/from/" + rid]], "conv_info": None},
         "resp": r}
    return c


def run_impl(case):
    return F.run_sp(case)


def compare(case, impl, model):
    if model is None or impl.get("r") != model.get("r"):
        return False
    if impl.get("cached", False) != model.get("cached", False):
        return False
    if impl["r"] == "identity":
        for k in ("name_id", "issuer", "came_from", "not_on_or_after", "session_index"):
            if impl.get(k) != model.get(k):
                return False
    if impl["r"] == "rejected" and "err" in model:
        return impl.get("err") == model["err"]
    return True


def distribution(recs):
    d = {}
    for r in recs:
        k = r["impl"].get("r") + ("/" + r["impl"]["err"] if r["impl"].get("err") else "")
        d[k] = d.get(k, 0) + 1
    return d


def nontrivial(case, impl, lean):
    return True


def mutate_valid_content(rng, case):
    """random otherwise-valid message content (does not touch what the property is about)"""
    c = copy.deepcopy(case)
    r = c["resp"]
    a = r["assertions"][0]
    a["subject"]["name_id"] = rng.choice(["user-1", "üser-√", "a b", "x" * 40, "u@example.org"])
    a["authn"][0]["session_index"] = rng.choice(["sess-1", None, "s_" + str(rng.randrange(1000))])
    a["attrs"] = [["urn:oid:2.5.4.42", "urn:oasis:names:tc:SAML:2.0:attrname-format:uri", "givenName",
                   [rng.choice(["Anna", "Björn", "<&>", "  padded  "])]]]
    if rng.random() < 0.3:
        a["conditions"]["nb"] = None
    if rng.random() < 0.3:
        a["authn"][0]["session_nooa"] = S.NOW0 + rng.choice([100, 1000, 100000])
    if rng.random() < 0.3:
        a["subject"]["confs"][0]["data"]["nb"] = S.NOW0 - rng.choice([1, 10, 100])
    c["syntax"] = rng.choice(["z", "z", "frac"])
    return c
