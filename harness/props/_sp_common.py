"""Shared pieces of the C01/C04/C05/C06 harness modules (one SP model, one driver, four projections)."""
import copy

import scenario as S
import spflow as F
from translate import spdefaults, statuscodes

MODEL_TARGETS = ["PysamlModel.Model.Sp", "PysamlModel.Spec.Sp", "PysamlModel.Gen.StatusCodes", "PysamlModel.Gen.SpDefaults"]
DRIVER = "Drivers/Sp.lean"
GEN = [statuscodes.generate, spdefaults.generate]
PARALLEL = True
TRUSTED_COMMON = [
    "xmlsec1 stand-in (harness/standin/xmlsec_standin.py): model of xmlsec1's documented behaviour; real RSA/AES via `cryptography`",
    "independent XML writer harness/spflow.py renders the abstract Response; XML parsing (xml.etree/defusedxml) and pysaml2's object model are exercised, not modelled",
    "ideal cryptography in the Lean model: a signature is one of {absent, valid, corrupted, untrusted}; an encrypted assertion is decryptable or not",
    "virtual clock installed by harness/scenario.py (time.gmtime/time.time/datetime.utcnow)",
]
ASSUMPTIONS_COMMON = [
    "at most one plain and one encrypted assertion per generated Response unless a case is about the assertion count",
    "Address attributes, when generated, are syntactically valid IP addresses",
]

_defaults = {}


def setup():
    S.install()
    _defaults.update(spdefaults.read_defaults())


def defaults():
    if not _defaults:
        _defaults.update(spdefaults.read_defaults())
    return {k: (v is True or v == "true") for k, v in _defaults.items()}


def base_assertion(rid="req-1", binding="post", **over):
    a = {"id": "a-1", "issuer": S.IDP_ID, "sig": "absent", "encrypted": False, "decryptable": True,
         "subject": {"name_id": "user-1", "confs": [{"method": "bearer", "data": {
             "nooa": S.NOW0 + 300, "recipient": F.own_addrs(binding)[0] if F.own_addrs(binding) else S.SP_ACS_POST,
             "irt": rid}}]},
         "conditions": {"nb": S.NOW0 - 60, "nooa": S.NOW0 + 300, "audiences": [[S.SP_ID]]},
         "authn": [{"session_index": "sess-1"}],
         "attrs": [["urn:oid:2.5.4.42", "urn:oasis:names:tc:SAML:2.0:attrname-format:uri", "givenName", ["Anna"]]]}
    a.update(over)
    return a


def base_case(prop, binding="post", rid="req-1", cfg=None, **resp_over):
    """An otherwise-valid, unsigned, solicited Response for an SP that does not require signatures
    (cfg can override)."""
    addrs = F.own_addrs(binding)
    r = {"id": "r-1", "version": "2.0", "issue_instant": S.NOW0, "destination": addrs[0] if addrs else None,
         "in_response_to": rid, "issuer": S.IDP_ID, "sig": "absent",
         "assertions": [base_assertion(rid, binding)]}
    r.update(resp_over)
    c = {"prop": prop, "cfg": cfg if cfg is not None else {"want_resp": False},
         "defaults": defaults(), "entity_id": S.SP_ID, "return_addrs": addrs,
         "env": {"now": S.NOW0, "binding": binding, "outstanding": [[rid, "/came/from/" + rid]], "conv_info": None},
         "resp": r}
    return c


def random_full(rng, prop):
    """One random combination over ALL dimensions of the SP model at once (signature policy and states, addressing,
    validity windows, correlation, status/shape, 1-2 assertions plain or encrypted).  Every defect is drawn with a small
    probability so that roughly a third of the cases is accepted; used by C01/C04/C05/C06 as a cross-dimension stream."""
    binding = rng.choice(["post", "post", "redirect", "soap"])
    c = base_case(prop, binding=binding)
    if binding == "soap":
        c["return_addrs"] = []
        c["resp"]["destination"] = None
    cfg = {}
    for k in ("want_resp", "want_assert", "want_either"):
        v = rng.choice([None, None, True, False])
        if v is not None:
            cfg[k] = v
    if rng.random() < 0.3:
        cfg["allow_unsolicited"] = rng.random() < 0.6
    skew = rng.choice([None, None, 0, 60, 180])
    if skew is not None:
        cfg["skew"] = skew
    c["cfg"] = cfg
    r = c["resp"]
    need_resp = cfg.get("want_resp", True)
    r["sig"] = rng.choice(["valid"] * 15 + ["absent", "corrupted", "untrusted"]) if need_resp else \
        rng.choice(["absent"] * 10 + ["valid", "valid", "valid", "corrupted", "untrusted"])
    a0 = r["assertions"][0]
    asserts = []
    for i in range(rng.choice([1, 1, 1, 1, 2])):
        a = copy.deepcopy(a0)
        a["id"] = "a-%d" % i
        need_a = cfg.get("want_assert", False) or (cfg.get("want_either", False) and r["sig"] != "valid")
        a["sig"] = rng.choice(["valid"] * 15 + ["absent", "corrupted", "untrusted"]) if need_a else \
            rng.choice(["absent"] * 10 + ["valid", "valid", "valid", "corrupted", "untrusted"])
        if rng.random() < 0.2:
            a["encrypted"] = True
            a["decryptable"] = rng.random() < 0.85
        d = a["subject"]["confs"][0]["data"]
        k = skew or 0
        offs = [-3600, -k - 2, -k - 1, -k, -k + 1, 0, k - 1, k, k + 1, k + 2, 3600]
        if rng.random() < 0.12:
            a["conditions"]["nooa"] = S.NOW0 + rng.choice(offs)
        if rng.random() < 0.12:
            a["conditions"]["nb"] = S.NOW0 + rng.choice(offs)
        if rng.random() < 0.12:
            d["nooa"] = S.NOW0 + rng.choice(offs)
        if rng.random() < 0.08:
            d["nb"] = S.NOW0 + rng.choice(offs)
        if rng.random() < 0.1:
            a["authn"][0]["session_nooa"] = S.NOW0 + rng.choice(offs)
        if rng.random() < 0.1:
            d["address"] = rng.choice(["192.0.2.7", "2001:db8::1"])
        if rng.random() < 0.12:
            a["conditions"]["audiences"] = rng.choice([[["https://other.verif.example/sp"]], [[S.SP_ID], ["https://other.verif.example/sp"]],
                                                       [[S.SP_ID, "https://other.verif.example/sp"]], [], [[S.SP_ID + "/"]], [[" " + S.SP_ID]]])
        if rng.random() < 0.1:
            d["recipient"] = rng.choice(["https://evil.example/acs", S.SP_ID, None, (d.get("recipient") or "x") + "/"])
        if rng.random() < 0.1:
            d["irt"] = rng.choice(["req-2", "req-unknown", None])
        if rng.random() < 0.06:
            a["subject"]["confs"].insert(rng.randrange(2), {"method": rng.choice(["bearer", "sender-vouches", "holder-of-key"]), "data": None})
        if rng.random() < 0.04:
            a["authn"] = [dict(a["authn"][0], session_index="s%d" % j) for j in range(rng.choice([0, 2]))]
        # (a missing Subject is left to C06's own streams: the real code refuses it while loading, the model when it
        #  reaches the subject; combined with an envelope defect that returns None the two would differ in
        #  "rejected" vs "no identity", which no property distinguishes)
        asserts.append(a)
    r["assertions"] = asserts
    if rng.random() < 0.1 and binding != "soap":
        r["destination"] = rng.choice(["https://evil.example/acs", None, "", S.SP_ID, (r["destination"] or "x") + "x"])
    if rng.random() < 0.1:
        r["in_response_to"] = rng.choice(["req-2", "req-unknown", None])
    if rng.random() < 0.15:
        c["env"]["outstanding"] = rng.choice([[], [["req-0", "/came/0"], ["req-1", "/came/1"], ["req-2", "/came/2"]]])
    if rng.random() < 0.08:
        r["issue_instant"] = S.NOW0 + rng.choice([-86400 - k - 2, -86400 + 5, 86400 + k + 2, 86400 - 5, -3600])
    if rng.random() < 0.04:
        r["version"] = rng.choice(["1.1", "2.1", "3.0"])
    if rng.random() < 0.05:
        r["status_top"] = "urn:oasis:names:tc:SAML:2.0:status:Responder"
        r["status_second"] = rng.choice([None, "urn:oasis:names:tc:SAML:2.0:status:AuthnFailed", "urn:example:status"])
    if rng.random() < 0.25:
        c["env"]["conv_info"] = rng.choice([{"entity_id": S.SP_ID}, {"entity_id": S.SP_ID, "remote_addr": "192.0.2.7"},
                                            {"remote_addr": "192.0.2.7"}, {"entity_id": "https://other.verif.example/sp"}])
    c["syntax"] = rng.choice(["z", "z", "frac"])
    c["tag"] = "cross"
    return c


def as_attr(case, keep_authn=True):
    """Turn a case into an attribute-query answer (Saml2Client.parse_attribute_query_response; Model/SpAttr.lean)."""
    case["env"]["kind"] = "attr"
    case["env"]["binding"] = "soap"
    case["env"]["conv_info"] = None
    case["return_addrs"] = []
    case["resp"]["destination"] = None
    if not keep_authn:
        for a in case["resp"]["assertions"]:
            a["authn"] = []
    case["tag"] = "attr/" + case.get("tag", "")
    return case


def as_factory(case):
    """Run the case through the second public entry point (saml2.response.authn_response + loads + verify;
    Model/SpFactory.lean) instead of Saml2Client.parse_authn_request_response."""
    case["env"]["kind"] = "factory"
    case["tag"] = "factory/" + case.get("tag", "")
    return case


def run_impl(case):
    return F.run_sp(case)


def compare(case, impl, model):
    if model is None or impl.get("r") != model.get("r"):
        return False
    if impl.get("cached", False) != model.get("cached", False):
        return False
    if impl["r"] == "identity":
        for k in ("name_id", "issuer", "came_from", "not_on_or_after", "session_index"):
            if impl.get(k) != model.get(k):
                return False
    if impl["r"] == "rejected" and "err" in model:
        return impl.get("err") == model["err"]
    return True


def distribution(recs):
    d = {}
    for r in recs:
        k = r["impl"].get("r") + ("/" + r["impl"]["err"] if r["impl"].get("err") else "")
        d[k] = d.get(k, 0) + 1
    return d


def nontrivial(case, impl, lean):
    return True


def mutate_valid_content(rng, case):
    """random otherwise-valid message content (does not touch what the property is about)"""
    c = copy.deepcopy(case)
    r = c["resp"]
    a = r["assertions"][0]
    a["subject"]["name_id"] = rng.choice(["user-1", "üser-√", "a b", "x" * 40, "u@example.org"])
    a["authn"][0]["session_index"] = rng.choice(["sess-1", None, "s_" + str(rng.randrange(1000))])
    a["attrs"] = [["urn:oid:2.5.4.42", "urn:oasis:names:tc:SAML:2.0:attrname-format:uri", "givenName",
                   [rng.choice(["Anna", "Björn", "<&>", "  padded  "])]]]
    if rng.random() < 0.3:
        a["conditions"]["nb"] = None
    if rng.random() < 0.3:
        a["authn"][0]["session_nooa"] = S.NOW0 + rng.choice([100, 1000, 100000])
    if rng.random() < 0.3:
        a["subject"]["confs"][0]["data"]["nb"] = S.NOW0 - rng.choice([1, 10, 100])
    c["syntax"] = rng.choice(["z", "z", "frac"])
    return c
