"""Shared pieces of the C01/C04/C05/C06 harness modules (one SP model, one driver, four projections)."""
import copy

import scenario as S
import spflow as F
from translate import spdefaults, statuscodes

MODEL_TARGETS = ["PysamlModel.Model.Sp", "PysamlModel.Spec.Sp", "PysamlModel.Gen.StatusCodes", "PysamlModel.Gen.SpDefaults"]
DRIVER = "Drivers/Sp.lean"
GEN = [statuscodes.generate, spdefaults.generate]
PARALLEL = True
TRUSTED_COMMON = [
    "xmlsec1 stand-in (harness/standin/xmlsec_standin.py): model of xmlsec1's documented behaviour; real RSA/AES via `cryptography`",
    "independent XML writer harness/spflow.py renders the abstract Response; XML parsing (xml.etree/defusedxml) and pysaml2's object model are exercised, not modelled",
    "ideal cryptography in the Lean model: a signature is one of {absent, valid, corrupted, untrusted}; an encrypted assertion is decryptable or not",
    "virtual clock installed by harness/scenario.py (time.gmtime/time.time/datetime.utcnow)",
]
ASSUMPTIONS_COMMON = [
    "at most one plain and one encrypted assertion per generated Response unless a case is about the assertion count",
    "Address attributes, when generated, are syntactically valid IP addresses",
]

_defaults = {}


def setup():
    S.install()
    _defaults.update(spdefaults.read_defaults())


def defaults():
    if not _defaults:
        _defaults.update(spdefaults.read_defaults())
    return {k: (v is True or v == "true") for k, v in _defaults.items()}


def base_assertion(rid="req-1", binding="post", **over):
    a = {"id": "a-1", "issuer": S.IDP_ID, "sig": "absent", "encrypted": False, "decryptable": True,
         "subject": {"name_id": "user-1", "confs": [{"method": "bearer", "data": {
             "nooa": S.NOW0 + 300, "recipient": F.own_addrs(binding)[0] if F.own_addrs(binding) else S.SP_ACS_POST,
             "irt": rid}}]},
         "conditions": {"nb": S.NOW0 - 60, "nooa": S.NOW0 + 300, "audiences": [[S.SP_ID]]},
         "authn": [{"session_index": "sess-1"}],
         "attrs": [["urn:oid:2.5.4.42", "urn:oasis:names:tc:SAML:2.0:attrname-format:uri", "givenName", ["Anna"]]]}
    a.update(over)
    return a


def base_case(prop, binding="post", rid="req-1", cfg=None, **resp_over):
    """An otherwise-valid, unsigned, solicited Response for an SP that does not require signatures
    (cfg can override)."""
    addrs = F.own_addrs(binding)
    r = {"id": "r-1", "version": "2.0", "issue_instant": S.NOW0, "destination": addrs[0] if addrs else None,
         "in_response_to": rid, "issuer": S.IDP_ID, "sig": "absent",
         "assertions": [base_assertion(rid, binding)]}
    r.update(resp_over)
    c = {"prop": prop, "cfg": cfg if cfg is not None else {"want_resp": False},
         "defaults": defaults(), "entity_id": S.SP_ID, "return_addrs": addrs,
         "env": {"now": S.NOW0, "binding": binding, "outstanding": [[rid, "/came/from/" + rid]], "conv_info": None},
         "resp": r}
    return c


# ---------------------------------------------------------------- extension conditions (AuthnResponse.condition_ok)

# schema modules an SP may name in `extension_schemas`; an extension <Condition> is understood iff its xsi:type is the
# NAMESPACE of one of the modules handed to the AuthnResponse (only response_factory hands them on)
EXT_MODS = ["saml2.extension.shibmd", "saml2.extension.idpdisc", "saml2.extension.mdui"]


def ext_namespace(mod):
    import importlib

    return importlib.import_module(mod).NAMESPACE  # read from the CURRENT source


def with_ext(case, mods):
    """configure the SP of `case` with the extension schema modules `mods`"""
    case["cfg"]["ext_schemas"] = list(mods)
    case["cfg"]["ext_namespaces"] = [ext_namespace(m) for m in mods]
    return case


def ext_type(rng, kind, mods=None):
    """an xsi:type value of the given class, relative to the configured modules `mods`"""
    mods = list(mods or [])
    if kind == "known" and mods:
        return ext_namespace(rng.choice(mods))
    if kind in ("known", "foreign"):  # a real schema namespace the SP was not configured with
        rest = [m for m in EXT_MODS if m not in mods] or ["saml2.extension.mdattr"]
        return ext_namespace(rng.choice(rest))
    if kind == "look":
        ns = ext_namespace(rng.choice(mods or EXT_MODS))
        return rng.choice([ns + "x", ns[:-1], ns.upper(), " " + ns, ns + "#Condition", "ext:" + ns])
    if kind == "qname":
        return rng.choice(["ext:Unknown", "shibmd:ScopeCondition", "xs:string"])
    if kind == "empty":
        return ""
    if kind == "missing":
        return None
    raise ValueError(kind)


ENTRIES = ("client", "authn_response", "response_factory")


# Until fix f342ca56 saml2.response.response_factory() built the AuthnResponse with update() instead of loads(): the
# load-time comparison with the caller's outstanding requests was skipped, and a Response whose InResponseTo is absent /
# unknown / another request's yielded identity as long as the bearer confirmation's InResponseTo was outstanding
# (found in round 5, design/C06.md; regression case corpus/C06/respfactory_uncorrelated.json).  The switch that kept
# uncorrelated Responses away from that entry point is on since the repair: they go through response_factory too.
RESPONSE_FACTORY_UNCORRELATED = True


def correlated(case):
    env, r = case["env"], case["resp"]
    if env["binding"] in ("soap", "paos") or case["cfg"].get("allow_unsolicited"):
        return True
    irt = r.get("in_response_to")
    if irt is None or irt not in [k for k, _ in env.get("outstanding", [])]:
        return False
    for a in r.get("assertions", []):
        for sc in (a.get("subject") or {}).get("confs", []):
            if sc.get("data") is not None and sc["data"].get("irt") != irt:
                return False
    return True


def via_entry(case, entry):
    """run the case through one of the three public entry points"""
    if entry == "client":
        return case
    as_factory(case)
    if entry == "response_factory" and not RESPONSE_FACTORY_UNCORRELATED and not correlated(case):
        entry = "authn_response"
    if entry == "response_factory":
        case["env"]["via"] = "response_factory"
        case["tag"] = "rf/" + case["tag"]
    return case


def extension_cases(rng, prop, tier, vary=None):
    """Extension conditions: entry point x configured schema modules x list of 1-2 conditions over
    {known, foreign namespace, look-alike, QName, empty, missing xsi:type}, with the other Conditions content present
    or absent; `vary(case, rng)` lets the calling property cross it with its own dimension."""
    import itertools

    kinds = ["known", "foreign", "look", "qname", "empty", "missing"]
    shapes = [[k] for k in kinds] + [["known", "known"]] + [["known", k] for k in kinds[1:]] + [[k, "known"] for k in kinds[1:]]
    for entry, mods, shape in itertools.product(ENTRIES, ([], EXT_MODS[:1], EXT_MODS[:2]), shapes):
        for rest in (("full", "bare") if shape in (["known"], ["foreign"], ["missing"], ["known", "known"]) else ("full",)):
            c = with_ext(base_case(prop, binding=rng.choice(["post", "redirect"])), mods)
            cond = c["resp"]["assertions"][0]["conditions"]
            if rest == "bare":  # the extension conditions are the only content of <Conditions>
                cond.update(nb=None, nooa=None, audiences=[])
            cond["extra"] = [ext_type(rng, k, mods) for k in shape]
            c["tag"] = "ext:%s/%d/%s/%s" % (entry, len(mods), ",".join(shape), rest)
            yield via_entry(c, entry)
    # signed carriers: signature verification validates the signed element against the SAML schemas, which no extension
    # condition passes (Model/SpLex.lean `schemaView`): signed Response over a clear / an encrypted assertion, signed assertion
    for entry, kind, signed, enc in itertools.product(ENTRIES, kinds, ("resp", "assertion", "both"), (False, True)):
        mods = EXT_MODS[:1]
        c = with_ext(base_case(prop, binding=rng.choice(["post", "redirect"])), mods)
        a = c["resp"]["assertions"][0]
        a["conditions"]["extra"] = [ext_type(rng, kind, mods)]
        a["encrypted"] = enc
        if signed in ("resp", "both"):
            c["resp"]["sig"] = "valid"
        if signed in ("assertion", "both"):
            a["sig"] = "valid"
        c["tag"] = "ext-signed:%s/%s/%s/%s" % (entry, kind, signed, "enc" if enc else "plain")
        yield via_entry(c, entry)
    if vary is not None:
        for _ in range(120 if tier == "quick" else 1500):
            mods = rng.choice([EXT_MODS[:1], EXT_MODS[:2], EXT_MODS[1:]])
            c = with_ext(base_case(prop, binding=rng.choice(["post", "redirect"])), mods)
            shape = rng.choice([["known"], ["known"], ["known", "known"], ["known", "known", "known"], ["known", "foreign"], ["look"]])
            c["resp"]["assertions"][0]["conditions"]["extra"] = [ext_type(rng, k, mods) for k in shape]
            c["tag"] = "extx:" + ",".join(shape)
            vary(c, rng)
            yield via_entry(c, rng.choice(["response_factory", "response_factory", "response_factory", "client", "authn_response"]))


# ---------------------------------------------------------------- assertions sharing one ID

def dup_id_cases(rng, prop, tier, spoil):
    """Assertion IDs are chosen by the sender and need not be unique: a Response with one assertion in clear and one
    EncryptedAssertion carrying the SAME ID (the saml2int count check lets exactly that shape through), either order,
    where one of the two is fine and the other is spoiled by `spoil(assertion, rng) -> tag` in the calling property's
    dimension.  Neither the model nor the code may let one assertion stand in for the other.  (Assertions sharing an ID
    are left unsigned: xmlsec1 refuses documents with duplicate ID values.)"""
    import itertools

    n = 6 if tier == "quick" else 40
    for which, enc_first, rsig, entry, _ in itertools.product(("clear", "enc", "none", "both"), (False, True), ("absent", "valid"),
                                                              ENTRIES, range(n)):
        if entry != "client" and (_ % 3):
            continue
        c = base_case(prop, binding=rng.choice(["post", "redirect"]))
        c["resp"]["sig"] = rsig
        if entry == "client" and rsig == "valid" and rng.random() < 0.5:
            c["cfg"] = {}
        clear = c["resp"]["assertions"][0]
        enc = copy.deepcopy(clear)
        enc["encrypted"] = True
        same = rng.random() < 0.8
        clear["id"] = enc["id"] = "a-same"
        if not same:
            enc["id"] = "a-other"
        enc["subject"]["name_id"] = "user-2"
        enc["authn"][0]["session_index"] = "sess-2"
        tags = []
        if which in ("clear", "both"):
            tags.append("clear:" + spoil(clear, rng))
        if which in ("enc", "both"):
            tags.append("enc:" + spoil(enc, rng))
        c["resp"]["assertions"] = [enc, clear] if enc_first else [clear, enc]
        c["tag"] = "dupid:%s/%s/%s/%s" % ("same" if same else "distinct", "enc-first" if enc_first else "clear-first", rsig, ",".join(tags) or "ok")
        yield via_entry(c, entry)


# ---------------------------------------------------------------- EncryptedID (AuthnResponse.get_subject)

def use_encrypted_id(a, decryptable=True, name=None):
    """identify the subject of assertion `a` by an <EncryptedID> instead of a <NameID>"""
    s = a["subject"]
    s["enc_id"] = {"name_id": name if name is not None else (s.get("name_id") or "user-1"), "decryptable": decryptable}
    s["name_id"] = None
    return a


def encrypted_id_cases(rng, prop, tier, vary=None):
    """Subject identified by an EncryptedID: entry point x carrier {plain, encrypted assertion} x decryptable x assertion
    signature x identifier text (plus the attribute-query answer path)."""
    import itertools

    names = ["user-1", "üser-√", "a b", "x" * 40, "u@example.org", "<&>"]
    for entry, enc, dec, asig in itertools.product(ENTRIES, (False, True), (True, False), ("absent", "valid", "corrupted")):
        c = base_case(prop, binding=rng.choice(["post", "redirect"]))
        a = c["resp"]["assertions"][0]
        use_encrypted_id(a, dec, rng.choice(names))
        a["encrypted"] = enc
        a["sig"] = asig
        c["tag"] = "encid:%s/%s/%s/%s" % (entry, "enc" if enc else "plain", "ok" if dec else "foreign-key", asig)
        yield via_entry(c, entry)
    for dec, keep in itertools.product((True, False), (True, False)):
        c = base_case(prop)
        use_encrypted_id(c["resp"]["assertions"][0], dec, rng.choice(names))
        c["tag"] = "encid-attr:%s" % ("ok" if dec else "foreign-key")
        yield as_attr(c, keep_authn=keep)
    # no identifier at all (neither NameID nor EncryptedID): accepted without a name (the code reports none)
    c = base_case(prop)
    c["resp"]["assertions"][0]["subject"]["name_id"] = None
    c["tag"] = "encid:none"
    yield c
    if vary is not None:
        for _ in range(80 if tier == "quick" else 1000):
            c = base_case(prop, binding=rng.choice(["post", "redirect"]))
            a = c["resp"]["assertions"][0]
            use_encrypted_id(a, rng.random() < 0.85, rng.choice(names))
            a["encrypted"] = rng.random() < 0.3
            c["tag"] = "encidx"
            vary(c, rng)
            yield via_entry(c, rng.choice(ENTRIES))


def random_full(rng, prop):
    """One random combination over ALL dimensions of the SP model at once (signature policy and states, addressing,
    validity windows, correlation, status/shape, 1-2 assertions plain or encrypted).  Every defect is drawn with a small
    probability so that roughly a third of the cases is accepted; used by C01/C04/C05/C06 as a cross-dimension stream."""
    binding = rng.choice(["post", "post", "redirect", "soap"])
    c = base_case(prop, binding=binding)
    if binding == "soap":
        c["return_addrs"] = []
        c["resp"]["destination"] = None
    cfg = {}
    for k in ("want_resp", "want_assert", "want_either"):
        v = rng.choice([None, None, True, False])
        if v is not None:
            cfg[k] = v
    if rng.random() < 0.3:
        cfg["allow_unsolicited"] = rng.random() < 0.6
    skew = rng.choice([None, None, 0, 60, 180])
    if skew is not None:
        cfg["skew"] = skew
    c["cfg"] = cfg
    r = c["resp"]
    need_resp = cfg.get("want_resp", True)
    r["sig"] = rng.choice(["valid"] * 15 + ["absent", "corrupted", "untrusted"]) if need_resp else \
        rng.choice(["absent"] * 10 + ["valid", "valid", "valid", "corrupted", "untrusted"])
    a0 = r["assertions"][0]
    asserts = []
    for i in range(rng.choice([1, 1, 1, 1, 2])):
        a = copy.deepcopy(a0)
        a["id"] = "a-%d" % i
        need_a = cfg.get("want_assert", False) or (cfg.get("want_either", False) and r["sig"] != "valid")
        a["sig"] = rng.choice(["valid"] * 15 + ["absent", "corrupted", "untrusted"]) if need_a else \
            rng.choice(["absent"] * 10 + ["valid", "valid", "valid", "corrupted", "untrusted"])
        if rng.random() < 0.2:
            a["encrypted"] = True
            a["decryptable"] = rng.random() < 0.85
        d = a["subject"]["confs"][0]["data"]
        k = skew or 0
        offs = [-3600, -k - 2, -k - 1, -k, -k + 1, 0, k - 1, k, k + 1, k + 2, 3600]
        if rng.random() < 0.12:
            a["conditions"]["nooa"] = S.NOW0 + rng.choice(offs)
        if rng.random() < 0.12:
            a["conditions"]["nb"] = S.NOW0 + rng.choice(offs)
        if rng.random() < 0.12:
            d["nooa"] = S.NOW0 + rng.choice(offs)
        if rng.random() < 0.08:
            d["nb"] = S.NOW0 + rng.choice(offs)
        if rng.random() < 0.1:
            a["authn"][0]["session_nooa"] = S.NOW0 + rng.choice(offs)
        if rng.random() < 0.1:
            d["address"] = rng.choice(["192.0.2.7", "2001:db8::1"])
        if rng.random() < 0.12:
            a["conditions"]["audiences"] = rng.choice([[["https://other.verif.example/sp"]], [[S.SP_ID], ["https://other.verif.example/sp"]],
                                                       [[S.SP_ID, "https://other.verif.example/sp"]], [], [[S.SP_ID + "/"]], [[" " + S.SP_ID]]])
        if rng.random() < 0.1:
            d["recipient"] = rng.choice(["https://evil.example/acs", S.SP_ID, None, (d.get("recipient") or "x") + "/"])
        if rng.random() < 0.1:
            d["irt"] = rng.choice(["req-2", "req-unknown", None])
        if rng.random() < 0.06:
            a["subject"]["confs"].insert(rng.randrange(2), {"method": rng.choice(["bearer", "sender-vouches", "holder-of-key"]), "data": None})
        if rng.random() < 0.04:
            a["authn"] = [dict(a["authn"][0], session_index="s%d" % j) for j in range(rng.choice([0, 2]))]
        # (a missing Subject is left to C06's own streams: the real code refuses it while loading, the model when it
        #  reaches the subject; combined with an envelope defect that returns None the two would differ in
        #  "rejected" vs "no identity", which no property distinguishes)
        if rng.random() < 0.08:
            # extension conditions, understood or not (only response_factory hands the configured schemas on)
            a["conditions"]["extra"] = [ext_type(rng, rng.choice(["known", "known", "known", "foreign", "look", "missing"]), EXT_MODS[:2])
                                        for _ in range(rng.choice([1, 1, 2]))]
        asserts.append(a)
    if rng.random() < 0.25:
        with_ext(c, EXT_MODS[:2])
    if len(asserts) == 1 and rng.random() < 0.1:
        # (with several assertions the library's whole-document decryption loop meets the EncryptedData of the
        #  EncryptedID first; kept to single-assertion Responses, see design/05-sp.md)
        use_encrypted_id(asserts[0], rng.random() < 0.8)
    if len(asserts) == 2 and asserts[0]["encrypted"] != asserts[1]["encrypted"] and rng.random() < 0.5 \
            and all(a["sig"] == "absent" for a in asserts):
        # the sender gave both assertions the same ID (unsigned ones: xmlsec1 refuses duplicate ID values)
        asserts[1]["id"] = asserts[0]["id"]
    r["assertions"] = asserts
    if rng.random() < 0.1 and binding != "soap":
        r["destination"] = rng.choice(["https://evil.example/acs", None, "", S.SP_ID, (r["destination"] or "x") + "x"])
    if rng.random() < 0.1:
        r["in_response_to"] = rng.choice(["req-2", "req-unknown", None])
    if rng.random() < 0.15:
        c["env"]["outstanding"] = rng.choice([[], [["req-0", "/came/0"], ["req-1", "/came/1"], ["req-2", "/came/2"]]])
    if rng.random() < 0.08:
        r["issue_instant"] = S.NOW0 + rng.choice([-86400 - k - 2, -86400 + 5, 86400 + k + 2, 86400 - 5, -3600])
    if rng.random() < 0.04:
        r["version"] = rng.choice(["1.1", "2.1", "3.0"])
    if rng.random() < 0.05:
        r["status_top"] = "urn:oasis:names:tc:SAML:2.0:status:Responder"
        r["status_second"] = rng.choice([None, "urn:oasis:names:tc:SAML:2.0:status:AuthnFailed", "urn:example:status"])
    if rng.random() < 0.25:
        c["env"]["conv_info"] = rng.choice([{"entity_id": S.SP_ID}, {"entity_id": S.SP_ID, "remote_addr": "192.0.2.7"},
                                            {"remote_addr": "192.0.2.7"}, {"entity_id": "https://other.verif.example/sp"}])
    c["syntax"] = rng.choice(["z", "z", "frac"])
    c["tag"] = "cross"
    return c


def as_attr(case, keep_authn=True):
    """Turn a case into an attribute-query answer (Saml2Client.parse_attribute_query_response; Model/SpAttr.lean)."""
    case["env"]["kind"] = "attr"
    case["env"]["binding"] = "soap"
    case["env"]["conv_info"] = None
    case["return_addrs"] = []
    case["resp"]["destination"] = None
    if not keep_authn:
        for a in case["resp"]["assertions"]:
            a["authn"] = []
    case["tag"] = "attr/" + case.get("tag", "")
    return case


def as_factory(case):
    """Run the case through the second public entry point (saml2.response.authn_response + loads + verify;
    Model/SpFactory.lean) instead of Saml2Client.parse_authn_request_response."""
    case["env"]["kind"] = "factory"
    case["tag"] = "factory/" + case.get("tag", "")
    return case


def run_impl(case):
    return F.run_sp(case)


def compare(case, impl, model):
    if model is None or impl.get("r") != model.get("r"):
        return False
    if impl.get("cached", False) != model.get("cached", False):
        return False
    if impl["r"] == "identity":
        for k in ("name_id", "issuer", "came_from", "not_on_or_after", "session_index"):
            if impl.get(k) != model.get(k):
                return False
    if impl["r"] == "rejected" and "err" in model:
        return impl.get("err") == model["err"]
    return True


def distribution(recs):
    d = {}
    for r in recs:
        k = r["impl"].get("r") + ("/" + r["impl"]["err"] if r["impl"].get("err") else "")
        d[k] = d.get(k, 0) + 1
    return d


def nontrivial(case, impl, lean):
    return True


def mutate_valid_content(rng, case):
    """random otherwise-valid message content (does not touch what the property is about)"""
    c = copy.deepcopy(case)
    r = c["resp"]
    a = r["assertions"][0]
    a["subject"]["name_id"] = rng.choice(["user-1", "üser-√", "a b", "x" * 40, "u@example.org"])
    a["authn"][0]["session_index"] = rng.choice(["sess-1", None, "s_" + str(rng.randrange(1000))])
    a["attrs"] = [["urn:oid:2.5.4.42", "urn:oasis:names:tc:SAML:2.0:attrname-format:uri", "givenName",
                   [rng.choice(["Anna", "Björn", "<&>", "  padded  "])]]]
    if rng.random() < 0.3:
        a["conditions"]["nb"] = None
    if rng.random() < 0.3:
        a["authn"][0]["session_nooa"] = S.NOW0 + rng.choice([100, 1000, 100000])
    if rng.random() < 0.3:
        a["subject"]["confs"][0]["data"]["nb"] = S.NOW0 - rng.choice([1, 10, 100])
    c["syntax"] = rng.choice(["z", "z", "frac"])
    return c
