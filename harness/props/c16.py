"""C16 — encrypted assertions stay confidential and are recoverable only by the recipient.

Real code exercised (in-process, unmodified): Server.create_authn_response -> gather_authn_response_args
-> _authn_response/setup_assertion -> Entity._response -> signed_instance_factory / pre_encrypt_assertion /
Entity._encrypt_assertion (certificate loop, has_encrypt_cert_in_metadata) -> SecurityContext /
CryptoBackendXmlSec1.encrypt_assertion (through the xmlsec1 stand-in); then, on the wire form (optionally
bit-flipped), the real Saml2Client.parse_authn_request_response of a recipient holding a chosen set of
private keys (encryption_keypairs and per-request keys handed in as outstanding_certs).

Observables (all read with xml.etree / the stand-in by the harness, never with pysaml2's classes):
  * whether the IdP issued a Response or raised,
  * the successful sign/encrypt calls in order (method wrappers on the IdP's SecurityContext),
  * the shape of the wire form (Response signed?, Response-level assertion clear / wrapped / sealed and
    for which key, advice assertion clear / wrapped / sealed and for which key, signatures inside),
  * a marker search: name-id and attribute-value markers in the wire bytes and in every base64-decodable
    chunk of them; clear <Assertion> elements by position,
  * the canonical outcome of the recipient (identity / none / rejected, name id, attribute values).
"""
import base64
import copy
import itertools
import os
import re
import tempfile
import xml.etree.ElementTree as ET

import scenario as S
import spflow as F
from standin import xmlsec_standin as X

PROP = "C16"
LEAN_PROPS = "PysamlModel.Props.C16"
MODEL_TARGETS = ["PysamlModel.Model.Encrypt", "PysamlModel.Spec.C16"]
AUDIT = "PysamlModel/Audit/C16.lean"
DRIVER = "Drivers/C16.lean"
CORRESPONDENCE = ("Drivers/C16.lean (Encrypt.createAuthnResponse, Encrypt.receive + Sp.process) vs "
                  "Server.create_authn_response and Saml2Client.parse_authn_request_response")
EXHAUSTIVE = True
PARALLEL = True

SAML = "urn:oasis:names:tc:SAML:2.0:assertion"
SAMLP = "urn:oasis:names:tc:SAML:2.0:protocol"
DS = "http://www.w3.org/2000/09/xmldsig#"
XENC = "http://www.w3.org/2001/04/xmlenc#"
AUTHN = {"class_ref": "urn:oasis:names:tc:SAML:2.0:ac:classes:Password", "authn_auth": S.IDP_ID}
RID = "req-c16"
LIFETIME = 900  # scenario.idp_config: policy default lifetime 15 minutes

ENC_KEYS = ["sp_enc1", "sp_enc2", "attacker"]  # key pairs that may appear as encryption certificates
ALL_PRIV = ["sp_enc1", "sp_enc2", "attacker", "sp", "idp_enc", "idp_sign"]
GARBAGE = base64.b64encode(b"\x30\x82\x01\x0a" + b"not-a-certificate" * 12).decode()

FLAG_NAMES = ["sign_response", "sign_assertion", "encrypt_assertion", "encrypted_advice_attributes",
              "encrypt_assertion_self_contained"]

KEY_EARLY = "C16/early-return-skips-advice-encryption"
KEY_OBJFORM = "C16/encrypt-object-form-loses-assertion"

_tmp = tempfile.mkdtemp(prefix="verif-c16-")
_idp_cache = {}
_sp_cache = {}


def setup():
    S.install()


# ------------------------------------------------------------------ source-level defaults


def read_param_defaults():
    """`param_defaults` of Server.gather_authn_response_args, parsed from the CURRENT source."""
    import ast

    import saml2.server as srv

    tree = ast.parse(open(srv.__file__, encoding="utf-8").read())
    for node in ast.walk(tree):
        if isinstance(node, ast.FunctionDef) and node.name == "gather_authn_response_args":
            for sub in ast.walk(node):
                if isinstance(sub, ast.Assign) and any(isinstance(t, ast.Name) and t.id == "param_defaults" for t in sub.targets):
                    d = ast.literal_eval(sub.value)
                    return {k: bool(d.get(k)) for k in FLAG_NAMES}
    raise RuntimeError("param_defaults not found in server.py")


_defaults = {}


def defaults():
    if not _defaults:
        _defaults.update(read_param_defaults())
    return dict(_defaults)


# ------------------------------------------------------------------ IdP / SP under test


def _cert_text(spec):
    """explicit certificate argument: None | "" | "garbage" | key name (bare base64) | "pem:<key name>" """
    if spec is None or spec == "":
        return spec
    if spec == "garbage":
        return GARBAGE
    if spec.startswith("pem:"):
        return open(S.cert_path(spec[4:])).read()
    return S.cert_b64(spec)


def _idp_for(md_keys, idp_cfg):
    key = repr((md_keys, sorted(idp_cfg.items())))
    if key in _idp_cache:
        return _idp_cache[key]
    ent = S.default_sp_entity()
    keys = []
    garbage = []
    for i, (use, name, usable) in enumerate(md_keys):
        keys.append((use, name))
    ent["spsso"]["keys"] = keys
    md = S.metadata_xml([ent])
    # an unusable certificate: the KeyDescriptor's certificate text is replaced by bytes that are no certificate
    if any(not u for _, _, u in md_keys):
        parts = md.split("<md:KeyDescriptor")
        assert len(parts) == len(md_keys) + 1
        for i, (use, name, usable) in enumerate(md_keys):
            if not usable:
                parts[i + 1] = parts[i + 1].replace(S.cert_b64(name), GARBAGE + "%04d" % i, 1)
        md = "<md:KeyDescriptor".join(parts)
    conf = S.idp_config()
    conf["metadata"] = {"inline": [md]}
    for k, v in idp_cfg.items():
        if v is not None:
            conf["service"]["idp"][k] = v
    idp = S.make_idp(conf)
    if len(_idp_cache) > 64:
        _idp_cache.clear()
    _idp_cache[key] = idp
    return idp


def _sp_for(spc):
    key = repr(sorted((k, repr(v)) for k, v in spc.items()))
    if key in _sp_cache:
        return _sp_cache[key]
    spopts = {}
    for opt, name in (("want_resp", "want_response_signed"), ("want_assert", "want_assertions_signed"),
                      ("want_either", "want_assertions_or_response_signed")):
        if spc.get(opt) is not None:
            spopts[name] = spc[opt]
    conf = S.sp_config(sp=spopts, encryption_keypairs=[
        {"key_file": S.key_path(k), "cert_file": S.cert_path(k)} for k in spc.get("enc_keys", [])])
    sp = S.make_sp(conf)
    if len(_sp_cache) > 64:
        _sp_cache.clear()
    _sp_cache[key] = sp
    return sp


class _Recorder:
    """method wrappers on the IdP's SecurityContext: successful sign / encrypt calls in order"""

    def __init__(self, idp):
        self.idp = idp
        self.ops = []

    def __enter__(self):
        sec = self.idp.sec
        self._sign, self._enc = sec.sign_statement, sec.encrypt_assertion

        def sign_statement(statement, node_name, key=None, key_file=None, node_id=None, **kw):
            out = self._sign(statement, node_name, key=key, key_file=key_file, node_id=node_id, **kw)
            self.ops.append(("sign", node_name.rsplit(":", 1)[-1], node_id))
            return out

        def encrypt_assertion(statement, enc_key, template, key_type="des-192", node_xpath=None):
            out = self._enc(statement, enc_key, template, key_type, node_xpath)
            pem = open(enc_key).read()
            b64 = "".join(l for l in pem.splitlines() if "-----" not in l)
            who = next((k for k in ENC_KEYS + ["sp", "idp_enc"] if S.cert_b64(k) == b64), "?")
            self.ops.append(("encrypt", "advice" if node_xpath and "Advice" in node_xpath else "assertion", who))
            return out

        sec.sign_statement, sec.encrypt_assertion = sign_statement, encrypt_assertion
        return self

    def __exit__(self, *a):
        del self.idp.sec.sign_statement
        del self.idp.sec.encrypt_assertion


# ------------------------------------------------------------------ independent wire reader


def _q(ns, name):
    return "{%s}%s" % (ns, name)


def _open_first(xml, keys=ALL_PRIV):
    """Decrypt the first EncryptedData of `xml` with the first of `keys` that opens it (stand-in)."""
    src = os.path.join(_tmp, "d-in-%d.xml" % os.getpid())
    out = os.path.join(_tmp, "d-out-%d.xml" % os.getpid())
    with open(src, "w", encoding="utf-8") as f:
        f.write(xml)
    for k in keys:
        rc, _, _ = X.run(["xmlsec1", "--decrypt", "--privkey-pem", S.key_path(k), "--output", out, src])
        if rc == 0:
            return k, open(out, encoding="utf-8").read()
    return None, None


def _has_sig(el):
    s = el.find(_q(DS, "Signature"))
    if s is None:
        return False
    sv = s.find(_q(DS, "SignatureValue"))
    return sv is not None and bool((sv.text or "").strip())


def _box(enc_assertion_el):
    """state of an <EncryptedAssertion>: sealed / wrapped / empty"""
    if enc_assertion_el.find(_q(XENC, "EncryptedData")) is not None:
        return "sealed"
    if enc_assertion_el.find(_q(SAML, "Assertion")) is not None:
        return "wrapped"
    return "empty"


def read_wire(xml):
    """-> (shape dict, outer assertion element as the holder of every key sees it or None, advice element or None)"""
    root = ET.fromstring(xml)
    shape = {"resp_signed": _has_sig(root), "body": "none", "body_key": None, "outer_signed": None,
             "advice": "none", "advice_key": None, "advice_signed": None}
    plain = root.findall(_q(SAML, "Assertion"))
    encs = root.findall(_q(SAML, "EncryptedAssertion"))
    outer = None
    opened = xml
    if len(plain) + len(encs) != 1:
        shape["body"] = "other:%d+%d" % (len(plain), len(encs))
        return shape, None, None
    if plain:
        shape["body"] = "clear"
        outer = plain[0]
    else:
        shape["body"] = _box(encs[0])
        if shape["body"] == "wrapped":
            outer = encs[0].find(_q(SAML, "Assertion"))
        elif shape["body"] == "sealed":
            k, opened = _open_first(xml)
            shape["body_key"] = k
            if k is not None:
                outer = ET.fromstring(opened).find(_q(SAML, "EncryptedAssertion")).find(_q(SAML, "Assertion"))
    adv_el = None
    if outer is not None:
        shape["outer_signed"] = _has_sig(outer)
        adv = outer.find(_q(SAML, "Advice"))
        if adv is not None:
            a_plain = adv.findall(_q(SAML, "Assertion"))
            a_enc = adv.findall(_q(SAML, "EncryptedAssertion"))
            if a_plain and not a_enc:
                shape["advice"] = "clear"
                adv_el = a_plain[0]
            elif a_enc and not a_plain:
                shape["advice"] = _box(a_enc[0])
                if shape["advice"] == "wrapped":
                    adv_el = a_enc[0].find(_q(SAML, "Assertion"))
                elif shape["advice"] == "sealed":
                    k, opened2 = _open_first(opened)
                    shape["advice_key"] = k
                    if k is not None:
                        for a in ET.fromstring(opened2).iter(_q(SAML, "Advice")):
                            e = a.find(_q(SAML, "EncryptedAssertion"))
                            adv_el = e.find(_q(SAML, "Assertion")) if e is not None else None
            elif a_plain or a_enc:
                shape["advice"] = "other"
        if adv_el is not None:
            shape["advice_signed"] = _has_sig(adv_el)
    return shape, outer, adv_el


def _b64_chunks(xml):
    for m in re.finditer(r">([A-Za-z0-9+/=\s]{16,})<", xml):
        t = "".join(m.group(1).split())
        try:
            yield base64.b64decode(t + "=" * (-len(t) % 4))
        except Exception:
            continue


def leaks(xml, name_marker, attr_markers):
    """marker search over the wire bytes and over every base64-decodable chunk of them"""
    hay = [xml.encode("utf-8")] + list(_b64_chunks(xml))

    def seen(m):
        b = m.encode("utf-8")
        return any(b in h for h in hay)

    root = ET.fromstring(xml)
    n_resp = len(root.findall(_q(SAML, "Assertion")))
    n_wrapped = sum(len(e.findall(_q(SAML, "Assertion"))) for e in root.findall(_q(SAML, "EncryptedAssertion")))
    n_adv = 0
    for adv in root.iter(_q(SAML, "Advice")):
        n_adv += len(adv.findall(_q(SAML, "Assertion")))
        n_adv += sum(len(e.findall(_q(SAML, "Assertion"))) for e in adv.findall(_q(SAML, "EncryptedAssertion")))
    return {"assertion": n_resp + n_wrapped > 0, "advice_assertion": n_adv > 0,
            "name_id": seen(name_marker), "attrs": any(seen(m) for m in attr_markers)}


def tamper(xml, what, pos):
    """flip one bit of the wrapped key ("key": first CipherValue in document order) or of the ciphertext
    ("data": second CipherValue) of the EncryptedData visible on the wire"""
    if what is None:
        return xml, False
    cvs = list(re.finditer(r"(<[\w:]*CipherValue[^>]*>)([^<]*)(</[\w:]*CipherValue>)", xml))
    if len(cvs) < 2:
        return xml, False
    m = cvs[0] if what == "key" else cvs[1]
    raw = bytearray(base64.b64decode("".join(m.group(2).split())))
    i = pos % len(raw)
    raw[i] ^= 1 << (pos % 8)
    return xml[:m.start(2)] + base64.b64encode(bytes(raw)).decode() + xml[m.end(2):], True


# ------------------------------------------------------------------ implementation run


def run_idp(case):
    from saml2 import saml

    idp = _idp_for(case["md_keys"], case.get("idp_cfg", {}))
    fl = case["flags"]
    kw = {k: fl.get(k) for k in FLAG_NAMES}
    nid = saml.NameID(format=saml.NAMEID_FORMAT_PERSISTENT, text=case["name_id"])
    with _Recorder(idp) as rec, S.clock(case["now"]):
        try:
            r = idp.create_authn_response(
                copy.deepcopy(case["identity"]), RID, S.SP_ACS_POST, S.SP_ID, name_id=nid, authn=AUTHN,
                pefim=fl["pefim"], encrypt_cert_assertion=_cert_text(case.get("cert_assertion")),
                encrypt_cert_advice=_cert_text(case.get("cert_advice")), **kw)
        except Exception as e:  # the library refuses to issue (EncryptError, AttributeError on a half-built message ...)
            return None, rec.ops, type(e).__name__
    if isinstance(r, bytes):
        r = r.decode("utf-8")
    elif isinstance(r, list):  # error response rendered as lines
        r = "\n".join(r)
    return str(r), rec.ops, None


def run_sp(case, xml):
    spc = case["sp"]
    sp = _sp_for({k: spc.get(k) for k in ("want_resp", "want_assert", "want_either", "enc_keys")})
    from saml2.cache import Cache
    from saml2.population import Population

    sp.users = Population(Cache())
    before = F._snapshot(sp)
    outstanding = {RID: "/came/from"} if spc.get("solicited", True) else {}
    oc = None
    if spc.get("explicit_keys"):
        oc = {RID: [{"key": S.key_pem(k), "cert": open(S.cert_path(k)).read()} for k in spc["explicit_keys"]]}
    with S.clock(case["now"] + spc.get("delay", 0)):
        try:
            r = sp.parse_authn_request_response(base64.b64encode(xml.encode("utf-8")).decode("ascii"), S.BINDING_POST,
                                                outstanding, outstanding_certs=oc)
        except Exception as e:  # every rejection of the message is an exception of the library
            return {"r": "rejected", "err": type(e).__name__}
        cached = F._snapshot(sp) != before
        if r is None:
            return {"r": "none", "cached": cached}
        name_id = r.name_id.text if getattr(r, "name_id", None) is not None else None
        try:
            si = r.session_info()
        except Exception:
            si = None
        ava = dict(r.ava) if r.ava else {}
        aid = r.assertion.id if getattr(r, "assertion", None) is not None else None
    if name_id is None and not ava and si is None and not cached:
        return {"r": "none", "cached": False}
    return {"r": "identity", "name_id": name_id, "ava": {k: list(v) for k, v in sorted(ava.items())},
            "came_from": si["came_from"] if si else r.came_from,
            "not_on_or_after": si["not_on_or_after"] if si else None, "cached": cached, "assertion_id": aid}


def run_impl(case):
    xml, ops, exc = run_idp(case)
    outer_ids = set()
    if xml is None:
        return {"idp": "refused", "ops": _canon_ops(ops, None)}
    shape, outer, adv = read_wire(xml)
    attr_markers = [v for vs in case["identity"].values() for v in vs]
    out = {"idp": "ok", "ops": _canon_ops(ops, outer.get("ID") if outer is not None else None), "wire": shape,
           "leak": leaks(xml, case["name_id"], attr_markers)}
    # what was issued, as the holder of every key reads it
    issued_id = outer.get("ID") if outer is not None else None
    sent, applied = tamper(xml, case.get("tamper"), case.get("tamper_pos", 0))
    out["tampered"] = applied
    sp = run_sp(case, sent)
    if sp["r"] == "identity":
        want = {k: list(v) for k, v in sorted(case["identity"].items())}
        sp["ava"] = "full" if sp["ava"] == want else "empty" if not sp["ava"] else "other"
        sp["name_id_ok"] = sp.pop("name_id") == case["name_id"]
        sp["assertion_ok"] = sp.pop("assertion_id") == issued_id
    out["sp"] = sp
    return out


def _canon_ops(ops, outer_id):
    res = []
    for op in ops:
        if op[0] == "sign":
            if op[1] == "Response":
                res.append("signResponse")
            elif outer_id is None or op[2] == outer_id:
                res.append("signAssertion")
            else:
                res.append("signAdvice")
        else:
            res.append(("encAdvice:" if op[1] == "advice" else "encAssertion:") + op[2])
    return res
