"""C16 — encrypted assertions stay confidential and are recoverable only by the recipient.

Real code exercised (in-process, unmodified): Server.create_authn_response -> gather_authn_response_args
-> _authn_response/setup_assertion -> Entity._response -> signed_instance_factory / pre_encrypt_assertion /
Entity._encrypt_assertion (certificate loop, has_encrypt_cert_in_metadata) -> SecurityContext /
CryptoBackendXmlSec1.encrypt_assertion (through the xmlsec1 stand-in); then, on the wire form (optionally
bit-flipped), the real Saml2Client.parse_authn_request_response of a recipient holding a chosen set of
private keys (encryption_keypairs and per-request keys handed in as outstanding_certs).

Observables (all read with xml.etree / the stand-in by the harness, never with pysaml2's classes):
  * whether the IdP issued a Response or raised,
  * the successful sign/encrypt calls in order (method wrappers on the IdP's SecurityContext),
  * the shape of the wire form (Response signed?, Response-level assertion clear / wrapped / sealed and
    for which key, advice assertion clear / wrapped / sealed and for which key, signatures inside),
  * a marker search: name-id and attribute-value markers in the wire bytes and in every base64-decodable
    chunk of them; clear <Assertion> elements by position,
  * the canonical outcome of the recipient (identity / none / rejected, name id, attribute values).
"""
import base64
import copy
import itertools
import os
import re
import tempfile
import xml.etree.ElementTree as ET

import scenario as S
import spflow as F
from standin import xmlsec_standin as X
from translate import encrypt_defaults as _enc_translate

GEN = [_enc_translate.generate]

PROP = "C16"
LEAN_PROPS = "PysamlModel.Props.C16"
MODEL_TARGETS = ["PysamlModel.Model.Encrypt", "PysamlModel.Spec.C16", "PysamlModel.Gen.EncryptDefaults"]
AUDIT = "PysamlModel/Audit/C16.lean"
DRIVER = "Drivers/C16.lean"
CORRESPONDENCE = ("Drivers/C16.lean (Encrypt.createAuthnResponse, Encrypt.receive + Sp.process) vs "
                  "Server.create_authn_response and Saml2Client.parse_authn_request_response")
EXHAUSTIVE = True
PARALLEL = True

SAML = "urn:oasis:names:tc:SAML:2.0:assertion"
SAMLP = "urn:oasis:names:tc:SAML:2.0:protocol"
DS = "http://www.w3.org/2000/09/xmldsig#"
XENC = "http://www.w3.org/2001/04/xmlenc#"
AUTHN = {"class_ref": "urn:oasis:names:tc:SAML:2.0:ac:classes:Password", "authn_auth": S.IDP_ID}
RID = "req-c16"
LIFETIME = 900  # scenario.idp_config: policy default lifetime 15 minutes

ENC_KEYS = ["sp_enc1", "sp_enc2", "attacker"]  # key pairs that may appear as encryption certificates
ALL_PRIV = ["sp_enc1", "sp_enc2", "attacker", "sp", "idp_enc", "idp_sign"]
GARBAGE = base64.b64encode(b"\x30\x82\x01\x0a" + b"not-a-certificate" * 12).decode()

FLAG_NAMES = ["sign_response", "sign_assertion", "encrypt_assertion", "encrypted_advice_attributes",
              "encrypt_assertion_self_contained"]

# root causes repaired in /repo (130fd4d2, 9b391349; `fixed` in KNOWN_FINDINGS.jsonl, which suppresses nothing):
# finding_key names them only if the old behaviour comes back - it then surfaces as a VIOLATION
KEY_EARLY = "C16/early-return-skips-advice-encryption"
KEY_OBJFORM = "C16/encrypt-object-form-loses-assertion"

_tmp = tempfile.mkdtemp(prefix="verif-c16-")
_idp_cache = {}
_sp_cache = {}


def setup():
    S.install()


# ------------------------------------------------------------------ source-level defaults


def read_param_defaults():
    """`param_defaults` of Server.gather_authn_response_args, parsed from the CURRENT source."""
    import ast

    import saml2.server as srv

    tree = ast.parse(open(srv.__file__, encoding="utf-8").read())
    for node in ast.walk(tree):
        if isinstance(node, ast.FunctionDef) and node.name == "gather_authn_response_args":
            for sub in ast.walk(node):
                if isinstance(sub, ast.Assign) and any(isinstance(t, ast.Name) and t.id == "param_defaults" for t in sub.targets):
                    d = ast.literal_eval(sub.value)
                    return {k: bool(d.get(k)) for k in FLAG_NAMES}
    raise RuntimeError("param_defaults not found in server.py")


_defaults = {}


def defaults():
    if not _defaults:
        _defaults.update(read_param_defaults())
    return dict(_defaults)


# ------------------------------------------------------------------ IdP / SP under test


def _cert_text(spec):
    """explicit certificate argument: None | "" | "garbage" | key name (bare base64) | "pem:<key name>" """
    if spec is None or spec == "":
        return spec
    if spec == "garbage":
        return GARBAGE
    if spec.startswith("pem:"):
        return open(S.cert_path(spec[4:])).read()
    return S.cert_b64(spec)


def _idp_for(md_keys, idp_cfg):
    key = repr((md_keys, sorted(idp_cfg.items())))
    if key in _idp_cache:
        return _idp_cache[key]
    ent = S.default_sp_entity()
    ent["spsso"]["keys"] = [(use, name) for use, name, _usable in md_keys]
    md = S.metadata_xml([ent])
    # an unusable certificate: the KeyDescriptor's certificate text is replaced by bytes that are no certificate
    if any(not u for _, _, u in md_keys):
        parts = md.split("<md:KeyDescriptor")
        assert len(parts) == len(md_keys) + 1
        for i, (use, name, usable) in enumerate(md_keys):
            if not usable:
                parts[i + 1] = parts[i + 1].replace(S.cert_b64(name), GARBAGE + "%04d" % i, 1)
        md = "<md:KeyDescriptor".join(parts)
    conf = S.idp_config()
    conf["metadata"] = {"inline": [md]}
    for k, v in idp_cfg.items():
        if v is not None:
            conf["service"]["idp"][k] = v
    idp = S.make_idp(conf)
    if len(_idp_cache) > 64:
        _idp_cache.clear()
    _idp_cache[key] = idp
    return idp


def _sp_for(spc):
    key = repr(sorted((k, repr(v)) for k, v in spc.items()))
    if key in _sp_cache:
        return _sp_cache[key]
    spopts = {}
    for opt, name in (("want_resp", "want_response_signed"), ("want_assert", "want_assertions_signed"),
                      ("want_either", "want_assertions_or_response_signed")):
        if spc.get(opt) is not None:
            spopts[name] = spc[opt]
    conf = S.sp_config(sp=spopts, encryption_keypairs=[
        {"key_file": S.key_path(k), "cert_file": S.cert_path(k)} for k in spc.get("enc_keys", [])])
    sp = S.make_sp(conf)
    if len(_sp_cache) > 64:
        _sp_cache.clear()
    _sp_cache[key] = sp
    return sp


class _Recorder:
    """method wrappers on the IdP's SecurityContext: successful sign / encrypt calls in order"""

    def __init__(self, idp):
        self.idp = idp
        self.ops = []

    def __enter__(self):
        sec = self.idp.sec
        self._sign, self._enc = sec.sign_statement, sec.encrypt_assertion

        def sign_statement(statement, node_name, key=None, key_file=None, node_id=None, **kw):
            out = self._sign(statement, node_name, key=key, key_file=key_file, node_id=node_id, **kw)
            self.ops.append(("sign", node_name.rsplit(":", 1)[-1], node_id))
            return out

        def encrypt_assertion(statement, enc_key, template, key_type="des-192", node_xpath=None):
            out = self._enc(statement, enc_key, template, key_type, node_xpath)
            pem = open(enc_key).read()
            b64 = "".join(l for l in pem.splitlines() if "-----" not in l)
            who = next((k for k in ENC_KEYS + ["sp", "idp_enc"] if S.cert_b64(k) == b64), "?")
            self.ops.append(("encrypt", "advice" if node_xpath and "Advice" in node_xpath else "assertion", who))
            return out

        sec.sign_statement, sec.encrypt_assertion = sign_statement, encrypt_assertion
        return self

    def __exit__(self, *a):
        del self.idp.sec.sign_statement
        del self.idp.sec.encrypt_assertion


class _ExtraAdvice:
    """method wrapper on Server.setup_assertion: the assertion handed to Entity._response carries one advice
    assertion (with Issuer, own attribute values) although the call is not a PEFIM one"""

    def __init__(self, idp, advice_identity):
        self.idp, self.advice_identity = idp, advice_identity

    def __enter__(self):
        if self.advice_identity is None:
            return self
        from saml2 import saml

        orig = self.idp.setup_assertion

        def setup_assertion(authn, sp_entity_id, in_response_to, consumer_url, name_id, policy, _issuer, authn_statement,
                            identity, best_effort, sign_response, **kw):
            a = orig(authn, sp_entity_id, in_response_to, consumer_url, name_id, policy, _issuer, authn_statement,
                     identity, best_effort, sign_response, **kw)
            adv = orig(None, sp_entity_id, None, None, None, policy, _issuer, None, copy.deepcopy(self.advice_identity),
                       best_effort, sign_response, farg=kw.get("farg"))
            a.advice = saml.Advice()
            a.advice.assertion.append(adv)
            return a

        self.idp.setup_assertion = setup_assertion
        return self

    def __exit__(self, *a):
        if self.advice_identity is not None:
            del self.idp.setup_assertion


# ------------------------------------------------------------------ independent wire reader


def _q(ns, name):
    return "{%s}%s" % (ns, name)


def _open_first(xml, keys=ALL_PRIV):
    """Decrypt the first EncryptedData of `xml` with the first of `keys` that opens it (stand-in)."""
    src = os.path.join(_tmp, "d-in-%d.xml" % os.getpid())
    out = os.path.join(_tmp, "d-out-%d.xml" % os.getpid())
    with open(src, "w", encoding="utf-8") as f:
        f.write(xml)
    for k in keys:
        rc, _, _ = X.run(["xmlsec1", "--decrypt", "--privkey-pem", S.key_path(k), "--output", out, src])
        if rc == 0:
            return k, open(out, encoding="utf-8").read()
    return None, None


def _has_sig(el):
    s = el.find(_q(DS, "Signature"))
    if s is None:
        return False
    sv = s.find(_q(DS, "SignatureValue"))
    return sv is not None and bool((sv.text or "").strip())


def _box(enc_assertion_el):
    """state of an <EncryptedAssertion>: sealed / wrapped / empty"""
    if enc_assertion_el.find(_q(XENC, "EncryptedData")) is not None:
        return "sealed"
    if enc_assertion_el.find(_q(SAML, "Assertion")) is not None:
        return "wrapped"
    return "empty"


def _parse(xml):
    """an element tree, or None for a message that is not well-formed (an observation, not a harness failure)"""
    try:
        return ET.fromstring(xml)
    except ET.ParseError:
        return None


def read_wire(xml):
    """-> (shape dict, outer assertion element as the holder of every key sees it or None, advice element or None)"""
    root = _parse(xml)
    shape = {"resp_signed": False, "body": "none", "body_key": None, "outer_signed": None,
             "advice": "none", "advice_key": None, "advice_signed": None}
    if root is None:
        shape["body"] = "other:not-well-formed"
        return shape, None, None
    shape["resp_signed"] = _has_sig(root)
    plain = root.findall(_q(SAML, "Assertion"))
    encs = root.findall(_q(SAML, "EncryptedAssertion"))
    outer = None
    opened = xml
    if len(plain) + len(encs) != 1:
        shape["body"] = "other:%d+%d" % (len(plain), len(encs))
        return shape, None, None
    if plain:
        shape["body"] = "clear"
        outer = plain[0]
    else:
        shape["body"] = _box(encs[0])
        if shape["body"] == "wrapped":
            outer = encs[0].find(_q(SAML, "Assertion"))
        elif shape["body"] == "sealed":
            k, opened = _open_first(xml)
            shape["body_key"] = k
            t = _parse(opened) if k is not None else None
            if t is not None:
                outer = t.find(_q(SAML, "EncryptedAssertion")).find(_q(SAML, "Assertion"))
    adv_el = None
    if outer is not None:
        shape["outer_signed"] = _has_sig(outer)
        adv = outer.find(_q(SAML, "Advice"))
        if adv is not None:
            a_plain = adv.findall(_q(SAML, "Assertion"))
            a_enc = adv.findall(_q(SAML, "EncryptedAssertion"))
            if a_plain and not a_enc:
                shape["advice"] = "clear"
                adv_el = a_plain[0]
            elif a_enc and not a_plain:
                shape["advice"] = _box(a_enc[0])
                if shape["advice"] == "wrapped":
                    adv_el = a_enc[0].find(_q(SAML, "Assertion"))
                elif shape["advice"] == "sealed":
                    k, opened2 = _open_first(opened)
                    shape["advice_key"] = k
                    t2 = _parse(opened2) if k is not None else None
                    if t2 is not None:
                        for a in t2.iter(_q(SAML, "Advice")):
                            e = a.find(_q(SAML, "EncryptedAssertion"))
                            adv_el = e.find(_q(SAML, "Assertion")) if e is not None else None
            elif a_plain or a_enc:
                shape["advice"] = "other"
        if adv_el is not None:
            shape["advice_signed"] = _has_sig(adv_el)
    return shape, outer, adv_el


def _b64_chunks(xml):
    for m in re.finditer(r">([A-Za-z0-9+/=\s]{16,})<", xml):
        t = "".join(m.group(1).split())
        try:
            yield base64.b64decode(t + "=" * (-len(t) % 4))
        except Exception:
            continue


def leaks(xml, name_marker, outer_markers, advice_markers):
    """marker search over the wire bytes and over every base64-decodable chunk of them"""
    hay = [xml.encode("utf-8")] + list(_b64_chunks(xml))

    def seen(m):
        b = m.encode("utf-8")
        return any(b in h for h in hay)

    root = _parse(xml)
    if root is None:  # not well-formed: no element positions; a clear Assertion start tag counts as a clear assertion
        return {"assertion": re.search(r"<(\w+:)?Assertion[\s>]", xml) is not None, "advice_assertion": False,
                "name_id": seen(name_marker), "attrs_outer": any(seen(m) for m in outer_markers),
                "attrs_advice": any(seen(m) for m in advice_markers)}
    n_resp = len(root.findall(_q(SAML, "Assertion")))
    n_wrapped = sum(len(e.findall(_q(SAML, "Assertion"))) for e in root.findall(_q(SAML, "EncryptedAssertion")))
    n_adv = 0
    for adv in root.iter(_q(SAML, "Advice")):
        n_adv += len(adv.findall(_q(SAML, "Assertion")))
        n_adv += sum(len(e.findall(_q(SAML, "Assertion"))) for e in adv.findall(_q(SAML, "EncryptedAssertion")))
    return {"assertion": n_resp + n_wrapped > 0, "advice_assertion": n_adv > 0, "name_id": seen(name_marker),
            "attrs_outer": any(seen(m) for m in outer_markers), "attrs_advice": any(seen(m) for m in advice_markers)}


def tamper(xml, what, pos):
    """flip one bit of the wrapped key ("key": first CipherValue in document order) or of the ciphertext
    ("data": second CipherValue) of the EncryptedData visible on the wire"""
    if what is None:
        return xml, False
    cvs = list(re.finditer(r"(<[\w:]*CipherValue[^>]*>)([^<]*)(</[\w:]*CipherValue>)", xml))
    if len(cvs) < 2:
        return xml, False
    m = cvs[0] if what == "key" else cvs[1]
    raw = bytearray(base64.b64decode("".join(m.group(2).split())))
    i = pos % len(raw)
    raw[i] ^= 1 << (pos % 8)
    return xml[:m.start(2)] + base64.b64encode(bytes(raw)).decode() + xml[m.end(2):], True


# ------------------------------------------------------------------ implementation run


OMIT = "omit"  # a keyword argument the caller does not write at all (the signature default applies)
SOAPENV = "http://schemas.xmlsoap.org/soap/envelope/"


def _from_ecp(envelope):
    """the samlp:Response inside the SOAP body create_ecp_authn_request_response returns"""
    env = _parse(envelope)
    if env is None:
        return envelope  # not well-formed: observed as such by read_wire
    body = env.find(_q(SOAPENV, "Body"))
    resp = body.find(_q(SAMLP, "Response")) if body is not None else None
    if resp is None:
        raise RuntimeError("no Response in the ECP envelope")
    return ET.tostring(resp, encoding="unicode")


def run_idp(case, idp=None):
    from saml2 import saml

    if idp is None:
        idp = _idp_for(case["md_keys"], case.get("idp_cfg", {}))
    fl = case["flags"]
    # an argument is passed only if the case writes it: OMIT (or absent) = not in the call at all
    kw = {k: fl[k] for k in FLAG_NAMES + ["pefim"] if k in fl and fl[k] != OMIT}
    for k in ("cert_assertion", "cert_advice"):
        if case.get(k) is not None:
            kw["encrypt_" + k] = _cert_text(case[k])
    quals = {"name_qualifier": S.IDP_ID, "sp_name_qualifier": case["sp_entity_id"]} if case.get("nameid_qualifiers") else {}
    nid = saml.NameID(format=saml.NAMEID_FORMAT_PERSISTENT, text=case["name_id"], **quals)
    authn = AUTHN if case.get("authn", "full") == "full" else {"class_ref": AUTHN["class_ref"]}
    entry = case.get("entry", "direct")
    ident, acs, eid = copy.deepcopy(case["identity"]), case["acs"], case["sp_entity_id"]
    with _Recorder(idp) as rec, _ExtraAdvice(idp, case.get("advice_identity")), S.clock(case["now"]):
        try:
            if entry == "direct":
                r = idp.create_authn_response(ident, RID, acs, eid, name_id=nid, authn=authn, **kw)
            elif entry == "request_response":
                r = idp.create_authn_request_response(ident, RID, acs, eid, name_id=nid, authn=authn, **kw)
            else:
                r = idp.create_ecp_authn_request_response(acs, ident, RID, acs, eid, name_id=nid, authn=authn, **kw)
        except Exception as e:  # the library refuses to issue (EncryptError, AttributeError on a half-built message ...)
            return None, rec.ops, type(e).__name__
    if isinstance(r, bytes):
        r = r.decode("utf-8")
    elif isinstance(r, list):  # error response rendered as lines
        r = "\n".join(r)
    r = str(r)
    if entry == "ecp":
        r = _from_ecp(r)
    return r, rec.ops, None


def run_sp(case, xml, sp=None):
    """`sp` given: the long-lived recipient of a history (its identity cache is kept between steps)"""
    spc = case["sp"]
    if sp is None:
        sp = _sp_for({k: spc.get(k) for k in ("want_resp", "want_assert", "want_either", "enc_keys")})
        from saml2.cache import Cache
        from saml2.population import Population

        sp.users = Population(Cache())
    before = F._snapshot(sp)
    outstanding = {RID: "/came/from"} if spc.get("solicited", True) else {}
    oc = None
    if spc.get("explicit_keys"):
        oc = {RID: [{"key": S.key_pem(k), "cert": open(S.cert_path(k)).read()} for k in spc["explicit_keys"]]}
    with S.clock(case["now"] + spc.get("delay", 0)):
        try:
            r = sp.parse_authn_request_response(base64.b64encode(xml.encode("utf-8")).decode("ascii"), S.BINDING_POST,
                                                outstanding, outstanding_certs=oc)
        except Exception as e:  # every rejection of the message is an exception of the library
            return {"r": "rejected", "err": type(e).__name__}
        cached = F._snapshot(sp) != before
        if r is None:
            return {"r": "none", "cached": cached}
        name_id = r.name_id.text if getattr(r, "name_id", None) is not None else None
        try:
            si = r.session_info()
        except Exception:
            si = None
        ava = dict(r.ava) if r.ava else {}
        aid = r.assertion.id if getattr(r, "assertion", None) is not None else None
    if name_id is None and not ava and si is None and not cached:
        return {"r": "none", "cached": False}
    return {"r": "identity", "name_id": name_id, "ava": {k: list(v) for k, v in sorted(ava.items())},
            "came_from": si["came_from"] if si else r.came_from,
            "not_on_or_after": si["not_on_or_after"] if si else None, "cached": cached, "assertion_id": aid}


def _text(v):
    """the text form a typed attribute value has on the wire and at the recipient"""
    return ("true" if v else "false") if isinstance(v, bool) else str(v)


def _vals(d):
    """markers to search the wire for: str and int values (a bool's text is no marker)"""
    return [_text(v) for vs in (d or {}).values() for v in vs if not isinstance(v, bool)]


def expected_split(case):
    """attribute values the Response-level assertion / the advice assertion carry"""
    if case.get("entry", "direct") == "direct" and case["flags"].get("pefim") is True:  # the wrappers swallow pefim
        return {}, case["identity"]
    return case["identity"], case.get("advice_identity") or {}


def _ava3(ava, want):
    got = {k: list(v) for k, v in ava.items() if k in want}
    if not got:
        return "none"
    return "full" if got == {k: [_text(x) for x in v] for k, v in want.items()} else "other"


def run_impl(case):
    if "history" in case:
        return run_history(case)
    return run_one(case)


def run_one(case, idp=None, sp=None):
    xml, ops, exc = run_idp(case, idp)
    if xml is None:
        return {"idp": "refused", "ops": []}
    shape, outer, adv = read_wire(xml)
    want_outer, want_advice = expected_split(case)
    out = {"idp": "ok", "ops": _canon_ops(ops, outer.get("ID") if outer is not None else None), "wire": shape,
           "leak": leaks(xml, case["name_id"], _vals(want_outer), _vals(want_advice))}
    # what was issued, as the holder of every key reads it
    issued_id = outer.get("ID") if outer is not None else None
    sent, applied = tamper(xml, case.get("tamper"), case.get("tamper_pos", 0))
    out["tampered"] = applied
    sp = run_sp(case, sent, sp)
    if sp["r"] == "identity":
        ava = sp.pop("ava")
        sp["ava_outer"] = _ava3(ava, want_outer)
        sp["ava_advice"] = _ava3(ava, want_advice)
        if set(ava) - set(want_outer) - set(want_advice):
            sp["ava_outer"] = "other"
        sp["name_id_ok"] = sp.pop("name_id") == case["name_id"]
        sp["assertion_ok"] = sp.pop("assertion_id") == issued_id
    out["sp"] = sp
    return out


# ------------------------------------------------------------------ histories on one IdP / one recipient

SPS = {  # recipients of a history: entity id, assertion consumer URL
    "A": (S.SP_ID, S.SP_ACS_POST),
    "B": (S.SP2_ID, "https://sp2.verif.example/acs/post"),
    "C": ("https://sp3.verif.example/sp", "https://sp3.verif.example/acs/post"),
}


def _store_xml(state):
    """metadata document for the recipients of a history; state: sp_name -> key descriptors now published"""
    ents, flat = [], []
    for name in sorted(state):
        eid, acs = SPS[name]
        ents.append({"entity_id": eid, "spsso": {"keys": [(use, k) for use, k, _u in state[name]],
                                                  "acs": [(S.BINDING_POST, acs, 0)]}})
        flat.extend(state[name])
    md = S.metadata_xml(ents)
    if any(not u for _, _, u in flat):
        parts = md.split("<md:KeyDescriptor")
        assert len(parts) == len(flat) + 1
        for i, (use, name, usable) in enumerate(flat):
            if not usable:
                parts[i + 1] = parts[i + 1].replace(S.cert_b64(name), GARBAGE + "%04d" % i, 1)
        md = "<md:KeyDescriptor".join(parts)
    return md


def run_history(case):
    """every step on ONE Server instance (Entity.reload_metadata when a step's store differs from the one
    loaded) and ONE Saml2Client instance per recipient; each step is observed like a single case"""
    steps = case["history"]
    state = {}
    for st in steps:
        state.setdefault(st["sp_name"], st["md_keys"])  # the store starts with every recipient as first seen
    conf = S.idp_config()
    conf["metadata"] = {"inline": [_store_xml(state)]}
    for k, v in (steps[0].get("idp_cfg") or {}).items():
        if v is not None:
            conf["service"]["idp"][k] = v
    idp = S.make_idp(conf)
    sps, outs = {}, []
    for st in steps:
        name = st["sp_name"]
        if state[name] != st["md_keys"]:
            state[name] = st["md_keys"]
            if not idp.reload_metadata({"inline": [_store_xml(state)]}):
                raise RuntimeError("reload_metadata failed")
        if name not in sps:
            spc = st["sp"]
            spopts = {"endpoints": {"assertion_consumer_service": [(SPS[name][1], S.BINDING_POST)]}}
            for opt, o in (("want_resp", "want_response_signed"), ("want_assert", "want_assertions_signed"),
                           ("want_either", "want_assertions_or_response_signed")):
                if spc.get(opt) is not None:
                    spopts[o] = spc[opt]
            sps[name] = S.make_sp(S.sp_config(sp=spopts, entityid=SPS[name][0], encryption_keypairs=[
                {"key_file": S.key_path(k), "cert_file": S.cert_path(k)} for k in spc.get("enc_keys", [])]))
        outs.append(run_one(st, idp, sps[name]))
    return {"steps": outs}


def _canon_ops(ops, outer_id):
    res = []
    for op in ops:
        if op[0] == "sign":
            if op[1] == "Response":
                res.append("signResponse")
            elif outer_id is None or op[2] == outer_id:
                res.append("signAssertion")
            else:
                res.append("signAdvice")
        else:
            res.append(("encAdvice:" if op[1] == "advice" else "encAssertion:") + op[2])
    return res


# ------------------------------------------------------------------ generators

RULE = ("complete table sign_response x sign_assertion x encrypt_assertion x encrypted_advice_attributes x "
        "encrypt_assertion_self_contained x pefim (64) x certificate source {metadata, explicit, none} x recipient "
        "{one key pair, two pairs (rotation)} with the right key, plus per flag cell and certificate source: wrong key, "
        "bit-flipped wrapped key, bit-flipped ciphertext; random stream: None/config/default resolution of the flags, "
        "where a flag comes from (argument omitted / None / True / False x configuration unset / True / False / "
        "\"true\" / \"false\", per flag, through create_authn_response, create_authn_request_response and "
        "create_ecp_authn_request_response; 225 cases), unusable / use-less / several metadata certificates, \"\" and PEM-armoured explicit certificates, different "
        "certificates for advice and assertion, per-request private keys (outstanding_certs), recipient signature "
        "policies, late or unsolicited delivery, a non-PEFIM advice assertion; histories of 2-7 calls on ONE Server "
        "instance and ONE Saml2Client per recipient (metadata reloaded between calls: encryption certificate added / "
        "removed / rotated; up to three recipients in different certificate situations interleaved; explicit before / "
        "after metadata certificates; PEFIM alternating with non-PEFIM; one recipient meeting different key situations "
        "in sequence; 80 directed + 80 / 800 random), every step held to the per-call spec for the store in force at "
        "that step; random identities and subject "
        "identifiers carrying unique markers; non-trivial = a Response was issued with something sealed or a "
        "requested encryption; distinct = distinct case JSON")
TRUSTED = [
    "xmlsec1 stand-in (harness/standin/xmlsec_standin.py): model of xmlsec1's documented behaviour; RSA-OAEP key "
    "transport + AES-GCM via `cryptography`: a wrong key or a flipped bit in either CipherValue makes --decrypt fail",
    "ideal cryptography in the Lean model: EncryptedData is an opaque box that opens only for the matching private "
    "key and only while intact; a signature verifies iff what it covered still looks the same; keys are opaque ids",
    "the wire form is read by the harness with xml.etree and the stand-in's --decrypt (never with pysaml2's classes); "
    "the marker search covers the wire bytes and every base64-decodable text chunk of them",
    "method wrappers on the IdP's SecurityContext.sign_statement / encrypt_assertion record the successful calls in "
    "order; a wrapper on Server.setup_assertion injects the non-PEFIM advice assertion of the 'extra advice' cases",
    "the issued assertion's content (conditions, subject confirmation, audience) is what scenario.make_idp's policy "
    "produces; the driver rebuilds it from the case (clock, lifetime 900 s, ACS URL, request id) - C09 is about that content",
    "shared SP model Model/Sp.lean (Sp.process) and its trusted base (see C01); XML parsing / serialisation and "
    "pysaml2's object model are exercised, not modelled",
    "schema validation inside signature checking (validate_doc_with_schema) is modelled by one fact: an "
    "EncryptedAssertion without EncryptedData is invalid (PEFIM's advice assertion carries its Issuer since 8a6bffac)",
]
ASSUMPTIONS = [
    "histories: the model is stateless (each step is answered from that step's call and store alone); that the "
    "implementation carries nothing from one call to the next is checked by the history stream only",
    "the recipient is known to the IdP's metadata; one assertion per Response; at most one advice assertion",
    "identities are dictionaries of str / int / bool lists, possibly empty; str and int values serve as markers "
    "(alphanumeric, no XML escaping involved); typed values are compared in their text form",
    "Entity._response is reached through Server.create_authn_response (to_sign = the assertion iff it is to be "
    "signed and not to be encrypted)",
]

MD_CHOICES = {
    "md": [["signing", "sp", True], ["encryption", "sp_enc1", True]],
    "none": [["signing", "sp", True]],
    "md2": [["signing", "sp", True], ["encryption", "sp_enc2", True], ["encryption", "sp_enc1", True]],
    "garbage-first": [["signing", "sp", True], ["encryption", "attacker", False], ["encryption", "sp_enc1", True]],
    "garbage-only": [["signing", "sp", True], ["encryption", "attacker", False]],
    "no-use": [[None, "sp_enc1", True]],
    "empty": [],
}
ATTRS = ["givenName", "sn", "mail", "displayName", "uid", "title", "o", "ou"]
ADV_ATTRS = ["eduPersonAffiliation", "eduPersonEntitlement", "eduPersonNickname"]


def _mk(rng, n=10):
    return "Mk" + "".join(rng.choice("abcdefghijklmnopqrstuvwxyz0123456789") for _ in range(n))


def base_case(rng, flags, md="md", cert_assertion=None, cert_advice=None, sp=None, tamper=None, tag="cell"):
    names = rng.sample(ATTRS, rng.randint(1, 3))
    ident = {n: [_mk(rng) for _ in range(rng.randint(1, 2))] for n in names}
    c = {"tag": tag, "flags": dict(flags), "idp_cfg": {}, "defaults": defaults(), "md_keys": copy.deepcopy(MD_CHOICES[md]),
         "cert_assertion": cert_assertion, "cert_advice": cert_advice, "identity": ident, "name_id": _mk(rng, 14),
         "now": S.NOW0, "lifetime": LIFETIME, "rid": RID, "acs": S.SP_ACS_POST, "sp_entity_id": S.SP_ID,
         "idp_entity_id": S.IDP_ID, "sp_defaults": {k: bool(v) for k, v in F.read_sp_defaults().items()},
         "sp": {"want_resp": False, "want_assert": None, "want_either": None, "enc_keys": ["sp_enc1"], "explicit_keys": [],
                "solicited": True, "delay": 0},
         "tamper": tamper, "tamper_pos": rng.randrange(4096)}
    if sp:
        c["sp"].update(sp)
    return c


SHAPES = ["empty", "one", "several", "typed"]


def shaped(rng, c, shape=None, quals=None, authn=None):
    """give a case another CONTENT SHAPE (namespace footprint of the assertion): no attribute at all, one,
    several multi-valued, typed values (xs:integer / xs:boolean); NameID with / without qualifiers;
    authentication context with / without AuthenticatingAuthority"""
    shape = shape or rng.choice(SHAPES)
    if shape == "empty":
        c["identity"] = {}
    elif shape == "one":
        c["identity"] = {rng.choice(ATTRS): [_mk(rng)]}
    elif shape == "several":
        c["identity"] = {n: [_mk(rng) for _ in range(rng.randint(1, 3))] for n in rng.sample(ATTRS, rng.randint(2, 4))}
    else:
        a, b, t = rng.sample(ATTRS, 3)
        c["identity"] = {a: [rng.randrange(10 ** 8, 10 ** 9)], b: [_mk(rng), rng.randrange(10 ** 8, 10 ** 9)], t: [rng.random() < 0.5]}
    c["nameid_qualifiers"] = (rng.random() < 0.5) if quals is None else quals
    c["authn"] = rng.choice(["full", "class_only"]) if authn is None else authn
    return c


def _flags(sr, sa, ea, eaa, sc, pf):
    return {"sign_response": sr, "sign_assertion": sa, "encrypt_assertion": ea, "encrypted_advice_attributes": eaa,
            "encrypt_assertion_self_contained": sc, "pefim": pf}


def _truth(v):
    return True if v in (True, "true") else False if v in (False, "false") else None


def _resolved(fl, cfg, d, entry="direct"):
    """what the PROPERTY takes to be requested (used only to pick a fitting recipient policy)"""
    sig = {"sign_response": None, "sign_assertion": None, "encrypt_assertion": None,
           "encrypted_advice_attributes": False, "encrypt_assertion_self_contained": True}
    res = {}
    for k in FLAG_NAMES:
        a = fl.get(k, OMIT)
        if entry != "direct" and k not in ("sign_response", "sign_assertion"):
            a = OMIT
        a = sig[k] if a == OMIT else a
        c = _truth((cfg or {}).get(k))
        res[k] = a if a is not None else c if c is not None else d[k]
    return res


def _policy_for(rng, fl, resolved=None):
    """a recipient signature policy the issued signatures satisfy (so that signatures matter), or a random one"""
    r = resolved or fl
    if rng.random() < 0.7:
        return {"want_resp": bool(r["sign_response"]), "want_assert": bool(r["sign_assertion"]) if rng.random() < 0.8 else None,
                "want_either": rng.choice([None, None, bool(r["sign_response"] or r["sign_assertion"])])}
    return {"want_resp": rng.choice([None, False, True]), "want_assert": rng.choice([None, False, True]),
            "want_either": rng.choice([None, False, True])}


SOURCES = {  # certificate source -> (metadata, explicit assertion cert, explicit advice cert, key that opens)
    "metadata": ("md", None, None, "sp_enc1"),
    "explicit": ("none", "sp_enc2", "sp_enc2", "sp_enc2"),
    "none": ("none", None, None, None),
}


def gen_cases(rng, tier):
    reps = 1 if tier == "quick" else 3
    table = list(itertools.product((False, True), repeat=6))
    for _ in range(reps):
        for bits in table:
            fl = _flags(*bits)
            for src, (md, ca, cad, right) in SOURCES.items():
                rk = right or "sp_enc1"
                other = "sp_enc1" if rk == "sp_enc2" else "sp_enc2"
                # the right key: one pair / two pairs with the right one second (rotation) / handed in per request
                for keys in ({"enc_keys": [rk]}, {"enc_keys": [other, rk]}):
                    sp = dict(keys)
                    sp.update(_policy_for(rng, fl))
                    yield base_case(rng, fl, md, ca, cad, sp, None, "cell/%s/right%d" % (src, len(keys["enc_keys"])))
                if src == "none":
                    continue
                sp = {"enc_keys": [other, "attacker"]}
                sp.update(_policy_for(rng, fl))
                yield base_case(rng, fl, md, ca, cad, sp, None, "cell/%s/wrong-key" % src)
                for t in ("key", "data"):
                    sp = {"enc_keys": [rk]}
                    sp.update(_policy_for(rng, fl))
                    yield base_case(rng, fl, md, ca, cad, sp, t, "cell/%s/flip-%s" % (src, t))
    for c in corner_cases(rng):
        yield c
    for c in history_cases(rng, 80 if tier == "quick" else 800):
        yield c
    n = 800 if tier == "quick" else 20000
    for _ in range(n):
        yield random_case(rng)


def corner_cases(rng):
    """directed cases for the model branches the random stream reaches only now and then"""
    adv = lambda: {"eduPersonAffiliation": [_mk(rng)]}  # noqa: E731
    for sr, sa in itertools.product((False, True), repeat=2):
        pol = {"want_resp": sr, "want_assert": sa}
        # "" is falsy but not None: no downgrade, no certificate tried, the wrapper leaves with clear content
        yield base_case(rng, _flags(sr, sa, True, False, True, False), "none", "", None, pol, None, "corner/empty-cert-assertion")
        yield base_case(rng, _flags(sr, sa, False, False, True, True), "none", None, "", pol, None, "corner/empty-cert-advice")
        yield base_case(rng, _flags(sr, sa, True, False, True, True), "none", "", "", pol, None, "corner/empty-cert-both")
        yield base_case(rng, _flags(sr, sa, True, False, True, True), "none", "sp_enc1", "", pol, None, "corner/wrapped-advice-in-sealed")
        yield base_case(rng, _flags(sr, sa, True, False, True, True), "none", "", "sp_enc1", pol, None, "corner/sealed-advice-in-wrapper")
        # unusable certificates: skipped when another one works, refusal when none does
        yield base_case(rng, _flags(sr, sa, True, False, True, True), "garbage-first", None, None, pol, None, "corner/garbage-first")
        yield base_case(rng, _flags(sr, sa, True, False, True, False), "garbage-only", None, None, pol, None, "corner/garbage-only")
        yield base_case(rng, _flags(sr, sa, True, False, True, False), "md", "garbage", None, pol, None, "corner/garbage-explicit")
        yield base_case(rng, _flags(sr, sa, False, False, True, True), "md", None, "garbage", pol, None, "corner/garbage-explicit-advice")
        # advice and assertion sealed for different keys; the recipient holds one, the other, both
        for keys in (["sp_enc1"], ["sp_enc2"], ["sp_enc2", "sp_enc1"]):
            sp = dict(pol, enc_keys=keys)
            yield base_case(rng, _flags(sr, sa, True, False, True, True), "md", None, "pem:sp_enc2", sp, None, "corner/two-keys")
        # an advice assertion handed in outside PEFIM: signed and sealed in part B, object-form refusals
        for ea, eaa, sc in itertools.product((False, True), repeat=3):
            c = base_case(rng, _flags(sr, sa, ea, eaa, sc, False), "md", None, None, pol, None, "corner/extra-advice")
            c["advice_identity"] = adv()
            yield c
        c = base_case(rng, _flags(sr, sa, False, True, False, False), "none", None, "", pol, None, "corner/extra-advice-parse-object")
        c["advice_identity"] = adv()
        yield c
        c = base_case(rng, _flags(sr, sa, True, True, True, False), "md", None, None, dict(pol, enc_keys=["sp_enc1"]), "data", "corner/extra-advice-flip")
        c["advice_identity"] = adv()
        yield c
    for c in source_matrix(rng):
        yield c


def source_matrix(rng):
    """where a flag comes from: argument {omitted, None, True, False} x configuration {unset, True, False, "true",
    "false"} for each of the five flags, through the three entry points (the two wrappers forward sign_* only;
    whatever else they are handed is swallowed, so encryption can be requested through the configuration only)"""
    d = defaults()
    for entry in ("direct", "request_response", "ecp"):
        for name in FLAG_NAMES:
            sign_flag = name in ("sign_response", "sign_assertion")
            args = (OMIT, None, True, False) if entry == "direct" or sign_flag else (OMIT, True)
            for arg, cfgv in itertools.product(args, (None, True, False, "true", "false")):
                if entry == "direct":
                    fl = _flags(False, False, True, False, True, False)
                    cfg = {}
                else:
                    fl = {k: OMIT for k in FLAG_NAMES}
                    fl["pefim"] = OMIT
                    cfg = {"encrypt_assertion": True} if sign_flag and entry == "request_response" else {}
                fl[name] = arg
                cfg[name] = cfgv
                c = base_case(rng, fl, "md", None, None, None, None, "source/%s/%s" % (entry, name))
                c["entry"] = entry
                c["idp_cfg"] = cfg
                if name == "encrypted_advice_attributes" and entry == "direct":
                    c["advice_identity"] = {"eduPersonAffiliation": [_mk(rng)]}
                r = _resolved(fl, cfg, d, entry)
                c["sp"].update({"want_resp": bool(r["sign_response"]), "want_assert": bool(r["sign_assertion"])})
                yield c


def random_case(rng):
    tri = lambda p_none=0.25: None if rng.random() < p_none else rng.random() < 0.5  # noqa: E731
    fl = {"sign_response": tri(), "sign_assertion": tri(), "encrypt_assertion": tri(0.15),
          "encrypted_advice_attributes": tri(), "encrypt_assertion_self_contained": tri(), "pefim": rng.random() < 0.4}
    if rng.random() < 0.5:
        fl["encrypt_assertion"] = True
    md = rng.choice(["md"] * 6 + ["none", "none", "md2", "md2", "garbage-first", "garbage-only", "no-use", "empty"])
    cert = lambda: rng.choice([None] * 8 + ["", "sp_enc1", "sp_enc1", "sp_enc2", "sp_enc2", "pem:sp_enc2", "garbage", "attacker"])  # noqa: E731
    ca, cad = cert(), cert()
    if rng.random() < 0.3:
        cad = ca
    for k in FLAG_NAMES:
        if rng.random() < 0.12:
            fl[k] = OMIT
    c = base_case(rng, fl, md, ca, cad, None, rng.choice([None, None, None, "key", "data"]), "random")
    if rng.random() < 0.4:
        c["idp_cfg"] = {k: rng.choice([None, False, True, "true", "false"]) for k in FLAG_NAMES if rng.random() < 0.5}
    r = rng.random()
    if r < 0.12:
        c["entry"] = "request_response" if r < 0.08 else "ecp"
        c["tag"] = "random/" + c["entry"]
    resolved = _resolved(fl, c["idp_cfg"], c["defaults"], c.get("entry", "direct"))
    sp = _policy_for(rng, fl, resolved)
    r = rng.random()
    if r < 0.45:
        sp["enc_keys"] = rng.sample(["sp_enc1", "sp_enc2"], 2)
    elif r < 0.75:
        sp["enc_keys"] = [rng.choice(["sp_enc1", "sp_enc2"])]
    elif r < 0.9:
        sp["enc_keys"] = rng.sample(["sp_enc1", "sp_enc2", "attacker"], rng.randint(0, 2))
    else:
        sp["enc_keys"] = []
    if rng.random() < 0.25:
        sp["explicit_keys"] = rng.sample(["sp_enc1", "sp_enc2", "attacker"], rng.randint(1, 2))
    if rng.random() < 0.08:
        sp["delay"] = rng.choice([60, LIFETIME - 1, LIFETIME + 1, 5000])
    if rng.random() < 0.05:
        sp["solicited"] = False
    c["sp"].update(sp)
    if rng.random() < 0.3:
        shaped(rng, c)
    if not fl["pefim"] and rng.random() < 0.35:
        c["advice_identity"] = {n: [_mk(rng)] for n in rng.sample(ADV_ATTRS, rng.randint(1, 2))}
        c["tag"] = "random/extra-advice"
    return c


# ------------------------------------------------------------------ histories


def _instance(rng, names, keys=None, idp_cfg=None):
    """what stays fixed for the life of the IdP instance and of each recipient instance"""
    return {"idp_cfg": idp_cfg or {},
            "sp": {n: {"want_resp": False, "want_assert": None, "want_either": None,
                       "enc_keys": list((keys or {}).get(n, ["sp_enc1"]))} for n in names}}


def _step(rng, inst, sp_name, flags, md, ca=None, cad=None, tamper=None, explicit=None, **sp_over):
    c = base_case(rng, flags, md if isinstance(md, str) else "md", ca, cad, None, tamper, "step")
    if not isinstance(md, str):
        c["md_keys"] = copy.deepcopy(md)
    c["sp_name"] = sp_name
    c["sp_entity_id"], c["acs"] = SPS[sp_name]
    c["idp_cfg"] = dict(inst["idp_cfg"])
    c["sp"].update(inst["sp"][sp_name])
    c["sp"]["explicit_keys"] = list(explicit or [])
    c["sp"].update(sp_over)
    return c


def _history(tag, steps):
    return {"tag": "history/" + tag, "history": steps}


ENC2 = [["signing", "sp", True], ["encryption", "sp_enc2", True]]


def history_cases(rng, n_random):
    """sequences on ONE Server and ONE Saml2Client per recipient: the store changes between calls (reload),
    recipients with different certificate situations alternate, explicit and metadata certificates alternate,
    PEFIM and non-PEFIM alternate; the recipient sees different key situations in sequence"""
    for sr, sa, pf in itertools.product((False, True), repeat=3):
        f = _flags(sr, sa, True, False, True, pf)
        inst = _instance(rng, "A", {"A": ["sp_enc1", "sp_enc2"]})
        # a certificate appears / disappears / is rotated between calls
        yield _history("cert-added", [_step(rng, inst, "A", f, "none"), _step(rng, inst, "A", f, "md"),
                                      _step(rng, inst, "A", f, "md")])
        yield _history("cert-removed", [_step(rng, inst, "A", f, "md"), _step(rng, inst, "A", f, "none"),
                                        _step(rng, inst, "A", f, "md")])
        yield _history("cert-rotated", [_step(rng, inst, "A", f, "md"), _step(rng, inst, "A", f, ENC2),
                                        _step(rng, inst, "A", f, "md2"), _step(rng, inst, "A", f, "garbage-first")])
        inst1 = _instance(rng, "A", {"A": ["sp_enc1"]})
        yield _history("cert-rotated-old-key-only", [_step(rng, inst1, "A", f, "md"), _step(rng, inst1, "A", f, ENC2),
                                                     _step(rng, inst1, "A", f, "md")])
        # recipients in different certificate situations, interleaved
        inst3 = _instance(rng, "ABC", {"A": ["sp_enc1"], "B": ["sp_enc1"], "C": ["sp_enc2", "sp_enc1"]})
        sit = {"A": "md", "B": "none", "C": ENC2}
        order = ["B", "A", "C", "B", "A", "C"] if rng.random() < 0.5 else ["A", "B", "A", "C", "B", "C"]
        yield _history("interleaved", [_step(rng, inst3, n, f, sit[n]) for n in order])
        sit2 = {"A": "none", "B": "md", "C": "garbage-only"}
        yield _history("interleaved-then-swapped", [_step(rng, inst3, n, f, sit[n]) for n in "ABC"] +
                       [_step(rng, inst3, n, f, sit2[n]) for n in "ABC"])
        # explicit certificate before / after a metadata certificate (per-request key handed to the recipient)
        inst = _instance(rng, "A", {"A": ["sp_enc1"]})
        ex = lambda md: _step(rng, inst, "A", f, md, "sp_enc2", "sp_enc2", None, ["sp_enc2"])  # noqa: E731
        yield _history("explicit-then-metadata", [ex("none"), _step(rng, inst, "A", f, "md"), ex("md"),
                                                  _step(rng, inst, "A", f, "none")])
        yield _history("metadata-then-explicit", [_step(rng, inst, "A", f, "md"), ex("md"), ex("none"),
                                                  _step(rng, inst, "A", f, "md")])
        # PEFIM and non-PEFIM, assertion encryption on and off, alternating
        g = lambda ea, p: _flags(sr, sa, ea, False, True, p)  # noqa: E731
        yield _history("pefim-alternating", [_step(rng, inst, "A", g(True, True), "md"), _step(rng, inst, "A", g(True, False), "md"),
                                             _step(rng, inst, "A", g(False, True), "md"), _step(rng, inst, "A", g(False, False), "md"),
                                             _step(rng, inst, "A", g(True, True), "md")])
        # one recipient, different key situations in sequence: opens / shut / per-request key / damaged / opens
        yield _history("recipient-key-situations", [
            _step(rng, inst, "A", f, "md"),
            _step(rng, inst, "A", f, "md", "sp_enc2", "sp_enc2"),
            _step(rng, inst, "A", f, "md", "sp_enc2", "sp_enc2", None, ["sp_enc2"]),
            _step(rng, inst, "A", f, "md", None, "sp_enc2", None, ["sp_enc2"]),
            _step(rng, inst, "A", f, "md", None, None, "data"),
            _step(rng, inst, "A", f, "md", "attacker", "attacker", None, ["sp_enc2"]),
            _step(rng, inst, "A", f, "md")])
    # consecutive calls of one IdP process differ in the assertion's content shape (namespace footprint): identity
    # empty / one / several / typed, assertion signed or not, advice or not, NameID qualifiers, authn context -
    # self-contained rendering on and off; the recipient must recover each one exactly
    inst = _instance(rng, "A", {"A": ["sp_enc1"]})
    for sc, pf in itertools.product((True, False), repeat=2):
        for order in (["empty", "several", "typed", "empty", "one"], ["typed", "empty", "several", "one", "empty"]):
            steps = []
            for k, shp in enumerate(order):
                sa = k % 2 == 1
                f = _flags(False, sa or not sc, True, False, sc, pf and k % 3 != 2)
                steps.append(shaped(rng, _step(rng, inst, "A", f, "md"), shp, k % 2 == 0, "full" if k % 3 else "class_only"))
            yield _history("content-shape", steps)
        steps = []
        for k, shp in enumerate(["one", "empty", "several", "typed"]):
            st = shaped(rng, _step(rng, inst, "A", _flags(k % 2 == 0, k % 2 == 1, True, True, sc, False), "md"), shp)
            if k % 2 == 0:
                st["advice_identity"] = {} if k == 2 else {"eduPersonAffiliation": [_mk(rng)]}
            steps.append(st)
        yield _history("content-shape-advice", steps)
    for _ in range(n_random):
        names = rng.choice(["A", "AB", "ABC"])
        keys = {n: rng.choice([["sp_enc1"], ["sp_enc2", "sp_enc1"], ["sp_enc2"], []]) for n in names}
        cfg = {k: rng.choice([None, False, True]) for k in FLAG_NAMES if rng.random() < 0.15}
        inst = _instance(rng, names, keys, cfg)
        for n in names:
            if rng.random() < 0.4:
                inst["sp"][n].update({"want_resp": rng.choice([None, False, True]), "want_assert": rng.choice([None, False, True])})
        cur = {n: rng.choice(["md", "md", "none", "md2", "garbage-first", "no-use"]) for n in names}
        steps = []
        for _k in range(rng.randint(3, 6)):
            n = rng.choice(names)
            if rng.random() < 0.45:
                cur[n] = rng.choice(["md", "md", "none", "none", "md2", "garbage-first", "garbage-only", "no-use", "empty", ENC2])
            f = _flags(rng.random() < 0.5, rng.random() < 0.5, rng.random() < 0.7, rng.random() < 0.2, rng.random() < 0.8,
                       rng.random() < 0.35)
            cert = rng.choice([None] * 6 + ["sp_enc1", "sp_enc2", "pem:sp_enc2", ""])
            st = _step(rng, inst, n, f, cur[n], cert, cert if rng.random() < 0.7 else None,
                       rng.choice([None] * 5 + ["key", "data"]),
                       rng.sample(["sp_enc1", "sp_enc2"], rng.randint(1, 2)) if rng.random() < 0.25 else None)
            steps.append(shaped(rng, st) if rng.random() < 0.6 else st)
        yield _history("random", steps)


# ------------------------------------------------------------------ verdict helpers


def compare(case, impl, model):
    if "history" in case:
        a, b = impl.get("steps", []), (model or {}).get("steps", [])
        return len(a) == len(b) == len(case["history"]) and all(compare(c, x, y) for c, x, y in zip(case["history"], a, b))
    if model is None or impl.get("idp") != model.get("idp"):
        return False
    if impl["idp"] != "ok":
        return True
    for k in ("ops", "wire", "leak", "tampered"):
        if impl.get(k) != model.get(k):
            return False
    a, b = impl["sp"], model.get("sp") or {}
    if a.get("r") != b.get("r"):
        return False
    if a["r"] == "identity":
        for k in ("name_id_ok", "assertion_ok", "ava_outer", "ava_advice", "came_from", "not_on_or_after", "cached"):
            if a.get(k) != b.get(k):
                return False
    if a["r"] == "none" and a.get("cached", False) != b.get("cached", False):
        return False
    return True


def finding_key(case, impl, lean):
    """root-cause class of a spec failure: one of the two repaired defects, named only when the OLD behaviour is
    back - the case lies in the defect's input class (decided by the driver from the case alone, Spec/C16.lean:
    earlyReturnClass / objectFormClass) AND the implementation fails the way it used to (early return: the only
    operation is the assertion signature and the advice is readable; object form: the call raises)"""
    if "history" in case:
        # a class of its own, never a known one: state carried between calls; reported beside any single-call
        # failure, and its replay reproduces in a fresh process because it holds the whole sequence
        return "C16/history"
    cl = lean.get("classes") or {}
    why = set(lean.get("why") or [])
    if cl.get("early") and impl.get("idp") == "ok" and impl.get("ops") == ["signAssertion"] \
            and why <= {"confidential-advice", "recoverable"} and "confidential-advice" in why:
        return KEY_EARLY
    if cl.get("object_form") and impl.get("idp") == "refused" and why == {"issued"}:
        return KEY_OBJFORM
    return None


def nontrivial(case, impl, lean):
    cl = lean.get("classes") or {}
    if "history" in case:
        return bool(cl.get("well_posed"))
    return bool(cl.get("well_posed")) or (impl.get("idp") == "ok" and (impl["wire"]["body"] == "sealed" or impl["wire"]["advice"] == "sealed"))


def shrink(case):
    if "history" in case:
        steps = case["history"]
        for i in range(len(steps)):
            if len(steps) > 1:
                yield {"tag": case.get("tag"), "history": steps[:i] + steps[i + 1:]}
        for i, st in enumerate(steps):
            for k in FLAG_NAMES + ["pefim"]:
                if st["flags"].get(k):
                    c = copy.deepcopy(case)
                    c["history"][i]["flags"][k] = False
                    yield c
            if len(st["identity"]) > 1 or any(len(v) > 1 for v in st["identity"].values()):
                c = copy.deepcopy(case)
                k = sorted(st["identity"])[0]
                c["history"][i]["identity"] = {k: st["identity"][k][:1]}
                yield c
        return
    base = {"want_resp": False, "want_assert": None, "want_either": None, "explicit_keys": [], "solicited": True, "delay": 0}
    for k, v in base.items():
        if case["sp"].get(k) != v:
            c = copy.deepcopy(case)
            c["sp"][k] = v
            yield c
    if case.get("idp_cfg"):
        c = copy.deepcopy(case)
        c["idp_cfg"] = {}
        yield c
    if case.get("advice_identity"):
        c = copy.deepcopy(case)
        del c["advice_identity"]
        yield c
    if case.get("tamper"):
        c = copy.deepcopy(case)
        c["tamper"] = None
        yield c
    for k in ("cert_assertion", "cert_advice"):
        if case.get(k) is not None:
            c = copy.deepcopy(case)
            c[k] = None
            yield c
    for k in FLAG_NAMES + ["pefim"]:
        if case["flags"].get(k):
            c = copy.deepcopy(case)
            c["flags"][k] = False
            yield c
    if len(case["identity"]) > 1:
        c = copy.deepcopy(case)
        k = sorted(c["identity"])[0]
        c["identity"] = {k: c["identity"][k][:1]}
        yield c


def neighbours(case, rng):
    if "history" in case:
        return
    for k in FLAG_NAMES + ["pefim"]:
        c = copy.deepcopy(case)
        c["flags"][k] = not c["flags"].get(k)
        yield c
    for keys in (["sp_enc1"], ["sp_enc2"], ["sp_enc2", "sp_enc1"], []):
        c = copy.deepcopy(case)
        c["sp"]["enc_keys"] = keys
        yield c
    for t in (None, "key", "data"):
        c = copy.deepcopy(case)
        c["tamper"] = t
        yield c


def distribution(recs):
    d = {}
    for r in recs:
        i = r["impl"]
        if "history" in r["case"]:
            k = r["case"]["tag"] + ":%d steps" % len(r["case"]["history"])
            d[k] = d.get(k, 0) + 1
            continue
        k = r["case"].get("tag", "?").split("/")[0] + ":" + (
            "refused" if i.get("idp") != "ok" else "%s/%s->%s" % (i["wire"]["body"], i["wire"]["advice"], i["sp"]["r"]))
        d[k] = d.get(k, 0) + 1
    return d
