"""C20 — signing uses the caller's own key under any thread interleaving: correspondence harness.

Real code exercised: Entity.apply_binding(BINDING_HTTP_REDIRECT, sign=True) / pack.http_redirect_message,
RSACrypto.get_signer, RSASigner.sign / RSASigner.verify, sigver.verify_redirect_signature.

Every logical thread of a case is a real threading.Thread acting for one entity (Saml2Client / Server
instance with its own key; threads naming the same key share ONE instance).  The three points where the
signing state is read or written -- RSACrypto.get_signer, RSASigner.sign, RSASigner.verify -- are wrapped
from here (class attributes, no source change) by a gate: a thread reaching a gate stops until the
deterministic scheduler grants it a slot, performs the gated call, and runs on to its next gate.  The
case's schedule (list of thread numbers) is executed slot by slot; entries naming a finished or unknown
thread do nothing; afterwards thread 0, 1, ... are let run to their end (Lean: `Signer.complete`).

Observable: the sequence of gate points passed and, per operation, refused / crash / verified(ok) /
sig(verifiers) where `verifiers` lists the keys of the universe (thread keys, then bystanders) under whose
public key the Signature of the produced URL verifies -- computed by the harness with `cryptography`
directly from the URL's own query string (receiver's view), not with pysaml2."""
import base64
import json
import os
import shutil
import tempfile
import threading
import traceback
import urllib.parse
import zlib

import scenario as S

PROP = "C20"
LEAN_PROPS = "PysamlModel.Props.C20"
MODEL_TARGETS = ["PysamlModel.Model.Signer", "PysamlModel.Spec.C20"]
AUDIT = "PysamlModel/Audit/C20.lean"
DRIVER = "Drivers/C20.lean"
CORRESPONDENCE = ("Drivers/C20.lean (Signer.run on the completed schedule) vs real threads gated at "
                  "RSACrypto.get_signer / RSASigner.sign / RSASigner.verify")
RULE = ("all interleavings of 2 logical threads (1-3 operations each; thorough also 4) and of 3 threads (quick: up to "
        "4 operations in total complete, 2 operations each sampled; thorough: 2 operations each complete) at the "
        "gate points, 2-5 threads with 1-4 operations each sampled, "
        "entities with distinct keys / threads of one entity, mixed and refused algorithms, sign and verify "
        "operations, plus truncated / over-long / out-of-range schedules; stream 'pool': 2-4 requests of 2-3 entities "
        "in every arrival order served by pools of 1, 2, 3 OS threads (several logical threads on ONE OS thread), "
        "sequential and interleaved between workers; stream 'preempt': single preemption at STATEMENT granularity -- "
        "thread 0 held before its k-th executed line inside saml2.sigver/pack/entity (sys.settrace line events), all "
        "other threads run their whole programs, thread 0 resumes; every k -- for sign, verify and set-up operations "
        "alike; verify histories (X1 under Y1, then X2 under Y2, preempted by X3 under Y3: all 64 name choices "
        "thorough, 40 quick) and double preemption (two hold points, threads 1 and 2) sampled; stream 'setup': "
        "entities set up DURING the run from key files (same path/changed content, same content/different paths) "
        "interleaved with signing and verifying, the configuration object of each new entity coming about by fresh "
        "load / copy.copy / copy.deepcopy of an existing entity's Config + re-pointing / mutation of a used Config / "
        "one dictionary loaded twice / a configuration file, as SPConfig, IdPConfig or plain Config (stream "
        "'provenance': every combination; 'naming': by path and by module name with sys.path set mixed in every order, "
        "re-creation after another same-named file was loaded); stream 'receive': a real Server receiver whose "
        "metadata lists 0-3 signing certificates per issuer (current one first/middle/last/absent, retired RSA / EC / "
        "Ed25519 ones around it) judges every produced URL with parse_authn_request / parse_logout_request: accepted "
        "iff the caller's certificate is published; stream 'matrix': library verdict for (signature by X, certificate Y "
        "of kind RSA / EC P-256 / Ed25519, verifier backend Z in {X, Y, third}) must be [X = Y]; stream 'churn': 2-6 (60 "
        "bases) and 30-70 (thorough: 30-200) short-lived entities per case over 3 keys -- Saml2Client / Server / "
        "SecurityContext / bare RSACrypto set up from key files, used 0-2 times and DROPPED for real (the harness holds "
        "one reference per logical thread; gc.collect() before or after the next one is constructed), entityids and "
        "key-file paths re-used with other keys, 1-3 churning logical threads interleaved or on one OS thread, a "
        "long-lived entity signing in between; a message handed over as an object instead of text (15% of the sign "
        "operations of every stream); non-trivial = some thread's "
        "get_signer and its sign/verify are separated by another thread's action (model class interleaved|race), "
        "or an OS thread serves several logical threads, or the preemption point was reached, or (churn) an entity was "
        "dropped for real before a later one signed")
TRUSTED = [
    "gate scheduler of harness/props/c20.py: serialises the logical threads at get_signer/sign/verify (all "
    "interleavings at call boundaries); in addition ONE preemption between any two statements of the library's "
    "Python code in saml2.sigver/pack/entity (line events) with the other threads run to completion there; not "
    "explored: more than two statement-level preemptions in one run (two: sampled, verify histories only), "
    "preemption inside a C call / inside other modules (e.g. saml2.cryptography)",
    "entity set-up is carried out by the harness as one step (copy key+certificate to the path, construct a "
    "minimal Saml2Client): the key file is never rewritten while another thread is loading the same path",
    "logical thread = the caller (entity operation sequence) of the Lean model; which OS thread carries it out "
    "(own thread, or a pool worker shared with other logical threads) is a harness parameter the model ignores",
    "signature verification of the produced URL by the harness (cryptography RSA PKCS#1 v1.5 over the URL's own "
    "SAMLRequest/SAMLResponse, RelayState, SigAlg octets)",
    "ideal-crypto reading of RSA/SHA: a signature verifies only under the key pair, digest and octets it was made with",
    "the two algorithm tables (SIG_ALLOWED_ALG, SIGNER_ALGS) are read from the running pysaml2 and passed to the "
    "model as parameters; the theorems hold for every table",
]
ASSUMPTIONS = [
    "every entity has a signing key (sec_backend is an RSACrypto); RSA key objects are truthy",
    "shared state relevant to redirect signing is reached only through get_signer/sign/verify",
]
EXHAUSTIVE = False
PARALLEL = True

TIMEOUT = 20.0

SHA1 = "http://www.w3.org/2000/09/xmldsig#rsa-sha1"
SHA224 = "http://www.w3.org/2001/04/xmldsig-more#rsa-sha224"
SHA256 = "http://www.w3.org/2001/04/xmldsig-more#rsa-sha256"
SHA384 = "http://www.w3.org/2001/04/xmldsig-more#rsa-sha384"
SHA512 = "http://www.w3.org/2001/04/xmldsig-more#rsa-sha512"
MD5 = "http://www.w3.org/2001/04/xmldsig-more#rsa-md5"
BOGUS = "urn:verif:bogus-alg"
GOOD_ALGS = [SHA1, SHA224, SHA256, SHA384, SHA512]
BAD_ALGS = [MD5, BOGUS]

# entity name = key name of harness/keys; kind of pysaml2 entity acting with that key
HOWS = ["fresh", "copy", "deepcopy", "mutate", "samedict", "file", "file_alias", "module"]
ENTITIES = {"sp": "sp", "sp2": "sp", "idp_sign": "idp", "member2": "idp", "idp2": "idp"}
ACTORS = ["sp", "idp_sign", "member2", "sp2", "idp2"]
BYSTANDERS = ["attacker", "idp_sign2"]
RSA_NAMES = ACTORS + BYSTANDERS          # key pairs an entity can be set up with / a fixture can be signed with
OTHER_KIND_CERTS = ["c15_ec256", "c15_ed25519"]  # certificates of "other entities" whose key is not RSA
CERT_NAMES = RSA_NAMES + OTHER_KIND_CERTS

_ents = {}
_priv = {}
_pub = {}
_fix = {}
_tls = threading.local()
_gated = {}
_broken = []


# ------------------------------------------------------------------ setup


def _hashes():
    from cryptography.hazmat.primitives import hashes

    return {SHA1: hashes.SHA1(), SHA224: hashes.SHA224(), SHA256: hashes.SHA256(), SHA384: hashes.SHA384(),
            SHA512: hashes.SHA512()}


def privkey(name):
    if name not in _priv:
        from cryptography.hazmat.primitives import serialization

        with open(S.key_path(name), "rb") as f:
            _priv[name] = serialization.load_pem_private_key(f.read(), None)
    return _priv[name]


def pubkey(name):
    if name not in _pub:
        from cryptography import x509

        with open(S.cert_path(name), "rb") as f:
            _pub[name] = x509.load_pem_x509_certificate(f.read()).public_key()
    return _pub[name]


def entity(name):
    """One pysaml2 entity per key name, shared by all logical threads acting for it."""
    if name not in _ents:
        kind = ENTITIES[name]
        over = {"entityid": "https://%s.c20.example/%s" % (name.replace("_", "-"), kind),
                "key_file": S.key_path(name), "cert_file": S.cert_path(name)}
        if kind == "sp":
            _ents[name] = S.make_sp(S.sp_config(**over))
        else:
            _ents[name] = S.make_idp(S.idp_config(**over))
    return _ents[name]


def _gate(kind):
    ctx = getattr(_tls, "ctx", None)
    if ctx is not None:
        ctx.n += 1
        if ctx.sched is not None:
            ctx.sched.arrive(ctx.t, kind)


def _install_gates():
    """Wrap the three access points of the signing state (class attributes of the running pysaml2)."""
    if _gated:
        return
    import saml2.sigver as sv

    def wrap(cls, name, kind):
        orig = getattr(cls, name)
        _gated[(cls.__name__, name)] = orig

        def gated(self, *a, **kw):
            _gate(kind)
            return orig(self, *a, **kw)

        gated.__name__ = name
        setattr(cls, name, gated)

    wrap(sv.RSACrypto, "get_signer", "G")
    wrap(sv.RSASigner, "sign", "S")
    wrap(sv.RSASigner, "verify", "V")


def setup():
    S.install()
    _install_gates()
    for n in ACTORS:  # before the runner forks its pool
        entity(n)
    for n in ACTORS + BYSTANDERS:
        privkey(n)
        pubkey(n)


# ------------------------------------------------------------------ messages


def msg_text(n):
    return ('<samlp:AuthnRequest xmlns:samlp="urn:oasis:names:tc:SAML:2.0:protocol" ID="id-c20-%d" Version="2.0" '
            'IssueInstant="2026-09-21T18:13:20Z"><!-- %s --></samlp:AuthnRequest>' % (n, "x" * (n % 7)))


def relay_state(n):
    return "" if n % 3 == 0 else "rs %d&x=y/%d" % (n, n * 7)


def destination(n):
    return "https://rp.c20.example/sso?tenant=%d" % n if n % 4 == 1 else "https://rp.c20.example/sso"


RECV_SSO = "https://rp.c20.example/sso"
RECV_SLO = "https://rp.c20.example/slo"


def issuer_id(name):
    return "urn:c20:issuer:%s" % name


def recv_kind(n):
    return "logout" if n % 2 == 0 else "authn"


def recv_destination(n):
    return RECV_SLO if recv_kind(n) == "logout" else RECV_SSO


def msg_obj(n):
    """the message handed over as an OBJECT (saml2.samlp.AuthnRequest), not as text: http_redirect_message renders
    it itself (`message = f"{message}"`)"""
    from saml2 import samlp

    return samlp.AuthnRequest(id="id-c20-%d" % n, version="2.0", issue_instant="2026-09-21T18:13:20Z")


def recv_msg_text(n, own, instant):
    return recv_msg_obj(n, own, instant).to_string().decode("utf-8")


def recv_msg_obj(n, own, instant):
    """a real AuthnRequest / LogoutRequest of the issuer the caller claims to be (its current entity)"""
    from saml2 import saml, samlp

    issuer = saml.Issuer(text=issuer_id(own), format=saml.NAMEID_FORMAT_ENTITY)
    if recv_kind(n) == "logout":
        msg = samlp.LogoutRequest(id="id-c20-%d" % n, version="2.0", issue_instant=instant, destination=RECV_SLO,
                                  issuer=issuer, name_id=saml.NameID(text="subject-%d" % n,
                                                                     format=saml.NAMEID_FORMAT_TRANSIENT))
    else:
        msg = samlp.AuthnRequest(id="id-c20-%d" % n, version="2.0", issue_instant=instant, destination=RECV_SSO,
                                 issuer=issuer, protocol_binding=S.BINDING_POST,
                                 assertion_consumer_service_url="https://%s.c20.example/acs" % own.replace("_", "-"))
    return msg


def make_receiver(published):
    """a real Server whose metadata publishes, per issuer, the listed signing certificates IN THAT ORDER"""
    ents = []
    for name, certs in sorted(published.items()):
        host = name.replace("_", "-")
        ents.append({"entity_id": issuer_id(name),
                     "spsso": {"keys": [("signing", c) for c in certs], "authn_requests_signed": True,
                               "acs": [(S.BINDING_POST, "https://%s.c20.example/acs" % host, 0)],
                               "slo": [(S.BINDING_REDIRECT, "https://%s.c20.example/slo" % host)]}})
    conf = S.idp_config(sp_entities=ents, entityid="https://rp.c20.example/idp",
                        idp={"want_authn_requests_signed": True,
                             "endpoints": {"single_sign_on_service": [(RECV_SSO, S.BINDING_REDIRECT)],
                                           "single_logout_service": [(RECV_SLO, S.BINDING_REDIRECT)]}})
    return S.make_idp(conf)


def receive(receiver, url):
    """verdict of the library's receiving path on a produced redirect URL"""
    q = urllib.parse.parse_qs(url.split("?", 1)[1], keep_blank_values=True)
    kw = {"relay_state": q["RelayState"][0] if "RelayState" in q else None,
          "sigalg": q.get("SigAlg", [None])[0], "signature": q.get("Signature", [None])[0]}
    text = _inflate_b64(q["SAMLRequest"][0])
    parse = receiver.parse_logout_request if "LogoutRequest" in text[:200] else receiver.parse_authn_request
    try:  # only the real call: a refusal is IncorrectlySigned (or whatever the code raises for this message)
        req = parse(q["SAMLRequest"][0], S.BINDING_REDIRECT, **kw)
    except Exception:
        return False
    return bool(req is not None and req.message is not None)


def _deflate_b64(text):
    return base64.b64encode(zlib.compress(text.encode("utf-8"))[2:-4]).decode("ascii")


def _inflate_b64(b64):
    return zlib.decompress(base64.b64decode(b64), -15).decode("utf-8")


def _query_args(n, alg):
    args = {"SAMLRequest": _deflate_b64(msg_text(n))}
    if relay_state(n):
        args["RelayState"] = relay_state(n)
    args["SigAlg"] = alg
    return args


def fixture(op):
    """saml_msg dictionary for verify_redirect_signature: claims message op.msg and SigAlg op.alg; the Signature
    was made by key sig.key with digest sig.alg over the octets of message sig.msg (same SigAlg parameter)."""
    sig = op["sig"]
    k = (op["msg"], op["alg"], sig["key"], sig["alg"], sig["msg"])
    if k not in _fix:
        from cryptography.hazmat.primitives.asymmetric import padding

        sargs = _query_args(sig["msg"], op["alg"])
        octets = "&".join(urllib.parse.urlencode({p: sargs[p]}) for p in ("SAMLRequest", "RelayState", "SigAlg")
                          if p in sargs).encode("ascii")
        signature = privkey(sig["key"]).sign(octets, padding.PKCS1v15(), _hashes()[sig["alg"]])
        args = _query_args(op["msg"], op["alg"])
        args["Signature"] = base64.b64encode(signature).decode("ascii")
        if len(_fix) > 20000:
            _fix.clear()
        _fix[k] = args
    return dict(_fix[k])


def check_url(url, typ, n, alg, universe, text_want=None, dest_want=None):
    """Receiver's view of a produced redirect URL -> (verifiers, intact)."""
    from cryptography.exceptions import InvalidSignature
    from cryptography.hazmat.primitives.asymmetric import padding, rsa

    query = url.split("?", 1)[1] if "?" in url else ""
    raw = {}
    for pair in query.split("&"):
        k, _, v = pair.partition("=")
        raw.setdefault(k, v)
    if "Signature" not in raw or "SigAlg" not in raw or typ not in raw:
        return [], False
    octets = "&".join("%s=%s" % (k, raw[k]) for k in (typ, "RelayState", "SigAlg") if k in raw).encode("ascii")
    sigalg = urllib.parse.unquote_plus(raw["SigAlg"])
    try:
        signature = base64.b64decode(urllib.parse.unquote_plus(raw["Signature"]))
        text = _inflate_b64(urllib.parse.unquote_plus(raw[typ]))
    except (ValueError, zlib.error):
        return [], False
    intact = (sigalg == alg and text == (text_want if text_want is not None else msg_text(n))
              and urllib.parse.unquote_plus(raw.get("RelayState", "")) == relay_state(n)
              and url.startswith(dest_want if dest_want is not None else destination(n)))
    h = _hashes().get(sigalg)
    verifiers = []
    cache = {}
    for name in universe:
        if name not in cache:
            ok = False
            pk = pubkey(name)
            if h is not None and isinstance(pk, rsa.RSAPublicKey):  # an EC / Ed25519 key verifies no RSA signature
                try:
                    pk.verify(signature, octets, padding.PKCS1v15(), h)
                    ok = True
                except InvalidSignature:
                    ok = False
            cache[name] = ok
        if cache[name]:
            verifiers.append(name)
    return verifiers, intact


# ------------------------------------------------------------------ deterministic scheduler


class _Abort(BaseException):
    """raised inside a logical thread when the run is abandoned (never caught by `except Exception`)"""


class HarnessTimeout(RuntimeError):
    pass


class _HarnessBug(BaseException):
    """a case the harness cannot carry out (generator error): never mistaken for an outcome of the library"""


class _Sched:
    """Logical threads (the callers the model talks about) are served by OS worker threads: `workers[t]` is the OS
    thread that carries out logical thread t; a worker serves its logical threads one after the other in
    increasing t.  Default: every logical thread has an OS thread of its own."""

    def __init__(self, n, workers):
        self.cv = threading.Condition()
        self.workers = workers
        self.members = {}
        for t, w in enumerate(workers):
            self.members.setdefault(w, []).append(t)
        self.state = ["queued"] * n  # queued | running | waiting | done
        self.point = [None] * n
        self.go = [False] * n
        self.abort = False
        self.trace = []

    # --- logical-thread side
    def arrive(self, t, point):
        with self.cv:
            self.point[t] = point
            self.state[t] = "waiting"
            self.cv.notify_all()
            while not self.go[t]:
                if self.abort:
                    raise _Abort()
                if not self.cv.wait(TIMEOUT):
                    self.abort = True
                    self.cv.notify_all()
                    raise _Abort()
            self.go[t] = False

    def finished(self, t, whole_worker=False):
        """logical thread t is done; its worker goes on with its next logical thread (or stops)"""
        with self.cv:
            self.state[t] = "done"
            later = [u for u in self.members[self.workers[t]] if u > t]
            if whole_worker:
                for u in later:
                    self.state[u] = "done"
            elif later:
                self.state[later[0]] = "running"
            self.cv.notify_all()

    # --- controller side (cv held)
    def _await(self, w):
        """until worker w stands at a gate or has nothing left to do"""
        while any(self.state[u] == "running" for u in self.members[w]):
            if self.abort or not self.cv.wait(TIMEOUT):
                self.abort = True
                self.cv.notify_all()
                raise HarnessTimeout("OS worker %d did not reach a gate" % w)

    def start(self, w, thread):
        with self.cv:
            self.state[self.members[w][0]] = "running"
            thread.start()
            self._await(w)

    def grant(self, t):
        with self.cv:
            if self.state[t] != "waiting":
                return False
            self.trace.append([t, self.point[t]])
            self.state[t] = "running"
            self.go[t] = True
            self.cv.notify_all()
            self._await(self.workers[t])
            return True

    def abandon(self):
        with self.cv:
            self.abort = True
            self.cv.notify_all()


class _Ctx:
    def __init__(self, sched, t):
        self.sched, self.t, self.n = sched, t, 0


REFUSALS = ("Signature algo not in allowed list", "Could not init signer")


def _minimal_dict(key_file, cert_file, label, cls):
    if cls == "idp":
        service = {"idp": {"endpoints": {"single_sign_on_service": [
            ("https://%s.c20.example/sso" % label, S.BINDING_REDIRECT)]}}}
    else:
        service = {"sp": {"endpoints": {"assertion_consumer_service": [
            ("https://%s.c20.example/acs" % label, S.BINDING_POST)]}}}
    return {"entityid": "https://%s.c20.example/%s" % (label, cls), "key_file": key_file, "cert_file": cert_file,
            "xmlsec_binary": S.xmlsec_standin.BINARY, "service": service}


def _entity_from(conf_or_dict, cls):
    """entity of the class that goes with the configuration class: SPConfig / plain Config -> Saml2Client,
    IdPConfig -> Server; a dictionary is loaded into a NEW configuration object of that class first"""
    from saml2.client import Saml2Client
    from saml2.config import Config, IdPConfig, SPConfig
    from saml2.server import Server

    conf = conf_or_dict
    if isinstance(conf_or_dict, dict):
        conf = {"sp": SPConfig, "idp": IdPConfig, "base": Config}[cls]()
        conf.load(conf_or_dict)
        if cls == "base":
            conf.context = "sp"
    ent = (Server if cls == "idp" else Saml2Client)(config=conf)
    ent._c20_cls = cls
    return ent


def _make_entity(key_file, cert_file, label, op, ent, env):
    """A new pysaml2 entity whose configuration names key_file / cert_file; its signing key is read from key_file
    NOW (security_context).  `how` = the way the configuration OBJECT comes about (the model ignores it: set-up is
    'key := content of the key file named by the configuration at construction time' whatever the provenance):
      fresh     dictionary loaded into a new SPConfig / IdPConfig / Config (`cls`)
      copy      copy.copy of the configuration of the entity the thread acts for now (already turned into a
                security context), then entityid / key_file / cert_file assigned (per-tenant configuration)
      deepcopy  same with copy.deepcopy (source: a minimal entity; the big pre-built ones cannot be deep-copied)
      mutate    the configuration object of the current entity itself is re-pointed, a new entity built from it
      samedict  one dictionary object per path, loaded into two configuration objects, one entity from each
      file      configuration module written to a file of its own, entity built with config_file=<path>
      file_alias  like file, but every such file is called sp_conf.py (one directory per key-file path): the class
                  of defect d4739075 (files of one base name aliased); finding_key keeps naming it
      module      configuration named by MODULE NAME (config_file="c20conf_p<path>"), its directory put on sys.path
      module_alias  the same with the module name sp_conf; Python keeps ONE module per bare name, so the generator
                  uses a single key-file path for all module_alias set-ups of a case (any number of re-creations,
                  in any order with by-path loads of other sp_conf.py files)"""
    import copy

    how = op.get("how") or "fresh"
    cls = op.get("cls") or "sp"
    kind = op.get("kind") or "entity"
    if kind != "entity":
        # lighter forms of "an entity with a signing key" (what a per-request front end or a test builds): only the
        # SecurityContext of a configuration, or the bare signing backend of a key file; they sign through
        # pack.http_redirect_message(backend=...) -- the model ignores `kind` like `how`
        import saml2.sigver as sv

        if kind == "crypto":
            new = sv.RSACrypto(sv.import_rsa_key_from_file(key_file))
        elif kind == "secctx":
            from saml2.config import Config, IdPConfig, SPConfig

            conf = {"sp": SPConfig, "idp": IdPConfig, "base": Config}[cls]()
            conf.load(_minimal_dict(key_file, cert_file, label, "sp" if cls == "base" else cls))
            new = sv.security_context(conf)
        else:
            raise _HarnessBug("unknown entity kind %r" % (kind,))
        new._c20_cls = cls
        new._c20_minimal = True
        return new
    if how in ("copy", "deepcopy", "mutate"):
        if not hasattr(ent, "config"):
            raise _HarnessBug("set-up %r needs a full entity to derive the configuration from" % how)
        src = ent
        if how == "deepcopy" and not getattr(ent, "_c20_minimal", False):
            c0 = getattr(ent, "_c20_cls", None) or ("idp" if type(ent).__name__ == "Server" else "sp")
            src = _entity_from(_minimal_dict(ent.config.key_file, ent.config.cert_file, label + "-base", c0), c0)
        conf = src.config if how == "mutate" else getattr(copy, how)(src.config)
        conf.entityid = "https://%s.c20.example/derived" % label
        conf.key_file = key_file
        conf.cert_file = cert_file
        new = type(src)(config=conf)
        new._c20_cls = getattr(src, "_c20_cls", None)
        new._c20_minimal = getattr(src, "_c20_minimal", False)
        return new
    if how == "samedict":
        d = env.setdefault("dicts", {}).setdefault((key_file, cls), _minimal_dict(key_file, cert_file, label, cls))
        env.setdefault("keep", []).append(_entity_from(d, cls))
        new = _entity_from(d, cls)
    elif how in ("file", "file_alias", "module", "module_alias"):
        import sys

        from saml2.client import Saml2Client
        from saml2.server import Server

        if cls == "base":
            cls = "sp"
        # one directory and one file content per key-file path: a rewrite puts the identical text there
        tag = os.path.basename(key_file).split(".")[0]
        sub = os.path.join(env["dir"], "conf-%s" % tag)
        os.makedirs(sub, exist_ok=True)
        mod = "sp_conf" if how.endswith("_alias") else "c20conf_%s" % tag
        fn = os.path.join(sub, mod + ".py")
        with open(fn, "w") as f:
            f.write("CONFIG = %r\n" % (_minimal_dict(key_file, cert_file, tag, "sp"),))
        if how.startswith("module"):
            sys.path.insert(0, sub)  # the configuration is named by MODULE NAME, its directory being on sys.path
            new = Saml2Client(config_file=mod)
        else:
            new = (Server if cls == "idp" else Saml2Client)(config_file=fn)
        new._c20_cls = "sp" if how.startswith("module") else cls
    else:
        new = _entity_from(_minimal_dict(key_file, cert_file, label, cls), cls)
    new._c20_minimal = True
    return new


def _backend(ent):
    """the signing backend of an entity in any of its forms: Saml2Client / Server (.sec.sec_backend),
    SecurityContext (.sec_backend), bare RSACrypto"""
    sec = getattr(ent, "sec", ent)
    return getattr(sec, "sec_backend", sec)


def _do_setup(op, cell, env):
    """Entity set-up.  `cell` = the ONLY reference the harness holds to the entity the logical thread acts for (the
    pre-built long-lived ones of `_ents` apart).  `drop`: "before" -- the thread lets go of its entity and the garbage
    collector runs BEFORE the new one is constructed (a front end that builds an entity per request); "after" -- the
    new one is constructed first, then the old one is released and collected (its memory is free for whichever
    thread constructs an entity next); absent -- the old one simply stops being referenced when the cell is
    overwritten (reference cycles keep it until some later collection)."""
    import gc

    # key roll-over / first use done by the deployment: the files at this path now hold `content`'s pair
    kf = os.path.join(env["dir"], "p%d.key" % op["path"])
    cf = os.path.join(env["dir"], "p%d.pem" % op["path"])
    shutil.copyfile(S.key_path(op["content"]), kf)
    shutil.copyfile(S.cert_path(op["content"]), cf)
    env["n"] = env.get("n", 0) + 1
    label = "e%d" % env["n"] if op.get("label") is None else "tenant%d" % op["label"]
    drop = op.get("drop")
    if drop == "before":
        cell[0] = None
        gc.collect()
    try:
        cell[0] = _make_entity(kf, cf, label, op, cell[0], env)
    except Exception as e:
        return {"r": "crash", "exc": type(e).__name__}
    finally:
        if drop == "after":
            gc.collect()
    return {"r": "setup"}


def _do_op(op, cell, universe, env, own=None):
    """-> observable; cell[0] = the entity the thread acts for (replaced by a set-up); own = its key name"""
    import saml2.sigver as sv
    from saml2 import pack

    if op["op"] == "setup":
        return _do_setup(op, cell, env)
    ent = cell[0]
    if ent is None:  # a set-up that had let go of the previous entity failed: the thread has no entity
        return {"r": "crash", "exc": "NoEntity"}
    return _do_call(op, ent, universe, env, own, sv, pack)


def _do_call(op, ent, universe, env, own, sv, pack):
    if op["op"] == "sign":
        n, alg = op["msg"], op["alg"]
        recv = env.get("receiver") is not None
        response = bool(op.get("response")) and not recv
        typ = "SAMLResponse" if response else "SAMLRequest"
        message = text = recv_msg_text(n, own, env["instant"]) if recv else msg_text(n)
        if op.get("form") == "obj":  # the caller hands over the message object; the text is what it renders to
            message = recv_msg_obj(n, own, env["instant"]) if recv else msg_obj(n)
            text = message.to_string().decode("utf-8")
        dest = recv_destination(n) if recv else destination(n)
        try:  # only the real call is inside the try: pysaml2 refuses with a bare Exception
            if op.get("via") == "pack" or not hasattr(ent, "apply_binding"):
                info = pack.http_redirect_message(message, dest, relay_state(n), typ, sigalg=alg,
                                                  sign=True, backend=_backend(ent))
            else:
                info = ent.apply_binding(S.BINDING_REDIRECT, message, dest, relay_state=relay_state(n),
                                         response=response, sign=True, sigalg=alg)
        except Exception as e:
            if str(e).startswith(REFUSALS):
                return {"r": "refused"}
            return {"r": "crash", "exc": type(e).__name__}
        url = dict(info["headers"])["Location"]
        verifiers, intact = check_url(url, typ, n, alg, universe, text, dest)
        ev = {"r": "sig", "verifiers": verifiers, "intact": intact}
        if recv:
            ev["_url"] = url  # judged by the receiver after the scheduled run (the receiving path is not gated)
        return ev
    if op["op"] == "verify":
        saml_msg = fixture(op)
        cert = S.cert_b64(op["cert"]) if op.get("cert") else None
        sigkey = privkey(op["sigkey"]) if op.get("sigkey") else None
        try:
            ok = sv.verify_redirect_signature(saml_msg, _backend(ent), cert, sigkey)
        except Exception as e:
            return {"r": "crash", "exc": type(e).__name__}
        return {"r": "verified", "ok": bool(ok)}
    raise ValueError("unknown op %r" % (op,))


def _run_program(ctx, t, th, universe, events, env):
    cell = [entity(th["key"])]  # the thread's one reference to the entity it acts for
    own = th["key"]
    for i, op in enumerate(th["prog"]):
        ctx.n = 0
        if op["op"] == "setup" and ctx.sched is not None:
            ctx.n = 1
            ctx.sched.arrive(t, "P")  # set-up touches no gate: it is carried out in an idle slot of its own
        ev = _do_op(op, cell, universe, env, own)
        if op["op"] == "setup" and ev.get("r") == "setup":
            own = op["content"]
        if ctx.n == 0 and ctx.sched is not None:
            ctx.sched.arrive(t, "P")  # the operation ended without touching the signing state: one idle slot
        ev["t"] = t
        ev["i"] = i
        events.append(ev)


def _worker_main(sched, w, threads, universe, events, errors, env):
    """one OS thread: carries out the logical threads assigned to it, one after the other"""
    for t in sched.members[w]:
        ctx = _Ctx(sched, t)
        _tls.ctx = ctx
        stop = False
        try:
            _run_program(ctx, t, threads[t], universe, events, env)
        except _Abort:
            stop = True
        except BaseException:
            errors.append(traceback.format_exc())
            stop = True
        finally:
            _tls.ctx = None
            sched.finished(t, whole_worker=stop)
        if stop:
            return


def run_impl(case):
    """Every case runs in a child forked from the state reached by setup(): its outcome is a function of the case
    alone (process-wide state left behind by earlier cases cannot leak in), so a replay file reproduces."""
    if os.environ.get("C20_NOFORK"):
        return _run_case(case)
    if _broken:  # a gate hand-over already timed out in this process: do not wait again for every case
        raise RuntimeError("gate scheduler unusable: " + _broken[0])
    r, w = os.pipe()
    pid = os.fork()
    if pid == 0:
        status = 1
        try:
            os.close(r)
            try:
                out = {"ok": _run_case(case)}
            except BaseException as e:  # reported to the parent, which raises (harness error)
                out = {"err": "%s: %s" % (type(e).__name__, e), "tb": traceback.format_exc()[-1500:]}
            try:
                import anchorcov

                out["cov"] = anchorcov.drain()
            except Exception:
                pass
            with os.fdopen(w, "w") as f:
                json.dump(out, f)
            status = 0
        finally:
            os._exit(status)
    os.close(w)
    with os.fdopen(r) as f:
        data = f.read()
    os.waitpid(pid, 0)
    if not data:
        raise RuntimeError("case child process died without an answer")
    out = json.loads(data)
    if out.get("cov"):
        import anchorcov

        anchorcov.merge(out["cov"])
    if "err" in out:
        if out["err"].startswith("HarnessTimeout"):
            _broken.append(out["err"])
        raise RuntimeError("case child failed: %s\n%s" % (out["err"], out.get("tb", "")))
    return out["ok"]


def _tables_out():
    import saml2.sigver as sv
    from saml2 import pack

    return {"allowed": [long for _short, long in pack.SIG_ALLOWED_ALG], "signer_algs": list(sv.SIGNER_ALGS)}


def _prepare(case):
    threads = case["threads"]
    universe = []
    for th in threads:  # Lean: Signer.certUniverse
        universe.append(th["key"])
        universe.extend(op["content"] for op in th["prog"] if op["op"] == "setup")
    universe += list(case.get("extra_keys") or [])
    for th in threads:  # fixtures and entities are prepared outside the scheduled run
        entity(th["key"])
        for op in th["prog"]:
            if op["op"] == "verify":
                fixture(op)
    return threads, universe


def _run_case(case):
    import sys

    sys.dont_write_bytecode = True  # configuration modules are rewritten during a case: no stale .pyc
    env = {"dir": tempfile.mkdtemp(prefix="c20-keys-")}
    try:
        if case.get("published") is not None:
            from saml2 import time_util

            env["receiver"] = make_receiver(case["published"])
            env["instant"] = time_util.instant()
        out = _run_preempt(case, env) if case.get("preempt") is not None else _run_gated(case, env)
        for ev in out["events"]:  # receiving path, after the run, in result order
            url = ev.pop("_url", None)
            if url is not None:
                ev["accepted"] = receive(env["receiver"], url)
        return out
    finally:
        shutil.rmtree(env["dir"], ignore_errors=True)


def _run_gated(case, env):
    threads, universe = _prepare(case)
    n = len(threads)
    workers = case.get("workers")
    if workers is None:
        workers = list(range(n))
    if len(workers) != n or not all(isinstance(w, int) and w >= 0 for w in workers):
        raise ValueError("workers must give one OS worker number per logical thread")
    sched = _Sched(n, workers)
    events, errors = [], []
    wids = sorted(sched.members)
    ths = {w: threading.Thread(target=_worker_main, args=(sched, w, threads, universe, events, errors, env),
                               name="c20-worker-%d" % w, daemon=True) for w in wids}
    try:
        for w in wids:
            sched.start(w, ths[w])  # runs up to its first gate
        for slot in case.get("schedule") or []:
            if isinstance(slot, int) and 0 <= slot < n:
                sched.grant(slot)
        progress = True
        while progress:  # completion: thread 0 to its end, then thread 1, ...
            progress = False
            for t in range(n):
                while sched.grant(t):
                    progress = True
    finally:
        sched.abandon()
        for th in ths.values():
            if th.ident is not None:
                th.join(TIMEOUT)
    if errors:
        raise RuntimeError("logical thread failed:\n" + errors[0])
    if any(th.is_alive() for th in ths.values()):
        raise HarnessTimeout("OS worker still alive")
    out = _tables_out()
    out.update({"trace": sched.trace, "events": events})
    return out


# ---- second stream: one preemption at statement granularity


def _watched_files():
    import saml2

    d = os.path.dirname(os.path.abspath(saml2.__file__))
    return tuple(os.path.join(d, f) for f in ("sigver.py", "pack.py", "entity.py"))


def _run_preempt(case, env):
    """Logical thread 0 runs its program under sys.settrace.  `ks` = hold points (one or two, increasing): thread 0 is
    held immediately before the k-th line it executes inside frames of saml2.sigver / saml2.pack / saml2.entity
    (k counted from 0 over its whole program: sign, verify and set-up operations alike).  At the first hold point
    logical thread 1 runs its WHOLE program (own OS thread), at the second one thread 2, ...; at the last hold
    point all remaining threads run, one after the other; then thread 0 goes on.  No call-boundary gates in this
    stream.  Hold points beyond the last line: the threads not yet run start after thread 0 has finished."""
    import sys

    threads, universe = _prepare(case)
    pre = case["preempt"]
    ks = list(pre["ks"]) if pre.get("ks") is not None else [pre["k"]]
    watched = _watched_files()
    events, errors = [], []
    state = {"lines": 0, "holds": 0, "next": 1}

    def run_others(upto):
        while state["next"] < min(upto, len(threads)):
            t = state["next"]
            state["next"] += 1

            def body(t=t):
                ctx = _Ctx(None, t)
                _tls.ctx = ctx
                try:
                    _run_program(ctx, t, threads[t], universe, events, env)
                except BaseException:
                    errors.append(traceback.format_exc())
                finally:
                    _tls.ctx = None

            th = threading.Thread(target=body, name="c20-preempting-%d" % t, daemon=True)
            th.start()
            th.join(TIMEOUT)
            if th.is_alive():
                raise HarnessTimeout("preempting thread %d did not finish (blocked by the held thread?)" % t)

    def local(frame, event, arg):
        if event == "line":
            h = state["holds"]
            if h < len(ks) and state["lines"] == ks[h]:
                state["holds"] = h + 1
                sys.settrace(None)
                try:
                    run_others(len(threads) if h + 1 == len(ks) else state["next"] + 1)
                finally:
                    sys.settrace(tracer)
            state["lines"] += 1
        return local

    def tracer(frame, event, arg):
        if event == "call" and frame.f_code.co_filename in watched:
            return local
        return None

    def first():
        ctx = _Ctx(None, 0)
        _tls.ctx = ctx
        sys.settrace(tracer)
        try:
            _run_program(ctx, 0, threads[0], universe, events, env)
        except BaseException:
            errors.append(traceback.format_exc())
        finally:
            sys.settrace(None)
            _tls.ctx = None

    th0 = threading.Thread(target=first, name="c20-held-0", daemon=True)
    th0.start()
    th0.join(TIMEOUT * 4)
    if th0.is_alive():
        raise HarnessTimeout("held thread did not finish")
    if not errors:
        try:
            run_others(len(threads))
        except BaseException:
            errors.append(traceback.format_exc())
    if errors:
        raise RuntimeError("logical thread failed:\n" + errors[0])
    out = _tables_out()
    out.update({"trace": [], "events": events, "lines": state["lines"], "held": state["holds"] == len(ks)})
    return out


# ------------------------------------------------------------------ generator


def _tables():
    import saml2.sigver as sv
    from saml2 import pack

    return set(long for _s, long in pack.SIG_ALLOWED_ALG), set(sv.SIGNER_ALGS)


def slots(op, allowed, signers):
    """number of gate slots an operation takes (generator's estimate; surplus/missing slots are harmless)"""
    if op["op"] == "sign":
        return 2 if (op["alg"] in allowed and op["alg"] in signers) else 1
    if op["op"] == "setup":
        return 1
    return 2 if op["alg"] in signers else 1


def interleavings(counts):
    """all sequences containing thread i exactly counts[i] times"""
    counts = list(counts)
    total = sum(counts)
    cur = []

    def rec():
        if len(cur) == total:
            yield list(cur)
            return
        for i in range(len(counts)):
            if counts[i]:
                counts[i] -= 1
                cur.append(i)
                yield from rec()
                cur.pop()
                counts[i] += 1

    return rec()


def n_interleavings(counts):
    from math import factorial

    r = factorial(sum(counts))
    for c in counts:
        r //= factorial(c)
    return r


class _Gen:
    def __init__(self, rng):
        self.rng = rng
        self.ctr = 0

    def msg(self):
        self.ctr += 1
        return self.ctr

    def sign(self, alg=None):
        rng = self.rng
        if alg is None:
            alg = rng.choice(GOOD_ALGS) if rng.random() < 0.85 else rng.choice(BAD_ALGS)
        op = {"op": "sign", "alg": alg, "msg": self.msg(), "via": rng.choice(["apply_binding", "apply_binding", "pack"]),
              "response": rng.random() < 0.3}
        if rng.random() < 0.15:
            op["form"] = "obj"  # message handed over as an object (harness-only, like `via`: the model ignores it)
        return op

    def verify(self, alg=None, own=None):
        rng = self.rng
        if alg is None:
            alg = rng.choice(GOOD_ALGS) if rng.random() < 0.85 else rng.choice(BAD_ALGS)
        m = self.msg()
        signer = rng.choice(ACTORS + BYSTANDERS) if own is None or rng.random() < 0.6 else own
        salg = alg if (alg in GOOD_ALGS and rng.random() < 0.8) else rng.choice(GOOD_ALGS)
        smsg = m if rng.random() < 0.85 else m + 1000
        c = rng.randrange(6)
        cert = signer if c < 3 else rng.choice(ACTORS + BYSTANDERS) if c == 3 else None
        sigkey = None if rng.random() < 0.75 else rng.choice([signer, rng.choice(ACTORS)])
        return {"op": "verify", "alg": alg, "msg": m, "sig": {"key": signer, "alg": salg, "msg": smsg},
                "cert": cert, "sigkey": sigkey}

    def setup_op(self, path=None, content=None):
        rng = self.rng
        return {"op": "setup", "path": path if path is not None else rng.choice([1, 1, 2, 3]),
                "content": content if content is not None else rng.choice(RSA_NAMES),
                "how": rng.choice(HOWS), "cls": rng.choice(["sp", "sp", "idp", "base"])}

    def triple(self, alg, x, y):
        """verify operation: genuine signature of key pair x over these octets, checked against certificate y"""
        m = self.msg()
        return {"op": "verify", "alg": alg, "msg": m, "sig": {"key": x, "alg": alg, "msg": m}, "cert": y, "sigkey": None}

    def keys(self, n, mode):
        rng = self.rng
        if mode == "distinct":
            return rng.sample(ACTORS, n)
        if mode == "same":
            return [rng.choice(ACTORS)] * n
        ks = rng.sample(ACTORS, n - 1)  # "pair": two threads of one entity plus others
        ks.insert(rng.randrange(n), ks[0])
        return ks

    def program(self, shape, alg_mode, own):
        """shape: string over s (sign) / v (verify) / x (sign with a refused algorithm) / u (entity set-up) /
        r (random sign, verify or refused sign)"""
        rng = self.rng
        prog = []
        for ch in shape:
            alg = self.common if alg_mode == "same" else None
            if ch == "r":
                ch = rng.choice("ssvx" if rng.random() < 0.5 else "sv")
            if ch == "s":
                prog.append(self.sign(alg if alg is not None else rng.choice(GOOD_ALGS)))
            elif ch == "x":
                prog.append(self.sign(rng.choice(BAD_ALGS)))
            elif ch == "u":
                prog.append(self.setup_op())
            else:
                prog.append(self.verify(alg, own))
        return prog

    def case(self, shapes, key_mode="distinct", alg_mode="same"):
        self.ctr = self.rng.randrange(0, 400) * 10
        self.common = self.rng.choice(GOOD_ALGS)
        ks = self.keys(len(shapes), key_mode)
        threads = [{"key": k, "prog": self.program(sh, alg_mode, k)} for k, sh in zip(ks, shapes)]
        extra = self.rng.sample(BYSTANDERS + [a for a in ACTORS if a not in ks], self.rng.randint(0, 2))
        return {"threads": threads, "extra_keys": extra}


def _with_schedules(base, scheds):
    for s in scheds:
        c = dict(base)
        c["schedule"] = list(s)
        yield c


def _counts(base, tables):
    return [sum(slots(op, *tables) for op in th["prog"]) for th in base["threads"]]


def _sample_schedules(rng, counts, k):
    pool = [i for i, c in enumerate(counts) for _ in range(c)]
    for _ in range(k):
        rng.shuffle(pool)
        yield list(pool)


def _adversarial(rng, base, counts):
    n = len(counts)
    pool = [i for i, c in enumerate(counts) for _ in range(c)]
    rng.shuffle(pool)
    yield []                                              # pure completion
    yield pool[: rng.randint(0, max(0, len(pool) - 1))]   # truncated
    yield pool + [rng.randrange(n) for _ in range(rng.randint(1, 6))]  # over-long
    junk = list(pool)
    for _ in range(rng.randint(1, 4)):
        junk.insert(rng.randint(0, len(junk)), rng.choice([n, n + 1, 7, 99]))
    yield junk                                            # thread numbers that do not exist
    rr = []
    left = list(counts)
    while any(left):
        for i in range(n):
            if left[i]:
                rr.append(i)
                left[i] -= 1
    yield rr                                              # round robin
    yield [i for i in reversed(range(n)) for _ in range(counts[i])]  # sequential, last thread first


def gen_cases(rng, tier):
    tables = _tables()
    g = _Gen(rng)
    thorough = tier == "thorough"

    def full(shapes, key_mode, alg_mode, limit=None):
        base = g.case(shapes, key_mode, alg_mode)
        counts = _counts(base, tables)
        if limit is not None and n_interleavings(counts) > limit:
            yield from _with_schedules(base, _sample_schedules(rng, counts, limit))
        else:
            yield from _with_schedules(base, interleavings(counts))
        yield from _with_schedules(base, _adversarial(rng, base, counts))

    # ---- two logical threads: every interleaving
    for key_mode in ("distinct", "distinct", "same"):
        for alg_mode in ("same", "mixed"):
            yield from full(["s", "s"], key_mode, alg_mode)
            yield from full(["s", "v"], key_mode, alg_mode)
            yield from full(["v", "x"], key_mode, alg_mode)
    for key_mode in ("distinct", "same"):
        for alg_mode in ("same", "mixed"):
            yield from full(["ss", "ss"], key_mode, alg_mode)
            yield from full(["sv", "vs"], key_mode, alg_mode)
    yield from full(["sx", "vs"], "distinct", "same")
    yield from full(["rr", "rr"], "distinct", "mixed")
    yield from full(["svs", "ssv"], "distinct", "same")
    yield from full(["rrr", "rr"], "distinct", "same")
    if thorough:
        for _ in range(6):
            yield from full(["rrr", "rrr"], rng.choice(["distinct", "same"]), rng.choice(["same", "mixed"]))
        yield from full(["ssss", "svsv"], "distinct", "same")
        yield from full(["rrrr", "rrr"], "distinct", "mixed")

    # ---- three logical threads
    for key_mode in ("distinct", "pair", "same"):
        for alg_mode in ("same", "mixed"):
            yield from full(["s", "s", "s"], key_mode, alg_mode)
    yield from full(["s", "v", "s"], "distinct", "same")
    yield from full(["r", "r", "r"], "pair", "same")
    if thorough:
        yield from full(["ss", "s", "v"], "distinct", "same")
        yield from full(["sv", "s", "s"], "pair", "same")
        yield from full(["rr", "r", "r"], "distinct", "mixed")
        yield from full(["ss", "ss", "ss"], "distinct", "same")
        yield from full(["sv", "vs", "ss"], "distinct", "same")
        yield from full(["rr", "rr", "rr"], "pair", "mixed", limit=8000)
        yield from full(["rrr", "rr", "r"], "distinct", "same", limit=6000)
    else:
        yield from full(["ss", "s", "v"], "distinct", "same")
        yield from full(["sv", "s", "s"], "pair", "same")
        yield from full(["ss", "ss", "ss"], "distinct", "same", limit=2500)
        yield from full(["sv", "vs", "ss"], "distinct", "same", limit=1500)
        yield from full(["rr", "rr", "rr"], "pair", "mixed", limit=1500)
        yield from full(["rrr", "rr", "r"], "distinct", "same", limit=800)

    # ---- more threads / longer programs, sampled
    for _ in range(60 if thorough else 20):
        n = rng.randint(2, 5)
        shapes = ["r" * rng.randint(1, 4) for _ in range(n)]
        yield from full(shapes, rng.choice(["distinct", "pair", "same"]), rng.choice(["same", "mixed"]),
                        limit=60 if thorough else 25)

    # ---- several logical threads (entities) served by the same OS thread
    yield from pool_cases(rng, g, tables, thorough)

    # ---- one preemption at statement granularity inside the library
    yield from preempt_cases(rng, g, thorough)

    # ---- entity set-up (key loading) inside the history
    yield from setup_cases(rng, g, tables, thorough)

    # ---- how the configuration object of an entity set up during the run comes about
    yield from provenance_cases(rng, g, tables, thorough)

    # ---- configuration naming styles (by path / by module name) mixed in one process
    yield from naming_cases(rng, g, tables, thorough)

    # ---- the library's receiving path as the judge of the produced signatures
    yield from receive_cases(rng, g, tables, thorough)

    # ---- verdict matrix of the library's verifier, other certificate kinds
    yield from matrix_cases(rng, g, tables, thorough)

    # ---- verify as the preempted operation (single and double preemption, with a verification history)
    yield from preempt_verify_cases(rng, g, thorough)

    # ---- entity churn: short-lived entities created, used and dropped for real, over a few keys
    yield from churn_cases(rng, g, tables, thorough)


def _pool_schedules(rng, base, tables, limit):
    """schedules a worker pool can produce: a worker serves its logical threads one after the other (increasing
    thread number), workers interleave freely at the gate points"""
    workers = base["workers"]
    seqs = {}
    for t, th in enumerate(base["threads"]):
        seqs.setdefault(workers[t], []).extend([t] * sum(slots(op, *tables) for op in th["prog"]))
    wids = sorted(seqs)
    counts = [len(seqs[w]) for w in wids]

    def to_logical(ws):
        pos = [0] * len(wids)
        out = []
        for i in ws:
            out.append(seqs[wids[i]][pos[i]])
            pos[i] += 1
        return out

    yield []  # one request after the other
    if len(wids) < 2:
        return
    if n_interleavings(counts) <= limit:
        for ws in interleavings(counts):
            yield to_logical(ws)
    else:
        for ws in _sample_schedules(rng, counts, limit):
            yield to_logical(ws)


def pool_cases(rng, g, tables, thorough):
    """2-4 requests of 2-3 entities, every arrival order, served by pools of 1, 2, 3 OS threads (request i by
    worker i mod pool size): logical thread i = i-th request to arrive"""
    import itertools

    orders = set()
    for names in ((0, 1), (0, 1, 2), (0, 1, 2, 0), (0, 1, 0, 1)):
        orders.update(itertools.permutations(names))
    for pool in (1, 2, 3):
        ents = rng.sample(ACTORS, 3)
        for order in sorted(orders):
            g.ctr = rng.randrange(0, 400) * 10
            g.common = rng.choice(GOOD_ALGS)
            alg_mode = "same" if rng.random() < 0.7 else "mixed"
            shape = rng.choice(["s", "s", "s", "sv", "vs", "ss"])
            threads = [{"key": ents[i], "prog": g.program(shape if j == 0 or rng.random() < 0.5 else "s", alg_mode, ents[i])}
                       for j, i in enumerate(order)]
            base = {"threads": threads, "extra_keys": [e for e in ents if e not in [ents[i] for i in order]],
                    "workers": [j % pool for j in range(len(order))]}
            yield from _with_schedules(base, _pool_schedules(rng, base, tables, 120 if thorough else 8))


def _calibrate(base):
    probe = dict(base)
    probe["schedule"] = []
    probe["preempt"] = {"k": -1}
    return run_impl(probe)["lines"]  # statements thread 0 executes inside the watched modules (current code)


def preempt_cases(rng, g, thorough):
    """thread 0 held before its k-th library statement while the others run their whole programs: every k"""
    bases = [(["s", "s"], "distinct", "same"), (["s", "v"], "distinct", "same"), (["vs", "s"], "distinct", "same"),
             (["s", "s", "s"], "distinct", "same"), (["ss", "s"], "distinct", "mixed"), (["s", "s"], "same", "mixed"),
             (["sv", "s", "v"], "pair", "same"), (["s", "sv"], "distinct", "same")]
    if thorough:
        bases += [(["r" * rng.randint(1, 3) for _ in range(rng.randint(2, 3))], rng.choice(["distinct", "pair"]),
                   rng.choice(["same", "same", "mixed"])) for _ in range(24)]
    for shapes, key_mode, alg_mode in bases:
        base = g.case(shapes, key_mode, alg_mode)
        base["schedule"] = []
        lines = _calibrate(base)
        for k in list(range(lines)) + [lines, lines + 5]:
            c = dict(base)
            c["preempt"] = {"k": k}
            yield c


def preempt_verify_cases(rng, g, thorough):
    """VERIFY as the preempted operation, with a history: thread 0 verifies (X1 under Y1) then (X2 under Y2) and is
    held before every statement; thread 1 meanwhile verifies (X3 under Y3) -- all 64 choices of the six names from
    two entities, verifier backends Z0, Z1 drawn from {X, Y, third, same entity for both threads}.  Plus double
    preemption: three threads, thread 1 runs at the first hold point, thread 2 at the second (sampled pairs)."""
    import itertools

    a, b, third = rng.sample(ACTORS, 3)
    combos = list(itertools.product([a, b], repeat=6))
    if not thorough:
        combos = rng.sample(combos, 40)
    for x1, y1, x2, y2, x3, y3 in combos:
        g.ctr = rng.randrange(0, 400) * 10
        alg = rng.choice(GOOD_ALGS)
        z0 = rng.choice([a, b, third])
        z1 = rng.choice([z0, a, b, third])
        base = {"threads": [{"key": z0, "prog": [g.triple(alg, x1, y1), g.triple(alg, x2, y2)]},
                            {"key": z1, "prog": [g.triple(alg, x3, y3)]}],
                "extra_keys": [], "schedule": []}
        lines = _calibrate(base)
        for k in range(lines + 1):
            c = dict(base)
            c["preempt"] = {"k": k}
            yield c
    # other certificate kinds and sign/set-up mixed in, single preemption
    for shapes in (["vv", "s"], ["sv", "v"], ["us", "v"], ["vs", "us"]):
        base = g.case(shapes, "distinct", "same")
        for j, th in enumerate(base["threads"]):  # distinct paths: no thread rewrites a file another one is loading
            for op in th["prog"]:
                if op["op"] == "setup":
                    op["path"] = 10 + j
                if op["op"] == "verify" and rng.random() < 0.5:
                    op["cert"] = rng.choice(OTHER_KIND_CERTS)
        base["extra_keys"] = list(OTHER_KIND_CERTS)
        base["schedule"] = []
        lines = _calibrate(base)
        ks = range(lines + 1) if (thorough or lines <= 150) else sorted(rng.sample(range(lines + 1), 150))
        for k in ks:
            c = dict(base)
            c["preempt"] = {"k": k}
            yield c
    # double preemption
    for _ in range(6 if thorough else 3):
        g.ctr = rng.randrange(0, 400) * 10
        alg = rng.choice(GOOD_ALGS)
        n = [rng.choice([a, b]) for _ in range(8)]
        base = {"threads": [{"key": rng.choice([a, b, third]), "prog": [g.triple(alg, n[0], n[1]), g.triple(alg, n[2], n[3])]},
                            {"key": rng.choice([a, b, third]), "prog": [g.triple(alg, n[4], n[5])]},
                            {"key": rng.choice([a, b, third]), "prog": [g.triple(alg, n[6], n[7]) if rng.random() < 0.6
                                                                        else g.sign(alg)]}],
                "extra_keys": [], "schedule": []}
        lines = _calibrate(base)
        pairs = [(k1, k2) for k1 in range(lines) for k2 in range(k1 + 1, lines + 1)]
        if len(pairs) > (600 if thorough else 120):
            pairs = rng.sample(pairs, 600 if thorough else 120)
        for k1, k2 in sorted(pairs):
            c = dict(base)
            c["preempt"] = {"ks": [k1, k2]}
            yield c


def setup_cases(rng, g, tables, thorough):
    """entity set-up as part of the history: entities created during the run from key files -- the same path with
    changed content (roll-over), the same content at different paths, random -- interleaved with signing and
    verifying by entities that exist already; every interleaving at the gate points (set-up = one idle slot)"""
    plans = [(["us", "us"], "rollover"), (["us", "us"], "samecontent"), (["us", "s"], "random"),
             (["sus", "us"], "rollover"), (["usus", "s"], "rollover"), (["us", "su", "s"], "rollover"),
             (["uv", "us"], "random"), (["us", "us", "us"], "samecontent")]
    if thorough:
        plans += [(["sus", "uss"], "rollover"), (["usv", "usv"], "random"), (["ur", "ru", "ur"], "random"),
                  (["usus", "usus"], "rollover")]
    for shapes, mode in plans:
        base = g.case(shapes, rng.choice(["distinct", "same"]), "same")
        setups = [op for th in base["threads"] for op in th["prog"] if op["op"] == "setup"]
        contents = rng.sample(RSA_NAMES, min(len(setups), len(RSA_NAMES)))
        same = rng.choice(RSA_NAMES)
        for j, op in enumerate(setups):
            if mode == "rollover":
                op["path"], op["content"] = 1, contents[j % len(contents)]
            elif mode == "samecontent":
                op["path"], op["content"] = 1 + j, same
        for th in base["threads"]:  # verify operations check genuine signatures of set-up keys as well
            for op in th["prog"]:
                if op["op"] == "verify" and setups and rng.random() < 0.7:
                    x = rng.choice(setups)["content"]
                    op["sig"] = {"key": x, "alg": op["alg"], "msg": op["msg"]}
                    op["cert"] = rng.choice([x, rng.choice(setups)["content"], rng.choice(CERT_NAMES)])
        base["extra_keys"] = rng.sample(CERT_NAMES, 2)
        base["stream"] = "setup"
        counts = _counts(base, tables)
        limit = 400 if thorough else 60
        if n_interleavings(counts) <= limit:
            yield from _with_schedules(base, interleavings(counts))
        else:
            yield from _with_schedules(base, _sample_schedules(rng, counts, limit))
        yield from _with_schedules(base, [[]])


def provenance_cases(rng, g, tables, thorough):
    """how an entity's configuration object comes about: every `how` x configuration class, derived from the
    pre-built entity the thread starts with (shared with a second thread that keeps signing for it, or not), and
    chains fresh -> copy -> mutate -> ... inside one thread; sequential and interleaved"""
    for how in HOWS:
        for cls in ("sp", "idp", "base"):
            for key_mode in ("same", "distinct"):
                g.ctr = rng.randrange(0, 400) * 10
                alg = rng.choice(GOOD_ALGS)
                k0, k1 = g.keys(2, key_mode)
                content = rng.choice([n for n in RSA_NAMES if n not in (k0, k1)])
                u = g.setup_op(rng.choice([1, 2]), content)
                u["how"], u["cls"] = how, cls
                base = {"threads": [{"key": k0, "prog": [g.sign(alg), u, g.sign(alg)]},
                                    {"key": k1, "prog": [g.sign(alg), g.sign(alg)]}],
                        "extra_keys": rng.sample(CERT_NAMES, 2), "stream": "provenance"}
                counts = _counts(base, tables)
                yield from _with_schedules(base, [[]])
                yield from _with_schedules(base, _sample_schedules(rng, counts, 12 if thorough else 3))
    for _ in range(12 if thorough else 5):
        g.ctr = rng.randrange(0, 400) * 10
        alg = rng.choice(GOOD_ALGS)
        k0, k1 = g.keys(2, rng.choice(["same", "distinct"]))
        prog = []
        for j in range(rng.randint(2, 4)):
            u = g.setup_op(rng.choice([1, 1, 2]), rng.choice(RSA_NAMES))
            if j == 0 and rng.random() < 0.5:
                u["how"] = "fresh"
            prog += [u, g.sign(alg)]
        base = {"threads": [{"key": k0, "prog": prog}, {"key": k1, "prog": [g.setup_op(1), g.sign(alg)]}],
                "extra_keys": rng.sample(CERT_NAMES, 2), "stream": "provenance"}
        yield from _with_schedules(base, [[]])
        yield from _with_schedules(base, _sample_schedules(rng, _counts(base, tables), 10 if thorough else 4))
    # configuration FILES with the same base name in different directories (defect fixed by d4739075: they aliased)
    for _ in range(6 if thorough else 3):
        g.ctr = rng.randrange(0, 400) * 10
        alg = rng.choice(GOOD_ALGS)
        k0, k1 = g.keys(2, rng.choice(["distinct", "same"]))
        c0, c1, c2 = rng.sample([n for n in RSA_NAMES if n not in (k0, k1)], 3)
        us = [g.setup_op(1, c0), g.setup_op(2, c1), g.setup_op(rng.choice([1, 3]), c2)]
        for u in us:
            u["how"], u["cls"] = "file_alias", rng.choice(["sp", "idp"])
        base = {"threads": [{"key": k0, "prog": [us[0], g.sign(alg), us[2], g.sign(alg)]},
                            {"key": k1, "prog": [us[1], g.sign(alg)]}],
                "extra_keys": [], "stream": "provenance"}
        counts = _counts(base, tables)
        yield from _with_schedules(base, [[], [1, 1, 1]])
        yield from _with_schedules(base, _sample_schedules(rng, counts, 12 if thorough else 4))


def naming_cases(rng, g, tables, thorough):
    """configuration NAMING styles mixed in one process: by path (F) and by module name with sys.path set (M), the
    same file first one way then the other, re-creation of an entity after another same-named file was loaded --
    every ordered selection of 2 and 3 set-ups from {M at path 1, F at path 1, F at path 2, M with a unique name
    at path 3}, a signature after each set-up; plus two-thread interleavings"""
    import itertools

    styles = {"M1": ("module_alias", 1), "F1": ("file_alias", 1), "F2": ("file_alias", 2), "U3": ("module", 3)}
    seqs = [q for r in (2, 3) for q in itertools.product(sorted(styles), repeat=r)]
    if not thorough:
        seqs = [q for q in seqs if "M1" in q and ("F1" in q or "F2" in q)] + rng.sample(seqs, 8)
    for q in seqs:
        g.ctr = rng.randrange(0, 400) * 10
        alg = rng.choice(GOOD_ALGS)
        k0 = rng.choice(ACTORS)
        contents = rng.sample([n for n in RSA_NAMES if n != k0], len(q))
        prog = []
        for st, c in zip(q, contents):
            u = g.setup_op(styles[st][1], c)
            u["how"], u["cls"] = styles[st][0], "sp"
            prog += [u, g.sign(alg)]
        yield {"threads": [{"key": k0, "prog": prog}], "extra_keys": [], "stream": "naming", "schedule": []}
    for _ in range(8 if thorough else 3):
        g.ctr = rng.randrange(0, 400) * 10
        alg = rng.choice(GOOD_ALGS)
        k0, k1 = g.keys(2, "distinct")
        c = rng.sample([n for n in RSA_NAMES if n not in (k0, k1)], 4)
        def mk(st, content):
            u = g.setup_op(styles[st][1], content)
            u["how"], u["cls"] = styles[st][0], "sp"
            return u
        first, second = rng.choice([("M1", "F2"), ("F2", "M1"), ("M1", "F1"), ("F1", "M1")])
        base = {"threads": [{"key": k0, "prog": [mk(first, c[0]), g.sign(alg), mk(first, c[1]), g.sign(alg)]},
                            {"key": k1, "prog": [mk(second, c[2]), g.sign(alg)]}],
                "extra_keys": [], "stream": "naming"}
        yield from _with_schedules(base, [[]])
        yield from _with_schedules(base, _sample_schedules(rng, _counts(base, tables), 12 if thorough else 5))


def receive_cases(rng, g, tables, thorough):
    """VERIFY through the receiving path: a real Server whose metadata lists 0-3 signing certificates per issuer --
    the caller's current one first / in the middle / last / absent, retired or foreign ones (RSA, EC, Ed25519)
    around it -- judges every URL the threads produced (parse_authn_request for odd message numbers,
    parse_logout_request for even ones); the spec demands accepted = [caller's certificate is published]"""
    import itertools

    patterns = []
    for r in (0, 1, 2):
        for perm in set(itertools.permutations(["K"] + ["R%d" % j for j in range(r)])):
            patterns.append(list(perm))
        patterns.append(["R%d" % j for j in range(r)])  # the signing key's certificate is not published
    programs = [(["s", "s"], "distinct"), (["ss", "s"], "distinct"), (["us", "s"], "distinct"),
                (["sus", "ss"], "pair"), (["s", "s", "s"], "distinct")]
    if thorough:
        programs += [(["ss", "us", "s"], "pair"), (["usus", "s"], "distinct"), (["ss", "ss"], "same")]
    for shapes, key_mode in programs:
        for pat in patterns:
            base = g.case(shapes, key_mode, rng.choice(["same", "mixed"]))
            owns = []
            for th in base["threads"]:
                owns.append(th["key"])
                for op in th["prog"]:
                    if op["op"] == "setup":
                        owns.append(op["content"])
                    if op["op"] == "sign":
                        op["response"] = False
            published = {}
            for k in sorted(set(owns)):
                retired = rng.sample([n for n in CERT_NAMES if n != k], 2)
                published[k] = [k if x == "K" else retired[int(x[1:])] for x in pat]
            base["published"] = published
            base["extra_keys"] = list(OTHER_KIND_CERTS)
            base["stream"] = "receive"
            counts = _counts(base, tables)
            yield from _with_schedules(base, [[]])
            yield from _with_schedules(base, _sample_schedules(rng, counts, 6 if thorough else 2))


def matrix_cases(rng, g, tables, thorough):
    """verdict matrix: genuine signature by X, certificate Y (RSA, EC P-256, Ed25519), verifier backend Z, for
    Z in {X's backend, Y's backend, a third entity's}: the spec demands verdict = [X = Y]"""
    a, b, c = rng.sample(ACTORS, 3)
    certs = [a, b, c] + OTHER_KIND_CERTS
    per_z = {z: [] for z in (a, b, c)}
    g.ctr = rng.randrange(0, 400) * 10
    for x in (a, b, c):
        for y in certs:
            for z in (a, b, c):
                per_z[z].append(g.triple(rng.choice(GOOD_ALGS), x, y))
    for z in per_z:
        rng.shuffle(per_z[z])
    base = {"threads": [{"key": z, "prog": per_z[z]} for z in (a, b, c)], "extra_keys": list(OTHER_KIND_CERTS),
            "stream": "matrix"}
    counts = _counts(base, tables)
    yield from _with_schedules(base, [[]])
    yield from _with_schedules(base, _sample_schedules(rng, counts, 30 if thorough else 6))
    # pairs of concurrent checks, every interleaving
    ops = [(z, op) for z in per_z for op in per_z[z]]
    for _ in range(40 if thorough else 12):
        (z1, o1), (z2, o2), (z3, o3), (z4, o4) = (rng.choice(ops) for _ in range(4))
        base = {"threads": [{"key": z1, "prog": [o1, o3]}, {"key": z2, "prog": [o2, o4]}],
                "extra_keys": list(OTHER_KIND_CERTS), "stream": "matrix"}
        yield from _with_schedules(base, interleavings(_counts(base, tables)))


CHURN_KINDS = ["entity", "entity", "entity", "secctx", "crypto"]
CHURN_DROPS = ["before", "before", "before", "after", "after", None]


def _churn_program(rng, g, n_entities, keys, algs, labels, uniform=None):
    """[set-up of a short-lived entity (key from `keys`, the previous one of the thread dropped), 0-2 uses] x n.
    uniform = (kind, cls, drop) for every entity of the program (a front end building the same kind of object per
    request), or None: drawn per entity."""
    prog = []
    last = None
    for _ in range(n_entities):
        content = rng.choice([k for k in keys if k != last] if (last is not None and rng.random() < 0.8) else keys)
        last = content
        kind, cls, drop = uniform or (rng.choice(CHURN_KINDS), rng.choice(["sp", "sp", "idp", "base"]),
                                      rng.choice(CHURN_DROPS))
        u = {"op": "setup", "path": rng.choice([1, 1, 2, 3]), "content": content, "how": "fresh", "cls": cls,
             "kind": kind, "drop": drop}
        if kind == "entity" and rng.random() < 0.15:
            u["how"] = "file"
        if rng.random() < 0.5:
            u["label"] = rng.choice(labels)  # the same entityid again, by now with another key (tenant re-created)
        prog.append(u)
        for _ in range(rng.choice([1, 1, 1, 1, 2, 0])):
            if rng.random() < 0.85:
                op = g.sign(algs[0] if rng.random() < 0.8 else rng.choice(algs))
                if kind != "entity":
                    op["via"] = "pack"
                prog.append(op)
            else:  # the short-lived entity's backend verifies a genuine signature of one of the keys
                prog.append(g.triple(rng.choice(algs), rng.choice(keys), rng.choice(keys)))
    return prog


def churn_cases(rng, g, tables, thorough):
    """ENTITY CHURN inside a history: entities (Saml2Client / Server / SecurityContext / bare RSACrypto) are set up
    from key files, used for signing (or not at all) and DROPPED for real -- the harness keeps no reference, the
    garbage collector runs -- while later ones are set up with other keys: dozens per case over 3 keys, in one
    logical thread, in 2-3 interleaved ones (own OS threads) and with several logical threads on one OS thread;
    long-lived pre-built entities keep signing in between.  Every signature is checked against all certificates.
    Process-wide state that outlives its entity (keyed by id(), a counter, entityid, key-file path, ...) shows as
    a signature under a dropped entity's key."""
    def one(n_threads, sizes, long_lived, same_worker, uniform=None):
        g.ctr = rng.randrange(0, 400) * 10
        keys = rng.sample(RSA_NAMES, 3)
        algs = rng.sample(GOOD_ALGS, 2)
        labels = [0, 1, 2]
        threads = [{"key": rng.choice(ACTORS), "prog": _churn_program(rng, g, sizes[j], keys, algs, labels, uniform)}
                   for j in range(n_threads)]
        if long_lived:  # a pre-built entity of the deployment keeps working next to the short-lived ones
            k = rng.choice(ACTORS)
            threads.append({"key": k, "prog": [g.sign(algs[0]) for _ in range(rng.randint(2, 6))]})
        base = {"threads": threads, "extra_keys": [k for k in keys] + rng.sample(BYSTANDERS, 1), "stream": "churn"}
        if same_worker:
            base["workers"] = [0] * len(threads)
        return base

    # small histories: 2-6 short-lived entities, many schedules
    for _ in range(240 if thorough else 60):
        n_threads = rng.choice([1, 1, 2, 2, 3])
        sizes = [rng.randint(1, 3) if n_threads > 1 else rng.randint(2, 6) for _ in range(n_threads)]
        uniform = None if rng.random() < 0.5 else (rng.choice(CHURN_KINDS), rng.choice(["sp", "idp"]),
                                                   rng.choice(["before", "after"]))
        base = one(n_threads, sizes, rng.random() < 0.3, False, uniform)
        counts = _counts(base, tables)
        yield from _with_schedules(base, [[]])
        if len(base["threads"]) > 1:
            yield from _with_schedules(base, _sample_schedules(rng, counts, 6 if thorough else 2))
    # long histories: 30-200 short-lived entities per case
    for j in range(40 if thorough else 12):
        n_threads = [1, 2, 3, 1, 2, 3][j % 6]
        total = rng.randint(30, 200 if thorough else 70)
        cut = sorted(rng.sample(range(1, total), n_threads - 1))
        sizes = [b - a for a, b in zip([0] + cut, cut + [total])]
        uniform = None if j % 2 else (rng.choice(CHURN_KINDS), rng.choice(["sp", "idp"]), rng.choice(["before", "after"]))
        same_worker = n_threads > 1 and j % 4 == 1
        base = one(n_threads, sizes, rng.random() < 0.5, same_worker, uniform)
        counts = _counts(base, tables)
        if len(base["threads"]) == 1 or same_worker:
            yield from _with_schedules(base, [[]])
        else:
            yield from _with_schedules(base, _sample_schedules(rng, counts, 1))


# ------------------------------------------------------------------ verdict helpers


def compare(case, impl, model):
    if not model:
        return False
    if case.get("preempt") is not None:
        # the model's answer does not depend on the preemption point: compare per logical thread, no gate trace
        def proj(evs):
            return [[e for e in evs if e.get("t") == t] for t in range(len(case["threads"]))]

        return proj(impl.get("events") or []) == proj(model.get("events") or [])
    return impl.get("trace") == model.get("trace") and impl.get("events") == model.get("events")


def nontrivial(case, impl, lean):
    if case.get("preempt") is not None:
        return bool(impl.get("held"))
    if case.get("workers") is not None and len(set(case["workers"])) < len(case["workers"]):
        return True
    if case.get("stream") == "churn":  # some entity was dropped for real before a later one signed
        return any(op.get("drop") for th in case["threads"] for op in th["prog"] if op["op"] == "setup")
    return lean.get("class") in ("interleaved", "race")


def finding_key(case, impl, lean):
    # the root cause "one mutable key per table entry shared by everybody": the implementation's whole
    # observable (gate trace and every result) equals the shared-design model and differs from the repaired one
    if lean.get("like") == "shared":
        return "C20/shared-signer-key"
    # configuration files with one base name in different directories: only cases that contain two or more such
    # set-ups and nothing else that could explain a wrong key (all set-ups of the case are of that kind)
    setups = [op for th in case["threads"] for op in th["prog"] if op["op"] == "setup"]
    if len(setups) >= 2 and all(op.get("how") in ("file_alias", "module_alias") for op in setups):
        return "C20/config-file-basename-alias"
    return None


def _drop_thread(case, i):
    ths = [t for j, t in enumerate(case["threads"]) if j != i]
    sch = [s - 1 if s > i else s for s in case.get("schedule", []) if s != i]
    c = dict(case)
    c["threads"], c["schedule"] = ths, sch
    if case.get("workers") is not None:
        c["workers"] = [w for j, w in enumerate(case["workers"]) if j != i]
    return c


def shrink(case):
    ths = case["threads"]
    sch = case.get("schedule") or []
    if len(ths) > 1:
        for i in range(len(ths)):
            yield _drop_thread(case, i)
    for i, th in enumerate(ths):  # long (churn) programs: whole blocks first
        n = len(th["prog"])
        size = n // 2
        while size >= 4:
            for a in range(0, n, size):
                c = dict(case)
                c["threads"] = [dict(t, prog=t["prog"][:a] + t["prog"][a + size:]) if x == i else t
                                for x, t in enumerate(ths)]
                yield c
            size //= 2
    for i, th in enumerate(ths):
        if len(th["prog"]) > 40:  # a run of such a program takes seconds: blocks only until it is shorter
            continue
        for j in range(len(th["prog"])):
            c = dict(case)
            c["threads"] = [dict(t, prog=[o for k, o in enumerate(t["prog"]) if k != j]) if x == i else t
                            for x, t in enumerate(ths)]
            yield c
    if case.get("extra_keys"):
        c = dict(case)
        c["extra_keys"] = []
        yield c
    if sch:
        c = dict(case)
        c["schedule"] = sch[:-1]
        yield c
        for i in range(min(len(sch) - 1, 40)):
            c = dict(case)
            c["schedule"] = sch[:i] + sch[i + 1:]
            yield c


def _all_slots(case):
    tables = _tables()
    return [i for i, th in enumerate(case["threads"]) for op in th["prog"] for _ in range(slots(op, *tables))]


def neighbours(case, rng):
    """schedules around a diverging case: adjacent transpositions and fresh shuffles of the full multiset"""
    sch = list(case.get("schedule") or [])
    for i in range(len(sch) - 1):
        if sch[i] != sch[i + 1]:
            c = dict(case)
            c["schedule"] = sch[:i] + [sch[i + 1], sch[i]] + sch[i + 2:]
            yield c
    pool = _all_slots(case)
    if n_interleavings([pool.count(i) for i in range(len(case["threads"]))]) <= 300:
        for s in interleavings([pool.count(i) for i in range(len(case["threads"]))]):
            c = dict(case)
            c["schedule"] = s
            yield c
    else:
        for _ in range(200):
            rng.shuffle(pool)
            c = dict(case)
            c["schedule"] = list(pool)
            yield c


def search_cases(rng, broken, build_log):
    """a proof obligation broke: look for a failing input among the race-window schedules of every key/alg pairing"""
    g = _Gen(rng)
    tables = _tables()
    for _ in range(30):
        base = g.case(["ss", "sv", "s"], rng.choice(["distinct", "pair"]), "same")
        yield from _with_schedules(base, _sample_schedules(rng, _counts(base, tables), 40))


def distribution(recs):
    d = {"stream": {}, "threads": {}, "class": {}, "branch": {}, "like": {}, "ops": {}, "schedule_len": {}}
    for r in recs:
        c, l = r["case"], r["lean"]
        for k, v in (("stream", c.get("stream") or l.get("stream")), ("threads", str(len(c["threads"]))), ("class", l.get("class")),
                     ("like", l.get("like")),
                     ("ops", str(sum(len(t["prog"]) for t in c["threads"]))),
                     ("schedule_len", str(min(len(c.get("schedule") or []), 20)))):
            d[k][v] = d[k].get(v, 0) + 1
        for t in l.get("tags", []):
            d["branch"][t] = d["branch"].get(t, 0) + 1
    return d
