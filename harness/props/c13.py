"""C13 — everything the library emits is valid against the official SAML schemas: correspondence harness.

Three kinds of cases (field "op"):

* "doc":   one call of a public builder (Saml2Client / Server `create_*`, `saml2.metadata.entity_descriptor`,
           `entities_descriptor`, `sign_entity_descriptor`) on an instance built from a generated configuration,
           with generated arguments.  The emitted XML text is (a) parsed by this harness into an element tree and
           validated by the Lean validator over the regenerated schema tables (driver), (b) validated by the
           library's own oracle `saml2.xml.schema.validate` (xmlschema over the shipped XSD files) and by
           `saml2.validate.valid_instance`.  With a "mut" field the emitted document is damaged in one place
           first (mutants exist only to pin the Lean validator to XSD semantics; the property does not speak
           about them).
* "order": an instance of one element class of saml/samlp/md/xmldsig/xmlenc with a given number of items per
           member is serialised by pysaml2; the child tag sequence is compared with the Lean serialiser model
           and checked against the XSD content model (what C13_order_partial proves of the model).  With an "exts"
           field the instance also carries extension elements ((namespace, local name) pairs; ready-made extension classes
           or bare ExtensionElements): model `tagsOfExt`, claim C13_order_ext_partial / C13_ext_container_valid.
* "lex":   one lexical value against one XSD built-in type: Lean checker vs xmlschema's.

Observable compared with the model: the validity verdict (doc), the child tag sequence (order), the lexical
verdict (lex).
"""
import copy
import json
import os
import random
import xml.parsers.expat as expat

import scenario as S
from translate import classrows as TC
from translate import schema as TS

PROP = "C13"
LEAN_PROPS = "PysamlModel.Props.C13"
MODEL_TARGETS = ["PysamlModel.Model.Validate", "PysamlModel.Model.ClassOrder", "PysamlModel.Spec.C13",
                 "PysamlModel.Gen.Schema", "PysamlModel.Gen.ClassRows"]
AUDIT = "PysamlModel/Audit/C13.lean"
DRIVER = "Drivers/C13.lean"
GEN = [TC.gen_all]
CORRESPONDENCE = ("Drivers/C13.lean (Validate.validate over Gen/Schema.lean; ClassOrder.tagsOf over Gen/ClassRows.lean) "
                  "vs saml2.xml.schema.validate / SamlBase._add_members_to_element_tree / xmlschema built-in types")
RULE = ("random valid configurations x random valid arguments for every public create_* builder and for metadata "
        "generation, each output validated by the Lean validator, xmlschema and valid_instance; one-place mutants of "
        "the outputs for the validator correspondence; all element classes x random member counts (with and without extension "
        "elements) for the child order; lexical values per built-in type; round-5 grids: role-level extensions, discovery endpoints, ui_info / "
        "key-descriptor / requested-attribute forms, the public factories, create_authn_request_response, the assertion store, attribute "
        "restrictions, caller-supplied RequestedAuthnContext / NameIDPolicy, wrong argument types.  non-trivial = a document was produced (or order/lex case); "
        "distinct = distinct case JSON")
TRUSTED = [
    "XML text -> element tree (expat, namespace resolution, resolution of the xsi:type QName) is done by the harness",
    "translator harness/translate/schema.py (own XSD reader) and classrows.py (introspection of the class tables)",
    "xmlschema 2.5.1 / elementpath as the second oracle; where it is laxer than XSD (xs:anyURI unchecked) the Lean model follows it",
    "xmlsec1 stand-in for signed / encrypted outputs",
    "the builders' option logic is NOT modelled: the universal claim over configurations is explored, not proved (partial claim)",
]
ASSUMPTIONS = [
    "valid call arguments: identifiers are NCNames, instants are xs:dateTime strings, URIs are strings, status codes are URIs",
    "non-ASCII name characters are accepted as NCName characters by the Lean lexical check (approximation of \\i / \\c)",
    "identity constraints other than xs:ID uniqueness, and facets other than enumeration / maxLength / finite patterns, do not occur in the loaded schemas (the translator refuses them)",
    "message kinds the property statement does not name (ManageNameID*, NameIDMapping*, AssertionIDRequest answers, ECP/SOAP envelopes) are exercised for the validator correspondence but not constrained by the spec",
    "places where xmlschema 2.5.1 is laxer than XSD are kept out of the MUTANT stream (the library emits none of them; the Lean validator "
    "follows XSD there): character data inside an element whose content model is one wildcard particle, blanks inside an xml:lang value "
    "(union validated token-wise), a list type as xsi:type of its item type, '_' inside numeric literals, blanks inside xs:decimal",
    "validator branches abstract-element / fixed-mismatch / bad-schema-ref cannot be reached with the regenerated schema set (no abstract "
    "element declarations, no fixed attribute values); they are exercised by examples on a hand-made schema in Props/C13.lean",
]
PARALLEL = True

XSI = "http://www.w3.org/2001/XMLSchema-instance"
XS = "http://www.w3.org/2001/XMLSchema"
SAML = "urn:oasis:names:tc:SAML:2.0:assertion"
SAMLP = "urn:oasis:names:tc:SAML:2.0:protocol"
MD = "urn:oasis:names:tc:SAML:2.0:metadata"
DS = "http://www.w3.org/2000/09/xmldsig#"


class _XmlsecListPopen:
    """`xmlsec1 --list-transforms` as `saml2.algsupport.get_algorithm_support` runs it (the shared stand-in only knows the
    sign / verify / encrypt / decrypt modes): two lines, the second a comma-separated list of quoted transform names —
    the list of an ordinary xmlsec1 1.2 build with OpenSSL."""

    NAMES = ["aes128-cbc", "aes192-cbc", "aes256-cbc", "base64", "c14n", "c14n-with-comments", "exc-c14n", "exc-c14n-with-comments",
             "enveloped-signature", "hmac-sha1", "hmac-sha224", "hmac-sha256", "hmac-sha384", "hmac-sha512", "hmac-md5", "hmac-ripemd160",
             "rsa-sha1", "rsa-sha224", "rsa-sha256", "rsa-sha384", "rsa-sha512", "rsa-md5", "rsa-ripemd160", "dsa-sha1", "dsa-sha256",
             "ecdsa-sha1", "ecdsa-sha224", "ecdsa-sha256", "ecdsa-sha384", "ecdsa-sha512", "sha1", "sha256", "tripledes-cbc", "xpath", "xslt"]

    def __init__(self, argv, **kw):
        self.argv = list(argv)

    def communicate(self):
        if "--list-transforms" not in self.argv:
            return b"", b"ERROR unsupported invocation"
        return ("Registered transform klasses:\n" + ",".join('"%s"' % n for n in self.NAMES) + "\n").encode(), b""


def setup():
    S.install()
    import saml2.algsupport

    saml2.algsupport.Popen = _XmlsecListPopen


# ============================================================================ XML text <-> tree
# node = [ns, local, [[attr ns, attr local, value], ...], text, [children]]


def xml_to_tree(xml):
    if isinstance(xml, bytes):
        xml = xml.decode("utf-8")
    p = expat.ParserCreate(namespace_separator="\x01")
    prefixes = {}  # prefix -> stack of uris
    stack = []
    root = []

    def split(name):
        if "\x01" in name:
            ns, local = name.split("\x01", 1)
            return ns, local
        return "", name

    def start_ns(prefix, uri):
        prefixes.setdefault(prefix or "", []).append(uri or "")

    def end_ns(prefix):
        prefixes[prefix or ""].pop()

    def start(name, attrs):
        ns, local = split(name)
        al = []
        for i in range(0, len(attrs), 2):
            ans, alocal = split(attrs[i])
            val = attrs[i + 1]
            if ans == XSI and alocal == "type":
                v = val.strip()
                if ":" in v:
                    pf, l = v.split(":", 1)
                    st = prefixes.get(pf)
                    val = "{%s}%s" % (st[-1], l) if st else "{?%s}%s" % (pf, l)
                else:
                    st = prefixes.get("")
                    val = "{%s}%s" % (st[-1], v) if st and st[-1] else v
            al.append([ans, alocal, val])
        node = [ns, local, al, "", []]
        if stack:
            stack[-1][4].append(node)
        else:
            root.append(node)
        stack.append(node)

    def end(name):
        stack.pop()

    def chars(data):
        if stack:
            stack[-1][3] += data

    p.ordered_attributes = True
    p.StartNamespaceDeclHandler = start_ns
    p.EndNamespaceDeclHandler = end_ns
    p.StartElementHandler = start
    p.EndElementHandler = end
    p.CharacterDataHandler = chars
    p.Parse(xml, True)
    return root[0]


def _esc(s, attr=False):
    s = s.replace("&", "&amp;").replace("<", "&lt;").replace(">", "&gt;")
    if attr:
        s = s.replace('"', "&quot;").replace("\n", "&#10;").replace("\t", "&#9;").replace("\r", "&#13;")
    else:
        s = s.replace("\r", "&#13;")
    return s


def write_tree(tree, xsd_prefix=None):
    """Independent writer: all namespaces declared on the root with generated prefixes; character data of an
    element is written before its children (positions of text between children are not kept).
    `xsd_prefix`: the prefix to bind the XML Schema namespace to ("" = make it the default namespace, so that the
    QName in xsi:type is written without prefix)."""
    nsp = {"http://www.w3.org/XML/1998/namespace": "xml"}
    if xsd_prefix is not None:
        nsp[XS] = xsd_prefix

    def collect(n):
        for u in [n[0]] + [a[0] for a in n[2]]:
            if u and u not in nsp:
                nsp[u] = "n%d" % len(nsp)
        for a in n[2]:
            if a[0] == XSI and a[1] == "type" and a[2].startswith("{") and not a[2].startswith("{?"):
                u = a[2][1:].split("}", 1)[0]
                if u and u not in nsp:
                    nsp[u] = "n%d" % len(nsp)
        for k in n[4]:
            collect(k)

    collect(tree)
    out = []

    def name(ns, local):
        return "%s:%s" % (nsp[ns], local) if ns else local

    def emit(n, top):
        out.append("<" + name(n[0], n[1]))
        if top:
            for u, pf in nsp.items():
                if pf == "":
                    out.append(' xmlns="%s"' % _esc(u, True))
                elif pf != "xml":
                    out.append(' xmlns:%s="%s"' % (pf, _esc(u, True)))
        for ans, al, v in n[2]:
            if ans == XSI and al == "type" and v.startswith("{"):
                u, l = v[1:].split("}", 1)
                v = (("%s:%s" % (nsp[u], l)) if nsp[u] else l) if u in nsp else "%s:%s" % (u.lstrip("?") or "undeclared", l)
            out.append(' %s="%s"' % (name(ans, al), _esc(v, True)))
        out.append(">")
        out.append(_esc(n[3]))
        for k in n[4]:
            emit(k, False)
        out.append("</%s>" % name(n[0], n[1]))

    emit(tree, True)
    return "".join(out)


def all_nodes(tree):
    out = []

    def walk(n, parent):
        out.append((n, parent))
        for k in n[4]:
            walk(k, n)

    walk(tree, None)
    return out


# ============================================================================ mutants (validator correspondence only)

BAD_VALUES = ["True", "TRUE", "yes", "", " ", "abc", "-1", "70000", "1 2", "2026-13-40T00:00:00Z", "2026-09-21 14:13:20",
              "2026-09-21T14:13:20", "2026-09-21T24:00:00Z", "2026-02-30T10:00:00Z", "0001-01-01T00:00:00+14:00", "9id",
              "a:b", "_ok.id-1", "x y", "1.0", "+5", "00", "true", "0", "urn:x", "P1D", "PT", "en", "e", "=", "QUJD", "QUJ",
              "publicx", "public", "Permit", "permit", "exact", "better", "signing", "both", " true ", "\ttrue\n"]

MUT_KINDS = ["drop_attr", "add_plain_attr", "add_foreign_attr", "add_xml_attr", "swap_kids", "dup_kid", "drop_kid",
             "rename_same_ns", "rename_foreign", "insert_foreign", "insert_known", "bad_attr_value", "text_in_parent",
             "dup_id", "rename_root", "xsi_type", "xsi_nil", "set_leaf_text", "whitespace", "drop_all_kids", "move_kid_last", "abstract_kid"]


def _only_wildcard(n):
    """Elements whose type's content model is one wildcard particle and nothing else (md endpoints, *:Extensions,
    StatusDetail, SOAP Header/Body/detail).  xmlschema lets character data pass there ("[XsdAnyElement()] equals to an
    empty complexType declaration", groups.py) although the content is element-only; the Lean validator follows XSD,
    so mutants do not put text there."""
    return n[1].endswith("Service") or n[1] in ("Extensions", "StatusDetail", "Header", "Body", "detail", "DiscoveryResponse")


def mutate(tree, mut):
    """One-place damage, chosen deterministically from mut = {"kind", "seed"}. Returns a new tree."""
    t = copy.deepcopy(tree)
    rng = random.Random(mut["seed"])
    nodes = all_nodes(t)
    kind = mut["kind"]

    def pick(pred):
        c = [(n, p) for n, p in nodes if pred(n, p)]
        return rng.choice(c) if c else (None, None)

    if kind == "drop_attr":
        n, _ = pick(lambda n, p: n[2])
        if n:
            n[2].pop(rng.randrange(len(n[2])))
    elif kind == "add_plain_attr":
        n, _ = pick(lambda n, p: True)
        n[2].append(["", rng.choice(["Bogus", "ID", "Version", "index", "Name"]), rng.choice(["1", "x", "id-zz"])])
        names = set()
        n[2][:] = [a for a in n[2] if (a[0], a[1]) not in names and not names.add((a[0], a[1]))]
    elif kind == "add_foreign_attr":
        n, _ = pick(lambda n, p: True)
        n[2].append(["urn:x-verif:foreign", "attr", "v"])
    elif kind == "add_xml_attr":
        n, _ = pick(lambda n, p: not any(a[1] == "lang" for a in n[2]))
        if n:
            n[2].append(["http://www.w3.org/XML/1998/namespace", "lang", rng.choice(["en", "sv-SE", "", "not_a_language", "e1"])])  # no blanks: xmlschema validates a union token-wise
    elif kind == "swap_kids":
        n, _ = pick(lambda n, p: len(n[4]) >= 2)
        if n:
            i = rng.randrange(len(n[4]) - 1)
            n[4][i], n[4][i + 1] = n[4][i + 1], n[4][i]
    elif kind == "move_kid_last":
        n, _ = pick(lambda n, p: len(n[4]) >= 2)
        if n:
            n[4].append(n[4].pop(rng.randrange(len(n[4]) - 1)))
    elif kind == "dup_kid":
        n, _ = pick(lambda n, p: n[4])
        if n:
            i = rng.randrange(len(n[4]))
            n[4].insert(i, copy.deepcopy(n[4][i]))
    elif kind == "drop_kid":
        n, _ = pick(lambda n, p: n[4])
        if n:
            n[4].pop(rng.randrange(len(n[4])))
    elif kind == "drop_all_kids":
        n, _ = pick(lambda n, p: n[4])
        if n:
            n[4][:] = []
    elif kind == "rename_same_ns":
        n, _ = pick(lambda n, p: p is not None)
        if n:
            n[1] = rng.choice(["Bogus", n[1] + "X", "Issuer", "Extensions", "Status"])
    elif kind == "rename_foreign":
        n, _ = pick(lambda n, p: p is not None)
        if n:
            n[0] = "urn:x-verif:foreign"
    elif kind == "insert_foreign":
        n = None
        if rng.random() < 0.3:  # places with a strict wildcard (xmldsig)
            n, _ = pick(lambda n, p: n[1] in ("CanonicalizationMethod", "SignatureMethod", "X509Data", "KeyValue"))
        if n is None:
            n, _ = pick(lambda n, p: True)
        n[4].insert(rng.randrange(len(n[4]) + 1), ["urn:x-verif:foreign", "Thing", [["", "a", "1"]], rng.choice(["", "t"]), []])
    elif kind == "insert_known":
        n, _ = pick(lambda n, p: True)
        new = rng.choice([
            [SAML, "Issuer", [], "https://x.example/", []],
            [SAML, "Audience", [], "urn:a", []],
            [SAMLP, "StatusMessage", [], "m", []],
            [SAML, "Issuer", [["", "Bogus", "1"]], "https://x.example/", []],
            [SAML, "AttributeValue", [], "v", []],
            [DS, "KeyName", [], "k", []],
            [MD, "NameIDFormat", [], "urn:f", []],
            ["", "Unqualified", [], "", []],
        ])
        n[4].insert(rng.randrange(len(n[4]) + 1), new)
    elif kind == "bad_attr_value":
        n, _ = pick(lambda n, p: any(a[0] != XSI for a in n[2]))
        if n:
            a = rng.choice([a for a in n[2] if a[0] != XSI])
            a[2] = rng.choice(BAD_VALUES)
            if a[0] == "http://www.w3.org/XML/1998/namespace" and len(a[2].split()) > 1:
                a[2] = "9id"  # xmlschema validates the xml:lang union token-wise: no blanks there
    elif kind == "text_in_parent":
        n, _ = pick(lambda n, p: not _only_wildcard(n))
        n[3] = n[3] + rng.choice(["x", " ", "\n  ", "text & more"])
    elif kind == "dup_id":
        ids = [(n, a) for n, p in nodes for a in n[2] if a[1] in ("ID", "Id") and a[0] == ""]
        if len(ids) >= 2:
            (n1, a1), (n2, a2) = rng.sample(ids, 2)
            a2[2] = a1[2]
        elif ids:
            n, _ = pick(lambda n, p: n[4])
            if n:
                i = rng.randrange(len(n[4]))
                n[4].insert(i, copy.deepcopy(n[4][i]))
    elif kind == "rename_root":
        c = rng.randrange(3)
        if c == 0:
            t[1] = t[1] + "X"
        elif c == 1:
            t[0] = "urn:x-verif:foreign"
        else:
            t[0] = ""
    elif kind == "xsi_type":
        n, _ = pick(lambda n, p: n[1] == "AttributeValue" or rng.random() < 0.15)
        if n:
            n[2][:] = [a for a in n[2] if not (a[0] == XSI and a[1] in ("type", "nil"))]
            v = rng.choice(["{%s}integer" % XS, "{%s}string" % XS, "{%s}boolean" % XS, "{%s}dateTime" % XS, "{%s}nosuchtype" % XS,
                            "{%s}NameIDType" % SAML, "{%s}AssertionType" % SAML, "{urn:x-verif:foreign}T", "{?zz}string",
                            "{%s}anyType" % XS, "{%s}base64Binary" % XS, "{%s}date" % XS, "{%s}anyURI" % XS,
                            "{%s}DigestValueType" % DS, "{%s}CryptoBinary" % DS, "{%s}entityIDType" % MD,
                            "{%s}NCName" % XS, "{%s}ID" % XS, "{%s}token" % XS, "{%s}unsignedShort" % XS, "{%s}anySimpleType" % XS,
                            "{%s}StatusResponseType" % SAMLP, "{%s}ResponseType" % SAMLP, "{%s}AttributeStatementType" % SAML,
                            "{%s}localizedNameType" % MD, "{%s}localizedURIType" % MD, "{%s}IndexedEndpointType" % MD, "{%s}EndpointType" % MD])
            n[2].append([XSI, "type", v])
            if rng.random() < 0.5 and not _only_wildcard(n):
                n[3] = rng.choice(BAD_VALUES)
    elif kind == "xsi_nil":
        n = None
        if rng.random() < 0.5:  # the one nillable element of the schema set
            n, _ = pick(lambda n, p: n[1] == "AttributeValue")
        if n is None:
            n, _ = pick(lambda n, p: True)
        n[2][:] = [a for a in n[2] if not (a[0] == XSI and a[1] == "nil")]
        n[2].append([XSI, "nil", rng.choice(["true", "false", "1", "maybe"])])
        if rng.random() < 0.3:
            n[3] = ""
            n[4][:] = []
    elif kind == "set_leaf_text":
        n, _ = pick(lambda n, p: not n[4] and not _only_wildcard(n))
        if n:
            n[3] = rng.choice(BAD_VALUES)
    elif kind == "abstract_kid":
        # an element of an abstract type (saml:Condition, md:RoleDescriptor), with and without an xsi:type that makes it concrete
        n, _ = pick(lambda n, p: (n[0], n[1]) in ((SAML, "Conditions"), (MD, "EntityDescriptor")))
        if n and n[1] == "Conditions":
            ty = rng.choice([None, "{%s}OneTimeUseType" % SAML, "{%s}AudienceRestrictionType" % SAML, "{%s}NameIDType" % SAML, "{%s}ConditionAbstractType" % SAML])
            n[4].insert(rng.randrange(len(n[4]) + 1), [SAML, "Condition", [[XSI, "type", ty]] if ty else [], "", []])
        elif n:
            ty = rng.choice([None, "{%s}SPSSODescriptorType" % MD, "{%s}RoleDescriptorType" % MD, "{%s}SSODescriptorType" % MD])
            pos = next((i for i, k in enumerate(n[4]) if k[1].endswith("Descriptor")), len(n[4]))
            n[4].insert(pos, [MD, "RoleDescriptor", [["", "protocolSupportEnumeration", SAMLP]] + ([[XSI, "type", ty]] if ty else []), "", []])
        else:
            t[4].append([SAML, "Condition", [], "", []])
    elif kind == "whitespace":
        for n, p in nodes:
            if n[4] and rng.random() < 0.5:
                n[3] = n[3] + rng.choice([" ", "\n", "\t\n  "])
    else:
        raise ValueError(kind)
    return t


# ============================================================================ generators: values

NAMEID_FORMATS = [
    "urn:oasis:names:tc:SAML:2.0:nameid-format:transient",
    "urn:oasis:names:tc:SAML:2.0:nameid-format:persistent",
    "urn:oasis:names:tc:SAML:1.1:nameid-format:emailAddress",
    "urn:oasis:names:tc:SAML:1.1:nameid-format:unspecified",
    "urn:oasis:names:tc:SAML:2.0:nameid-format:entity",
    "urn:oasis:names:tc:SAML:2.0:nameid-format:kerberos",
]
ACCR = ["urn:oasis:names:tc:SAML:2.0:ac:classes:Password", "urn:oasis:names:tc:SAML:2.0:ac:classes:PasswordProtectedTransport",
        "urn:oasis:names:tc:SAML:2.0:ac:classes:unspecified", "https://refeds.org/profile/mfa"]
SIG_ALGS = ["http://www.w3.org/2000/09/xmldsig#rsa-sha1", "http://www.w3.org/2001/04/xmldsig-more#rsa-sha256",
            "http://www.w3.org/2001/04/xmldsig-more#rsa-sha384", "http://www.w3.org/2001/04/xmldsig-more#rsa-sha512"]
DIG_ALGS = ["http://www.w3.org/2000/09/xmldsig#sha1", "http://www.w3.org/2001/04/xmlenc#sha256",
            "http://www.w3.org/2001/04/xmldsig-more#sha384", "http://www.w3.org/2001/04/xmlenc#sha512"]
STATUS2 = ["urn:oasis:names:tc:SAML:2.0:status:AuthnFailed", "urn:oasis:names:tc:SAML:2.0:status:NoPassive",
           "urn:oasis:names:tc:SAML:2.0:status:RequestDenied", "urn:oasis:names:tc:SAML:2.0:status:UnknownPrincipal",
           "urn:oasis:names:tc:SAML:2.0:status:InvalidNameIDPolicy", "urn:oasis:names:tc:SAML:2.0:status:PartialLogout"]
FRIENDLY = ["givenName", "sn", "mail", "displayName", "uid", "title", "eduPersonAffiliation", "eduPersonPrincipalName", "cn", "o"]
TEXTS = ["plain", "Åke Öberg", "a & b", "<script>alert(1)</script>", "quote\"s 'n' things", "  padded  ", "line\nbreak", "tab\there",
         "日本語", "emoji \U0001F600", "x" * 300, "]]>", "&amp;", "0", "true"]
BINDINGS = [S.BINDING_POST, S.BINDING_REDIRECT, S.BINDING_SOAP, S.BINDING_ARTIFACT, S.BINDING_PAOS]


def g_ncname(rng):
    c = rng.randrange(6)
    tail = "".join(rng.choice("abcdefghijklmnopqrstuvwxyzABCDEFGHIJKLMNOPQRSTUVWXYZ0123456789") for _ in range(rng.randint(1, 24)))
    if c == 0:
        return "id-" + tail
    if c == 1:
        return "_" + tail
    if c == 2:
        return "a" + tail + ".b-c_d"
    if c == 3:
        return "ONELOGIN_" + tail
    if c == 4:
        return rng.choice("abcXYZ_") + tail
    return "id" + tail


def g_uri(rng):
    return rng.choice([
        "https://sp.verif.example/sp", "https://idp.verif.example/idp", "urn:mace:example.org:saml:sp", "https://x.example/a?b=c&d=e",
        "https://x.example/path with space", "http://localhost:8088/x#frag", "https://xn--bcher-kva.example/", "https://bücher.example/ü",
        "urn:oasis:names:tc:SAML:2.0:consent:obtained", "relative/path", "mailto:a@b.example"])


def g_text(rng):
    return rng.choice(TEXTS)


def g_instant(rng):
    """xs:dateTime strings in the forms the library's own valid_date_time accepts (UTC, optional fraction / 'Z')."""
    dt = rng.choice([0, 1, 60, 300, 3600, 86400, -60, 10 ** 7])
    c = rng.randrange(6)
    s = S.fmt_time(S.NOW0 + dt)
    if c == 0:
        return s[:-1] + ".250Z"
    if c == 1:
        return s[:-1]
    return s


def g_nameid(rng, allow_fields=True):
    d = {"text": rng.choice(["subject-1", "user@example.org", "_" + "f" * 32, g_text(rng)]), "format": rng.choice(NAMEID_FORMATS + [None])}
    if allow_fields and rng.random() < 0.3:
        d["name_qualifier"] = g_uri(rng)
    if allow_fields and rng.random() < 0.3:
        d["sp_name_qualifier"] = g_uri(rng)
    if allow_fields and rng.random() < 0.15:
        d["sp_provided_id"] = g_text(rng)
    return {k: v for k, v in d.items() if v is not None}


def g_value(rng):
    c = rng.randrange(12)
    if c < 6:
        return g_text(rng)
    if c == 6:
        return rng.choice([1, -5, 2 ** 40, 65536])  # 0 is refused by do_ava ("strange value type")
    if c == 7:
        return rng.choice([True, False])
    if c == 8:
        return rng.choice([1.5, -0.25, 1e16, 3.0])
    if c == 9:
        return ""
    return rng.choice(["staff", "member", "student"])


def g_identity(rng):
    ident = {}
    for k in rng.sample(FRIENDLY + ["customAttribute", "urn:oid:1.2.3.4", "Attr With Space"], rng.randint(0, 5)):
        n = rng.choice([0, 1, 1, 1, 2, 3])
        ident[k] = [g_value(rng) for _ in range(n)]
        if rng.random() < 0.1:
            ident[k] = g_value(rng)  # a bare value instead of a list
    return ident


def g_sign(rng):
    d = {"sign": rng.choice([None, None, True, False])}
    if rng.random() < 0.3:
        d["sign_alg"] = rng.choice(SIG_ALGS)
    if rng.random() < 0.3:
        d["digest_alg"] = rng.choice(DIG_ALGS)
    return d


def g_status(rng):
    c = rng.randrange(4)
    if c == 0:
        return None
    return {"code": rng.choice(["urn:oasis:names:tc:SAML:2.0:status:Success", "urn:oasis:names:tc:SAML:2.0:status:Responder",
                                "urn:oasis:names:tc:SAML:2.0:status:Requester"]),
            "sub": rng.choice([None] + STATUS2), "message": rng.choice([None, g_text(rng)])}


# ============================================================================ generators: configurations


def g_ui_info(rng):
    ui = {}
    if rng.random() < 0.7:
        ui["display_name"] = rng.choice(["Example Co.", {"text": "Exempel", "lang": "sv"}, [{"text": "A", "lang": "en"}, {"text": "B", "lang": "de"}], g_text(rng)])
    if rng.random() < 0.5:
        ui["description"] = rng.choice([{"text": "Exempel Bolag", "lang": "se"}, "A description"])
    if rng.random() < 0.4:
        ui["information_url"] = rng.choice(["http://example.com/saml2/info.html", {"text": "http://example.com/i", "lang": "en"}])
    if rng.random() < 0.4:
        ui["privacy_statement_url"] = "http://example.com/saml2/privacyStatement.html"
    if rng.random() < 0.4:
        ui["logo"] = rng.choice([{"height": "40", "width": "30", "text": "http://example.com/logo.jpg"},
                                 [{"height": "40", "width": "30", "text": "http://example.com/logo.jpg", "lang": "en"},
                                  {"height": "4", "width": "3", "text": "data:image/png;base64,AAAA"}]])
    if rng.random() < 0.4:
        ui["keywords"] = rng.choice([{"lang": "en", "text": ["foo", "bar"]}, [{"lang": "en", "text": ["a"]}, "plain+words"]])
    return ui


def g_common(rng):
    top = {}
    if rng.random() < 0.5:
        top["name"] = rng.choice(["verif entity", g_text(rng)])
    if rng.random() < 0.3:
        top["description"] = rng.choice(["A service", ["En tjänst", "sv"]])
    if rng.random() < 0.4:
        top["organization"] = {"name": rng.choice([[["Example Company", "en"], ["Exempel AB", "se"]], "Example", ["Example", "en"]]),
                               "display_name": rng.choice([["Exempel AB"], "Example Co", [["Ex", "en"]]]),
                               "url": rng.choice([[["http://example.com", "en"], ["http://exempel.se", "se"]], "http://example.com"])}
    if rng.random() < 0.4:
        cps = []
        for _ in range(rng.randint(1, 2)):
            cp = {"given_name": "Derek", "sur_name": "Jeter", "company": "Example Co.", "email_address": rng.choice([["jeter@example.com"], "mailto:j@example.com"]),
                  "contact_type": rng.choice(["technical", "support", "administrative", "billing", "other"])}
            if rng.random() < 0.3:
                cp["telephone_number"] = ["+1 555 0100"]
            for k in rng.sample(["given_name", "sur_name", "company", "email_address"], rng.randint(0, 3)):
                cp.pop(k)
            if rng.random() < 0.3:  # the key names of the documentation's example
                cp = {"givenname": "Derek", "surname": "Jeter", "company": "Example Co.", "mail": ["jeter@example.com"], "type": "technical"}
            cps.append(cp)
        top["contact_person"] = cps
    if rng.random() < 0.3:
        top["entity_category"] = rng.sample(["http://www.geant.net/uri/dataprotection-code-of-conduct/v1", "http://refeds.org/category/research-and-scholarship"], rng.randint(1, 2))
    if rng.random() < 0.2:
        top["entity_category_support"] = ["http://refeds.org/category/research-and-scholarship"]
    if rng.random() < 0.2:
        top["assurance_certification"] = ["https://refeds.org/sirtfi"]
    if rng.random() < 0.2:
        top["entity_attributes"] = [{"format": "urn:oasis:names:tc:SAML:2.0:attrname-format:uri", "name": "urn:oasis:names:tc:SAML:profiles:subject-id:req",
                                     "values": rng.choice([["any"], ["a", "b"], []])},
                                    {"name": "urn:x:second", "friendly_name": "second", "values": ["v"]}][: rng.randint(1, 2)]
    if rng.random() < 0.3:
        top["valid_for"] = rng.choice([1, 24, 8760])
    if rng.random() < 0.3:
        top["signing_algorithm"] = rng.choice(SIG_ALGS)
    if rng.random() < 0.3:
        top["digest_algorithm"] = rng.choice(DIG_ALGS)
    if rng.random() < 0.2:
        top["additional_cert_files"] = ["@cert:idp_sign2"]
    return top


def g_sp_cfg(rng):
    sp = {}

    def maybe(p, k, f):
        if rng.random() < p:
            sp[k] = f()

    for k in ["authn_requests_signed", "logout_requests_signed", "logout_responses_signed", "want_assertions_signed", "want_response_signed"]:
        maybe(0.35, k, lambda: rng.choice([True, False, "true", "false"]))
    maybe(0.4, "name_id_format", lambda: rng.choice([rng.sample(NAMEID_FORMATS, rng.randint(1, 3)), rng.choice(NAMEID_FORMATS)]))
    maybe(0.4, "name_id_policy_format", lambda: rng.choice(NAMEID_FORMATS))
    maybe(0.3, "name_id_format_allow_create", lambda: rng.choice([True, False]))
    maybe(0.3, "requested_authn_context", lambda: {"authn_context_class_ref": rng.sample(ACCR, rng.randint(1, 3)),
                                                    "comparison": rng.choice(["exact", "minimum", "maximum", "better"])})
    maybe(0.15, "hide_assertion_consumer_service", lambda: True)
    if rng.random() < 0.3:
        sp["sp_type"] = rng.choice(["public", "private"])
        sp["sp_type_in_metadata"] = rng.choice([True, False])
    maybe(0.3, "requested_attributes", lambda: [
        {"friendly_name": "givenName", "required": True},
        {"name": "http://eidas.europa.eu/attributes/naturalperson/DateOfBirth", "name_format": "urn:oasis:names:tc:SAML:2.0:attrname-format:uri", "required": rng.choice([True, False])},
        {"name": "urn:oid:2.5.4.4", "friendly_name": "sn"}][: rng.randint(1, 3)])
    maybe(0.2, "force_authn", lambda: rng.choice([True, "true", False]))
    maybe(0.4, "required_attributes", lambda: rng.sample(FRIENDLY, rng.randint(1, 3)))
    maybe(0.4, "optional_attributes", lambda: rng.sample(FRIENDLY, rng.randint(1, 3)))
    maybe(0.2, "requested_attribute_name_format", lambda: rng.choice(["urn:oasis:names:tc:SAML:2.0:attrname-format:uri", "urn:oasis:names:tc:SAML:2.0:attrname-format:basic"]))
    maybe(0.3, "ui_info", lambda: g_ui_info(rng))
    maybe(0.3, "discovery_response", lambda: [["https://sp.verif.example/disco", S.BINDING_DISCO]])
    eps = {"assertion_consumer_service": [[S.SP_ACS_POST, S.BINDING_POST], [S.SP_ACS_REDIRECT, S.BINDING_REDIRECT]],
           "single_logout_service": [[S.SP_SLO_REDIRECT, S.BINDING_REDIRECT], [S.SP_SLO_POST, S.BINDING_POST], [S.SP_SLO_SOAP, S.BINDING_SOAP]]}
    if rng.random() < 0.4:
        eps["artifact_resolution_service"] = [["https://sp.verif.example/ars", S.BINDING_SOAP]]
    if rng.random() < 0.4:
        eps["manage_name_id_service"] = [["https://sp.verif.example/mni", S.BINDING_SOAP], ["https://sp.verif.example/mni/r", S.BINDING_REDIRECT]]
    if rng.random() < 0.3:
        eps["assertion_consumer_service"].append(["https://sp.verif.example/acs/art", S.BINDING_ARTIFACT, rng.choice([5, "7"])])
    if rng.random() < 0.4:
        eps["assertion_consumer_service"].append(["https://sp.verif.example/acs/paos", S.BINDING_PAOS])
    sp["endpoints"] = eps
    return {"role": "sp", "svc": sp, "top": g_common(rng)}


def g_idp_cfg(rng):
    idp = {}

    def maybe(p, k, f):
        if rng.random() < p:
            idp[k] = f()

    for k in ["sign_response", "sign_assertion", "encrypt_assertion", "encrypted_advice_attributes", "want_authn_requests_signed"]:
        maybe(0.3, k, lambda: rng.choice([True, False]))
    maybe(0.2, "encrypt_assertion_self_contained", lambda: rng.choice([True, False]))
    maybe(0.4, "name_id_format", lambda: rng.choice([rng.sample(NAMEID_FORMATS, rng.randint(1, 3)), rng.choice(NAMEID_FORMATS)]))
    maybe(0.3, "scope", lambda: rng.sample(["example.org", "example.com", "^.*\\.example\\.net$"], rng.randint(1, 2)))
    maybe(0.3, "ui_info", lambda: g_ui_info(rng))
    maybe(0.2, "error_url", lambda: "http://localhost:8088/error_page")
    pol = {"lifetime": {"minutes": rng.choice([1, 15, 600])}, "attribute_restrictions": None}
    if rng.random() < 0.4:
        pol["name_form"] = rng.choice(["urn:oasis:names:tc:SAML:2.0:attrname-format:uri", "urn:oasis:names:tc:SAML:2.0:attrname-format:basic"])
    if rng.random() < 0.3:
        pol["nameid_format"] = rng.choice(NAMEID_FORMATS[:4])
    if rng.random() < 0.2:
        pol["fail_on_missing_requested"] = rng.choice([True, False])
    idp["policy"] = {"default": pol}
    eps = {"single_sign_on_service": [[S.IDP_SSO_REDIRECT, S.BINDING_REDIRECT], [S.IDP_SSO_POST, S.BINDING_POST]],
           "single_logout_service": [[S.IDP_SLO_REDIRECT, S.BINDING_REDIRECT], [S.IDP_SLO_POST, S.BINDING_POST], [S.IDP_SLO_SOAP, S.BINDING_SOAP]]}
    if rng.random() < 0.4:
        eps["artifact_resolution_service"] = [["https://idp.verif.example/ars", S.BINDING_SOAP]]
    if rng.random() < 0.4:
        eps["manage_name_id_service"] = [["https://idp.verif.example/mni", S.BINDING_SOAP]]
    if rng.random() < 0.3:
        eps["name_id_mapping_service"] = [["https://idp.verif.example/nim", S.BINDING_SOAP]]
    if rng.random() < 0.3:
        eps["assertion_id_request_service"] = [["https://idp.verif.example/airs", "urn:oasis:names:tc:SAML:2.0:bindings:URI"]]
    idp["endpoints"] = eps
    return {"role": "idp", "svc": idp, "top": g_common(rng)}


def g_md_cfg(rng):
    """Configuration for metadata generation: one or several roles in one entity."""
    roles = rng.choice([["sp"], ["idp"], ["sp"], ["idp"], ["aa"], ["idp", "aa"], ["aq"], ["pdp"], ["sp", "idp"], ["idp", "aa", "aq"], ["idp", "pdp"]])
    service = {}
    for r in roles:
        if r == "sp":
            service["sp"] = g_sp_cfg(rng)["svc"]
        elif r == "idp":
            service["idp"] = g_idp_cfg(rng)["svc"]
        elif r == "aa":
            aa = {"endpoints": {"attribute_service": [["https://idp.verif.example/aa", S.BINDING_SOAP]]}}
            if rng.random() < 0.4:
                aa["endpoints"]["assertion_id_request_service"] = [["https://idp.verif.example/aa/airs", "urn:oasis:names:tc:SAML:2.0:bindings:URI"]]
            if rng.random() < 0.4:
                aa["name_id_format"] = rng.sample(NAMEID_FORMATS, rng.randint(1, 2))
            if rng.random() < 0.25:
                aa["attribute"] = rng.sample(["urn:oid:2.5.4.42", "urn:oid:2.5.4.4", "urn:oid:0.9.2342.19200300.100.1.3"], rng.randint(1, 2))
            if rng.random() < 0.25:
                aa["attribute_profile"] = ["urn:oasis:names:tc:SAML:2.0:profiles:attribute:basic"]
            service["aa"] = aa
        elif r == "aq":
            service["aq"] = {"endpoints": {"authn_query_service": [["https://idp.verif.example/aq", S.BINDING_SOAP]]}}
        elif r == "pdp":
            pdp = {"endpoints": {"authz_service": [["https://idp.verif.example/pdp", S.BINDING_SOAP]]}}
            if rng.random() < 0.4:
                pdp["name_id_format"] = rng.sample(NAMEID_FORMATS, rng.randint(1, 2))
            service["pdp"] = pdp
    top = g_common(rng)
    if rng.random() < 0.7:
        top["with_keys"] = rng.choice(["sign", "sign+enc", "none"])
    if rng.random() < 0.3:
        top["no_xmlsec"] = True
    if rng.random() < 0.2:
        # "encryption" without an encryption key pair makes do_key_descriptor crash at serialisation (list as text)
        top["metadata_key_usage"] = rng.choice(["signing", "encryption", "both"] if top.get("with_keys") == "sign+enc" else ["signing", "both"])
    return {"role": "md", "service": service, "top": top}


# ============================================================================ instances

_inst = {}


def _fix_paths(o):
    if isinstance(o, dict):
        return {k: _fix_paths(v) for k, v in o.items()}
    if isinstance(o, list):
        return [_fix_paths(v) for v in o]
    if isinstance(o, str) and o.startswith("@cert:"):
        return S.cert_path(o[6:])
    return o


def instance(cfg):
    key = json.dumps(cfg, sort_keys=True)
    if key in _inst:
        return _inst[key]
    if len(_inst) > 40:
        _inst.clear()
    top = _fix_paths(dict(cfg.get("top", {})))
    if cfg["role"] == "sp":
        svc = copy.deepcopy(cfg["svc"])
        if cfg.get("msg_cb"):  # a message callback that hands the message on unchanged
            from saml2.client import Saml2Client
            from saml2.config import SPConfig

            inst = Saml2Client(config=SPConfig().load(S.sp_config(sp=svc, **top)), msg_cb=lambda m: m)
        else:
            inst = S.make_sp(S.sp_config(sp=svc, **top))
    elif cfg["role"] == "idp":
        svc = copy.deepcopy(cfg["svc"])
        if top.get("sp_no_enc") or top.get("sp_formats") or top.get("sp_req_attrs"):
            sp_ent = S.default_sp_entity()
            if top.pop("sp_no_enc", False):  # the requester publishes a signing key only
                sp_ent["spsso"] = dict(sp_ent["spsso"], keys=[("signing", "sp")])
            if top.get("sp_formats"):  # ... publishes name-id formats
                sp_ent["spsso"] = dict(sp_ent["spsso"], nameid_formats=top.pop("sp_formats"))
            if top.pop("sp_req_attrs", False):  # ... an attribute consuming service with a required attribute
                sp_ent["spsso"] = dict(sp_ent["spsso"], attr_cs=[[{"name": "urn:oid:2.5.4.42", "name_format": NAMEFORMAT_URI_, "friendly_name": "givenName", "required": True},
                                                                  {"name": "urn:oid:0.9.2342.19200300.100.1.3", "name_format": NAMEFORMAT_URI_, "friendly_name": "mail", "required": False}]])
            inst = S.make_idp(S.idp_config(sp_entities=[sp_ent], idp=svc, **top))
        else:
            inst = S.make_idp(S.idp_config(idp=svc, **top))
    else:
        from saml2.config import Config

        with_keys = top.pop("with_keys", "sign")
        conf = {"entityid": "https://md.verif.example/entity", "service": copy.deepcopy(cfg["service"]), "delete_tmpfiles": True}
        if not top.pop("no_xmlsec", False):
            conf["xmlsec_binary"] = S.xmlsec_standin.BINARY  # adds the algorithm-support elements to md:Extensions
        if with_keys in ("sign", "sign+enc"):
            conf["key_file"] = S.key_path("idp_sign")
            conf["cert_file"] = S.cert_path("idp_sign")
        if with_keys == "sign+enc":
            conf["encryption_keypairs"] = [{"key_file": S.key_path("sp_enc1"), "cert_file": S.cert_path("sp_enc1")}]
        conf.update(top)
        inst = Config().load(conf)
    _inst[key] = inst
    return inst


_peers = {}


def peer(role):
    """A default counterpart, used only to manufacture the request objects a response builder needs."""
    if role not in _peers:
        _peers[role] = S.make_sp() if role == "sp" else S.make_idp()
    return _peers[role]


def mk_nameid(d):
    from saml2 import saml

    return saml.NameID(**d) if d else None


def mk_status(d):
    from saml2 import samlp

    if d is None:
        return None
    sc = samlp.StatusCode(value=d["code"], status_code=samlp.StatusCode(value=d["sub"]) if d.get("sub") else None)
    return samlp.Status(status_code=sc, status_message=samlp.StatusMessage(text=d["message"]) if d.get("message") else None)


def sign_kw(a):
    return {k: a[k] for k in ("sign", "sign_alg", "digest_alg") if k in a}


def resp_sign_kw(a):
    kw = {}
    for src, dst in (("sign", "sign_response"), ("sign_alg", "sign_alg"), ("digest_alg", "digest_alg"), ("sign_assertion", "sign_assertion")):
        if src in a:
            kw[dst] = a[src]
    return kw


# ============================================================================ builders
# name -> (role of the instance, named by the property statement?, argument generator, call)


def ga_authn_request(rng, cfg):
    a = {"destination": rng.choice([S.IDP_SSO_POST, S.IDP_SSO_REDIRECT]), "binding": rng.choice(BINDINGS[:2] + [S.BINDING_ARTIFACT, S.BINDING_PAOS])}
    a.update(g_sign(rng))
    if rng.random() < 0.3:
        a["message_id"] = g_ncname(rng)
    if rng.random() < 0.2:
        a["consent"] = rng.choice([True, "urn:oasis:names:tc:SAML:2.0:consent:obtained"])
    if rng.random() < 0.3:
        a["nameid_format"] = rng.choice(NAMEID_FORMATS)
    if rng.random() < 0.25:
        a["allow_create"] = rng.choice([True, "true", "false", False])
    if rng.random() < 0.15:
        a["vorg"] = "urn:mace:example.com:it:tek"
    if rng.random() < 0.2:
        a["sign_prepare"] = rng.choice([True, False])
    c = rng.randrange(6)
    if c == 0:
        a["assertion_consumer_service_url"] = S.SP_ACS_POST
    elif c == 1:
        a["assertion_consumer_service_index"] = rng.choice(["0", "1", "5"])
    elif c == 2:
        a["assertion_consumer_service_urls"] = [S.SP_ACS_REDIRECT]
    if rng.random() < 0.2:
        a["attribute_consuming_service_index"] = rng.choice(["1", "0"])
    if rng.random() < 0.2:
        a["provider_name"] = g_text(rng)
    if rng.random() < 0.25:
        a["requested_authn_context"] = {"authn_context_class_ref": rng.sample(ACCR, rng.randint(1, 2)), "comparison": rng.choice(["exact", "minimum", "maximum", "better"])}
    if rng.random() < 0.2:
        a["force_authn"] = rng.choice(["true", True, "false", "1"])
    if rng.random() < 0.2:
        a["is_passive"] = rng.choice(["true", "false"])
    if rng.random() < 0.2:
        a["scoping"] = {"proxy_count": rng.choice(["0", "2", None]), "idp_list": rng.choice([None, [S.IDP_ID, S.IDP2_ID]]), "requester_id": rng.choice([None, ["https://r.example/1"]])}
    if rng.random() < 0.15:
        a["subject"] = g_nameid(rng)
    if rng.random() < 0.15:
        a["conditions"] = {"not_before": g_instant(rng), "not_on_or_after": g_instant(rng), "audience": rng.choice([None, [S.SP_ID]]), "one_time_use": rng.choice([True, False])}
    if rng.random() < 0.15:
        a["requested_attributes"] = [{"friendly_name": "mail", "required": rng.choice([True, False])}, {"name": "urn:oid:2.5.4.42"}][: rng.randint(1, 2)]
    if rng.random() < 0.1:
        a["nsprefix"] = {"saml": SAML, "samlp": SAMLP}
    if rng.random() < 0.15:
        a["extensions"] = rng.choice(["sptype", "foreign", "both"])
    return a


def mk_extensions(kind):
    """A non-empty samlp:Extensions element supplied by the caller."""
    import saml2
    from saml2 import samlp
    from saml2.extension import sp_type

    ext = samlp.Extensions()
    if kind in ("sptype", "both"):
        ext.add_extension_element(sp_type.SPType(text="public"))
    if kind in ("foreign", "both"):
        ext.extension_elements.append(saml2.ExtensionElement("Hint", namespace="urn:x-verif:ext", attributes={"level": "1"}, text="h"))
    return ext


def mk_scoping(d):
    from saml2 import samlp

    if d is None:
        return None
    sc = samlp.Scoping(proxy_count=d.get("proxy_count"))
    if d.get("idp_list"):
        sc.idp_list = samlp.IDPList(idp_entry=[samlp.IDPEntry(provider_id=e, name="n") for e in d["idp_list"]])
    if d.get("requester_id"):
        sc.requester_id = [samlp.RequesterID(text=r) for r in d["requester_id"]]
    return sc


def mk_conditions(d):
    from saml2 import saml

    if d is None:
        return None
    c = saml.Conditions(not_before=d.get("not_before"), not_on_or_after=d.get("not_on_or_after"))
    if d.get("audience"):
        c.audience_restriction = [saml.AudienceRestriction(audience=[saml.Audience(text=x) for x in d["audience"]])]
    if d.get("one_time_use"):
        c.one_time_use = [saml.OneTimeUse()]
    return c


def mk_subject(d):
    from saml2 import saml

    return saml.Subject(name_id=mk_nameid(d)) if d is not None else None


def mk_rac(d):
    from saml2 import saml, samlp

    if d is None:
        return None
    return samlp.RequestedAuthnContext(authn_context_class_ref=[saml.AuthnContextClassRef(text=x) for x in d["authn_context_class_ref"]],
                                       comparison=d.get("comparison"))


def call_authn_request(sp, a):
    kw = dict(a)
    dest = kw.pop("destination")
    for k, f in (("scoping", mk_scoping), ("subject", mk_subject), ("conditions", mk_conditions), ("extensions", mk_extensions)):
        if k in kw:
            kw[k] = f(kw[k])
    rac = kw.get("requested_authn_context")
    if isinstance(rac, dict) and rac.get("as") == "element":  # handed in as a ready-made element
        kw["requested_authn_context"] = mk_rac(rac)
    elif isinstance(rac, dict) and rac.get("as") == "other":  # neither an element nor a mapping (ignored with a warning)
        kw["requested_authn_context"] = rac["value"]
    if "name_id_policy_arg" in kw:  # the caller's own NameIDPolicy (or an explicit None) replaces the computed one
        from saml2 import samlp

        nip = kw.pop("name_id_policy_arg")
        kw["name_id_policy"] = None if nip is None else samlp.NameIDPolicy(**nip)
    if "wrong_type" in kw:
        param, val = kw.pop("wrong_type")
        kw[param] = val
        # conditions / subject are checked (ValueError); `scoping` is a named parameter and goes unchecked into the message:
        # serialisation (done here) crashes on the foreign object (AttributeError), nothing is emitted
        return _refusal(lambda: _refusal(lambda: str(sp.create_authn_request(dest, **kw)[1]), ValueError, "Wrong type for param"),
                        AttributeError, "become_child_element_of")
    return sp.create_authn_request(dest, **kw)[1]


def ga_logout_request(rng, cfg):
    a = {"destination": rng.choice([S.IDP_SLO_POST, S.IDP_SLO_REDIRECT, S.IDP_SLO_SOAP]), "issuer_entity_id": S.IDP_ID}
    a.update(g_sign(rng))
    if rng.random() < 0.5:
        a["name_id"] = g_nameid(rng)
    else:
        a["subject_id"] = rng.choice(["subject-1", g_text(rng)])
    if rng.random() < 0.4:
        a["reason"] = rng.choice(["urn:oasis:names:tc:SAML:2.0:logout:user", "urn:oasis:names:tc:SAML:2.0:logout:admin", g_text(rng)])
    if rng.random() < 0.5:
        a["expire"] = g_instant(rng)
    if rng.random() < 0.5:
        a["session_indexes"] = [g_ncname(rng) for _ in range(rng.randint(1, 3))]
    if rng.random() < 0.3:
        a["message_id"] = g_ncname(rng)
    if rng.random() < 0.15:
        a["consent"] = True
    if rng.random() < 0.15:
        a["extensions"] = rng.choice(["foreign", "both"])
    return a


def call_logout_request(ent, a):
    kw = dict(a)
    if "extensions" in kw:
        kw["extensions"] = mk_extensions(kw["extensions"])
    if "name_id" in kw:
        kw["name_id"] = mk_nameid(kw["name_id"])
    if kw.get("session_indexes"):
        from saml2 import samlp

        kw["session_indexes"] = [samlp.SessionIndex(text=x["el"]) if isinstance(x, dict) else x for x in kw["session_indexes"]]
    if kw.pop("idp_cache_lookup", False) and ent.entity_type == "idp":
        # subject_id on a Server: the name is looked up in `self.users`, which a Server does not have (None): the call
        # crashes with AttributeError before anything is built -- nothing emitted
        dest, ieid = kw.pop("destination"), S.SP_ID
        kw.pop("issuer_entity_id")
        try:
            return ent.create_logout_request(dest, ieid, **kw)[1]
        except AttributeError as e:
            if "get_entityid" in str(e):
                return None
            raise
    if ent.entity_type == "idp":
        # Server has no local-id lookup usable without a user database: the IdP side always passes a NameID
        from saml2 import saml

        if "subject_id" in kw:
            kw["name_id"] = saml.NameID(text=kw.pop("subject_id"))
        kw["issuer_entity_id"] = S.SP_ID
    dest = kw.pop("destination")
    ieid = kw.pop("issuer_entity_id")
    return ent.create_logout_request(dest, ieid, **kw)[1]


def ga_logout_response(rng, cfg):
    a = {"request_id": g_ncname(rng), "bindings": rng.choice([[S.BINDING_SOAP], [S.BINDING_POST], [S.BINDING_REDIRECT], [S.BINDING_POST, S.BINDING_REDIRECT]]),
         "status": g_status(rng)}
    a.update(g_sign(rng))
    if rng.random() < 0.2:
        a["issuer"] = g_uri(rng)
    return a


def call_logout_response(ent, a):
    from saml2 import saml, samlp

    other = S.IDP_ID if ent.entity_type == "sp" else S.SP_ID
    req = samlp.LogoutRequest(id=a["request_id"], version="2.0", issue_instant=S.fmt_time(S.NOW0), issuer=saml.Issuer(text=other),
                              name_id=saml.NameID(text="subject-1"))
    kw = sign_kw(a)
    if a.get("issuer"):
        kw["issuer"] = saml.Issuer(text=a["issuer"])
    return ent.create_logout_response(req, bindings=a["bindings"], status=mk_status(a.get("status")), **kw)


def ga_error_response(rng, cfg):
    a = {"in_response_to": g_ncname(rng), "destination": S.SP_ACS_POST}
    c = rng.randrange(5)
    if c == 0:
        a["info"] = ["tuple", rng.choice(STATUS2), g_text(rng)]
    elif c == 1:
        a["info"] = ["tuple", rng.choice(STATUS2), ""]
    elif c == 2:
        a["info"] = ["exc", rng.choice(["UnknownPrincipal", "UnsupportedBinding", "VersionMismatch", "Exception", "MissingValue", "SAMLError", "ValueError"]), g_text(rng)]
    elif c == 3:
        a["info"] = ["exc", "Exception", None]
    else:
        a["info"] = ["exc", "UnknownSystemEntity", rng.choice([g_text(rng), {"status_message_text": "m", "status_code_status_code_value": rng.choice(STATUS2)}])]
    a.update(g_sign(rng))
    if rng.random() < 0.2:
        a["issuer"] = g_uri(rng)
    return a


_exc_classes = []


def exception_classes():
    """Dotted names of every exception class importable from saml2.* (the live code decides), plus a few built-ins."""
    if _exc_classes:
        return _exc_classes
    import importlib
    import inspect
    import pkgutil

    import saml2

    found = {}
    for m in pkgutil.walk_packages(saml2.__path__, "saml2."):
        if any(x in m.name for x in ("mongo", "tools", "s2repoze", ".ws.", "schema.", "userinfo", "authn_context.", "extension.",
                                     "attributemaps", "entity_category.", ".data.")):
            continue
        try:
            mod = importlib.import_module(m.name)
        except Exception:  # optional dependencies of modules the property is not about
            continue
        for n, c in vars(mod).items():
            if inspect.isclass(c) and issubclass(c, Exception) and c.__module__.startswith("saml2"):
                found[c.__module__ + "." + c.__name__] = c
    _exc_classes.extend(sorted(found) + ["builtins.Exception", "builtins.ValueError", "builtins.KeyError", "builtins.OSError",
                                         "builtins.RuntimeError", "builtins.LookupError"])
    return _exc_classes


def mk_exc2(dotted, depth, arg):
    """An instance of the named class, or of a harness-defined subclass `depth` levels below it; None when the class
    cannot be constructed from one positional argument."""
    import importlib

    modname, cname = dotted.rsplit(".", 1)
    cls = getattr(importlib.import_module(modname), cname)
    for i in range(depth):
        cls = type("Harness%sSub%d" % (cname, i + 1), (cls,), {})
    if isinstance(arg, list):
        arg = tuple(arg)
    try:
        return cls() if arg is None else cls(arg)
    except TypeError:
        return None


EXC_ARGS = [None, "plain text", "a & <b>", {"status_message_text": "m"},
            {"status_message_text": "m", "status_code_status_code_value": "urn:oasis:names:tc:SAML:2.0:status:RequestDenied"},
            {"status_code_status_code_value": "urn:oasis:names:tc:SAML:2.0:status:NoPassive"}, ["a", "b"]]


def error_grid(rng, n_random):
    """create_error_response over the whole exception hierarchy: every class as it is with no argument and with a text,
    and random (class, subclass depth 1..3, argument shape) combinations."""
    base = {"op": "doc", "builder": "error_response", "cfg": {"role": "idp", "svc": {}, "top": {}}}
    names = exception_classes()

    def case(name, depth, arg, role="idp"):
        c = copy.deepcopy(base)
        c["cfg"]["role"] = role
        c["args"] = {"in_response_to": "id-e1", "destination": S.SP_ACS_POST, "info": ["exc2", name, depth, arg], "sign": False}
        return c

    for name in names:
        yield case(name, 0, None)
        yield case(name, 0, "plain text")
        yield case(name, rng.randint(1, 3), rng.choice(EXC_ARGS[1:3]))
    for _ in range(n_random):
        yield case(rng.choice(names), rng.randint(0, 3), rng.choice(EXC_ARGS), rng.choice(["idp", "sp"]))


def mk_exc(kind, arg):
    import saml2
    import saml2.response
    import saml2.s_utils
    import saml2.mdstore

    table = {"UnknownPrincipal": saml2.s_utils.UnknownPrincipal, "UnsupportedBinding": saml2.s_utils.UnsupportedBinding,
             "VersionMismatch": saml2.s_utils.VersionMismatch, "Exception": Exception, "MissingValue": saml2.s_utils.MissingValue,
             "SAMLError": saml2.SAMLError, "ValueError": ValueError, "UnknownSystemEntity": saml2.s_utils.UnknownSystemEntity}
    cls = table[kind]
    return cls() if arg is None else cls(arg)


def call_error_response(ent, a):
    info = a["info"]
    if info[0] == "exc2":
        inf = mk_exc2(info[1], info[2], info[3])
        if inf is None:
            return None
        if inf.args and not isinstance(inf.args[0], (str, dict)):
            # error_status_factory calls .get on a first argument that is neither text nor a mapping: AttributeError,
            # nothing is emitted (not a schema question)
            try:
                return ent.create_error_response(a["in_response_to"], a["destination"], inf, **sign_kw(a))
            except AttributeError as e:
                if "'get'" in str(e):
                    return None
                raise
    else:
        inf = (info[1], info[2]) if info[0] == "tuple" else mk_exc(info[1], info[2])
    kw = sign_kw(a)
    if a.get("issuer"):
        kw["issuer"] = a["issuer"]
    return ent.create_error_response(a["in_response_to"], a["destination"], inf, **kw)


def ga_attribute_query(rng, cfg):
    a = {"destination": "https://idp.verif.example/aa"}
    a.update(g_sign(rng))
    c = rng.randrange(3)
    if c == 0:
        a["name_id"] = g_nameid(rng)
    elif c == 1:
        a["name_id_str"] = rng.choice(["subject-1", g_text(rng)])
    else:
        a["subject_id"] = "subject-1"
    if c > 0 and rng.random() < 0.5:
        a["format"] = rng.choice(NAMEID_FORMATS)
        if rng.random() < 0.5:
            a["sp_name_qualifier"] = g_uri(rng)
        if rng.random() < 0.5:
            a["name_qualifier"] = g_uri(rng)
    c = rng.randrange(4)
    if c == 1:
        # key: name | (name, name format) | (name, name format, friendly name); value: None | value | (value(s), xsd type)
        a["attribute"] = [[["urn:oid:2.5.4.42", "urn:oasis:names:tc:SAML:2.0:attrname-format:uri", "givenName"], None],
                          [["urn:oid:2.5.4.4", "urn:oasis:names:tc:SAML:2.0:attrname-format:uri"], rng.choice([None, "a", ["a", "b", "c"], [["a", "b"], "xs:string"]])],
                          ["urn:oid:0.9.2342.19200300.100.1.3", None],
                          ["plainname", rng.choice([None, [g_text(rng)], [g_text(rng), "xs:string"], [5, "xs:integer"]])]][: rng.randint(1, 4)]
    if rng.random() < 0.2:
        a["message_id"] = g_ncname(rng)
    if rng.random() < 0.1:
        a["sign_prepare"] = True
    return a


def call_attribute_query(sp, a):
    kw = sign_kw(a)
    for k in ("format", "sp_name_qualifier", "name_qualifier", "message_id", "sign_prepare", "subject_id"):
        if k in a:
            kw[k] = a[k]
    name_id = mk_nameid(a["name_id"]) if "name_id" in a else a.get("name_id_str")
    if "extensions" in a:
        kw["extensions"] = mk_extensions(a["extensions"])
    attribute = None
    if a.get("attribute"):
        attribute = {}
        for k, v in a["attribute"]:
            attribute[tuple(k) if isinstance(k, list) else k] = tuple(v) if isinstance(v, list) and len(v) == 2 else v
    return _refusal(lambda: sp.create_attribute_query(a["destination"], name_id=name_id, attribute=attribute, **kw)[1],
                    AttributeError, "Missing required parameter")


def ga_authn_query(rng, cfg):
    a = {"subject": g_nameid(rng), "destination": rng.choice([None, "https://idp.verif.example/aq"])}
    a.update(g_sign(rng))
    if rng.random() < 0.5:
        a["authn_context"] = {"authn_context_class_ref": rng.sample(ACCR, rng.randint(1, 2)), "comparison": rng.choice([None, "exact", "minimum"])}
    if rng.random() < 0.5:
        a["session_index"] = g_ncname(rng)
    if rng.random() < 0.2:
        a["message_id"] = g_ncname(rng)
    return a


def call_authn_query(sp, a):
    kw = sign_kw(a)
    for k in ("session_index", "message_id"):
        if k in a:
            kw[k] = a[k]
    if "extensions" in a:
        kw["extensions"] = mk_extensions(a["extensions"])
    return sp.create_authn_query(mk_subject(a["subject"]), destination=a.get("destination"), authn_context=mk_rac(a.get("authn_context")), **kw)[1]


def ga_authz_decision_query(rng, cfg):
    a = {"destination": "https://idp.verif.example/pdp", "action": [[g_text(rng), rng.choice(["urn:oasis:names:tc:SAML:1.0:action:rwedc", "urn:oasis:names:tc:SAML:1.0:action:ghpp"])] for _ in range(rng.randint(1, 3))],
         "resource": g_uri(rng), "subject": g_nameid(rng), "via_assertion": rng.random() < 0.4}
    a.update(g_sign(rng))
    if rng.random() < 0.2:
        a["message_id"] = g_ncname(rng)
    return a


def _an_assertion(sign=False):
    from saml2 import saml

    idp = peer("idp")
    r = idp.create_authn_response({"givenName": ["A"]}, "id-req-1", S.SP_ACS_POST, S.SP_ID, name_id=saml.NameID(text="subject-1", format=NAMEID_FORMATS[0]),
                                  authn={"class_ref": ACCR[0], "authn_auth": S.IDP_ID}, sign_response=False, sign_assertion=False)
    return r.assertion


def _received_assertion(prefix):
    """An assertion as RECEIVED from a peer: produced by the default IdP with typed attribute values, written by the
    harness's own writer with the XML Schema namespace bound to `prefix` ("xs", "xsd", any other, or "" = default
    namespace), checked to be schema-valid as received, then parsed by the library."""
    from saml2 import saml

    idp = peer("idp")
    ident = {"givenName": ["A", "B"], "uid": [5], "title": [True]}
    if prefix.endswith("+empty"):  # ... with an empty (typed, text-less) value among them
        prefix = prefix[:-6]
        ident["displayName"] = [""]
    with S.clock(S.NOW0):
        r = idp.create_authn_response(ident, "id-rcv-1", S.SP_ACS_POST, S.SP_ID,
                                      name_id=saml.NameID(text="subject-1", format=NAMEID_FORMATS[1]), authn={"class_ref": ACCR[0], "authn_auth": S.IDP_ID},
                                      sign_response=False, sign_assertion=False)
    xml = write_tree(xml_to_tree(str(r.assertion)), xsd_prefix=prefix)
    ok, err = xsd_check(xml)
    if not ok:
        raise RuntimeError("harness: the received assertion is not valid: " + err)
    return saml.assertion_from_string(xml)


def call_authz_decision_query(sp, a):
    from saml2 import saml

    kw = sign_kw(a)
    if "message_id" in a:
        kw["message_id"] = a["message_id"]
    if "extensions" in a:
        kw["extensions"] = mk_extensions(a["extensions"])
    if isinstance(a.get("evidence"), dict):
        kw["evidence"] = saml.Evidence(assertion=[_received_assertion(a["evidence"]["prefix"])])
    elif a.get("evidence"):
        kw["evidence"] = saml.Evidence(assertion_id_ref=[saml.AssertionIDRef(text="id-ev1")], assertion=_an_assertion())
    actions = [saml.Action(text=t, namespace=ns) for t, ns in a["action"]]
    if a["via_assertion"]:
        ass = _received_assertion(a["received"]) if "received" in a else _an_assertion()
        mode = a.get("action_mode", "list")
        act = [t for t, _ in a["action"]]
        akw = {} if mode == "omitted" else {"action": act[0] if mode == "str" else act}
        return sp.create_authz_decision_query_using_assertion(a["destination"], ass, resource=a["resource"], subject=mk_subject(a["subject"]), **akw, **kw)[1]
    return sp.create_authz_decision_query(a["destination"], actions, resource=a["resource"], subject=mk_subject(a["subject"]), **kw)[1]


def ga_artifact_resolve(rng, cfg):
    a = {"destination": "https://idp.verif.example/ars", "sessid": rng.choice([g_ncname(rng), 0]), "endpoint_index": rng.choice([0, 1, 10, 255])}
    a.update(g_sign(rng))
    if rng.random() < 0.15:
        a["consent"] = True
    return a


def call_artifact_resolve(ent, a):
    from saml2.entity import create_artifact

    art = create_artifact(S.IDP_ID, b"\x01" * 20, a["endpoint_index"])
    kw = sign_kw(a)
    if "consent" in a:
        kw["consent"] = a["consent"]
    if "extensions" in a:
        kw["extensions"] = mk_extensions(a["extensions"])
    return ent.create_artifact_resolve(art, a["destination"], a["sessid"], **kw)[1]


def ga_artifact_response(rng, cfg):
    a = {"request_id": g_ncname(rng), "bindings": rng.choice([None, [S.BINDING_SOAP]]), "status": g_status(rng),
         "message": rng.choice(["authn_request", "response", "logout_request"])}
    a.update(g_sign(rng))
    if rng.random() < 0.3:
        a["issuer"] = rng.choice([S.IDP_ID, g_uri(rng)])
    return a


def call_artifact_response(ent, a):
    from saml2 import saml, samlp

    other = S.IDP_ID if ent.entity_type == "sp" else S.SP_ID
    if a["message"] == "authn_request":
        msg = peer("sp").create_authn_request(S.IDP_SSO_POST, sign=False)[1]
    elif a["message"] == "logout_request":
        msg = peer("sp").create_logout_request(S.IDP_SLO_POST, S.IDP_ID, name_id=saml.NameID(text="subject-1"), sign=False)[1]
    elif a["message"].startswith("received:"):
        msg = samlp.Response(id="id-rcv-r1", version="2.0", issue_instant=S.fmt_time(S.NOW0), issuer=saml.Issuer(text=S.IDP_ID),
                             status=samlp.Status(status_code=samlp.StatusCode(value="urn:oasis:names:tc:SAML:2.0:status:Success")),
                             assertion=[_received_assertion(a["message"].split(":", 1)[1])])
    else:
        msg = peer("idp").create_error_response("id-1", S.SP_ACS_POST, ("urn:oasis:names:tc:SAML:2.0:status:AuthnFailed", "no"), sign=False)
    art = ent.use_artifact(msg)
    req = samlp.ArtifactResolve(id=a["request_id"], version="2.0", issue_instant=S.fmt_time(S.NOW0), issuer=saml.Issuer(text=other),
                                artifact=samlp.Artifact(text=art))
    kw = sign_kw(a)
    if a.get("issuer"):
        kw["issuer"] = saml.Issuer(text=a["issuer"])
    try:
        return ent.create_artifact_response(req, art, bindings=a["bindings"], status=mk_status(a.get("status")), **kw)
    except AttributeError as e:
        # with signing in effect _status_response returns text and create_artifact_response then fails on
        # `response.extension_elements = ...`: a crash, nothing is emitted (not a schema question)
        if "extension_elements" in str(e):
            return None
        raise


def ga_authn_response(rng, cfg):
    a = {"identity": g_identity(rng), "in_response_to": g_ncname(rng), "destination": rng.choice([S.SP_ACS_POST, S.SP_ACS_REDIRECT]), "sp_entity_id": S.SP_ID}
    c = rng.randrange(4)
    if c == 0:
        a["userid"] = rng.choice(["user-1", g_text(rng)])
        if rng.random() < 0.6:
            a["name_id_policy"] = {"format": rng.choice(NAMEID_FORMATS[:3]), "allow_create": rng.choice(["true", None]), "sp_name_qualifier": rng.choice([None, S.SP_ID])}
    else:
        a["name_id"] = g_nameid(rng)
    c = rng.randrange(5)
    if c == 0:
        a["authn"] = None
    elif c == 1:
        a["authn"] = {"class_ref": rng.choice(ACCR)}
    elif c == 2:
        a["authn"] = {"class_ref": rng.choice(ACCR), "authn_auth": rng.choice([S.IDP_ID, g_uri(rng)])}
    elif c == 3:
        a["authn"] = {"decl": "<x/>", "authn_auth": S.IDP_ID} if False else {"class_ref": rng.choice(ACCR), "authn_auth": S.IDP_ID, "authn_instant": S.NOW0 - 30}
    else:
        a["authn"] = {"class_ref": rng.choice(ACCR), "authn_auth": S.IDP_ID}
    if a["authn"] and rng.random() < 0.2:
        a["authn"]["subject_locality"] = rng.choice(["192.0.2.7", {"address": "198.51.100.23"}, "2001:db8::7"])  # DNSName: see K_DNS
    for k in ("sign_response", "sign_assertion", "encrypt_assertion", "encrypted_advice_attributes", "pefim"):
        if rng.random() < 0.3:
            a[k] = rng.choice([True, False])
    if rng.random() < 0.2:
        a["encrypt_assertion_self_contained"] = rng.choice([True, False])
    if rng.random() < 0.15:
        a["encrypt_cert_assertion"] = "sp_enc1"
    if rng.random() < 0.1:
        a["encrypt_cert_advice"] = "sp_enc1"
    if rng.random() < 0.25:
        a["sign_alg"] = rng.choice(SIG_ALGS)
    if rng.random() < 0.25:
        a["digest_alg"] = rng.choice(DIG_ALGS)
    if rng.random() < 0.25:
        a["session_not_on_or_after"] = g_instant(rng)
    if rng.random() < 0.15:
        a["issuer"] = g_uri(rng)
    if rng.random() < 0.15:
        a["best_effort"] = rng.choice([True, False])
    if rng.random() < 0.15:
        a["status"] = g_status(rng)
    return a


def call_authn_response(idp, a):
    from saml2 import samlp

    kw = {k: a[k] for k in ("userid", "authn", "sign_response", "sign_assertion", "encrypt_assertion", "encrypted_advice_attributes", "pefim",
                            "encrypt_assertion_self_contained", "sign_alg", "digest_alg", "session_not_on_or_after", "issuer", "best_effort") if k in a}
    if "name_id" in a:
        kw["name_id"] = mk_nameid(a["name_id"])
    if a.get("name_id_policy"):
        kw["name_id_policy"] = samlp.NameIDPolicy(**{k: v for k, v in a["name_id_policy"].items() if v is not None})
    for k in ("encrypt_cert_assertion", "encrypt_cert_advice"):
        if k in a:
            kw[k] = S.cert_b64(a[k])
    if a.get("status"):
        kw["status"] = mk_status(a.get("status"))
    if a.get("farg") is not None:
        kw["farg"] = copy.deepcopy(a["farg"])  # update_farg completes the caller's tree in place
    return _nil_crash(lambda: idp.create_authn_response(a["identity"], a["in_response_to"], a["destination"], a["sp_entity_id"], **kw))


def _nil_crash(f):
    """An empty attribute value (xsi:nil) makes the encrypt path crash when the text is parsed back
    (AttributeValueBase.verify: KeyError on the xsi:nil key): nothing is emitted, not a schema question."""
    try:
        return f()
    except KeyError as e:
        if e.args and e.args[0] == "{%s}nil" % XSI:
            return None
        raise


def ga_attribute_response(rng, cfg):
    a = {"identity": g_identity(rng) or {"mail": ["a@example.org"]}, "in_response_to": g_ncname(rng), "destination": S.SP_ACS_POST, "sp_entity_id": S.SP_ID}
    if rng.random() < 0.7:
        a["name_id"] = g_nameid(rng)
    else:
        a["userid"] = "user-1"
    for k in ("sign_response", "sign_assertion"):
        if rng.random() < 0.3:
            a[k] = rng.choice([True, False])
    if rng.random() < 0.2:
        a["sign_alg"] = rng.choice(SIG_ALGS)
    if rng.random() < 0.15:
        a["status"] = g_status(rng)
    if rng.random() < 0.15:
        a["issuer"] = g_uri(rng)
    return a


def call_attribute_response(idp, a):
    kw = {k: a[k] for k in ("userid", "sign_response", "sign_assertion", "sign_alg", "issuer") if k in a}
    if "name_id" in a:
        kw["name_id"] = mk_nameid(a["name_id"])
    if a.get("status"):
        kw["status"] = mk_status(a.get("status"))
    if a.get("farg") is not None:
        kw["farg"] = copy.deepcopy(a["farg"])
    if "attributes" in a:
        from saml2 import saml

        kw["attributes"] = [saml.Attribute(name=d.get("name"), name_format=d.get("name_format"), friendly_name=d.get("friendly_name"),
                                           attribute_value=[saml.AttributeValue(text=v) for v in d.get("values", [])]) for d in a["attributes"]]
    return _nil_crash(lambda: idp.create_attribute_response(a["identity"], a["in_response_to"], a["destination"], a["sp_entity_id"], **kw))


def ga_authn_query_response(rng, cfg):
    a = {"subject": g_nameid(rng, allow_fields=False), "in_response_to": g_ncname(rng), "known": rng.random() < 0.7, "n": rng.randint(1, 2)}
    if rng.random() < 0.4:
        a["sign_response"] = rng.choice([True, False])
    if rng.random() < 0.2:
        a["status"] = g_status(rng)
    return a


def call_authn_query_response(idp, a):
    from saml2 import saml

    nid = mk_nameid(a["subject"])
    if a["known"]:
        for _ in range(a["n"]):
            idp.create_authn_response({"givenName": ["A"]}, "id-req-1", S.SP_ACS_POST, S.SP_ID, name_id=nid,
                                      authn={"class_ref": ACCR[0], "authn_auth": S.IDP_ID}, sign_response=False, sign_assertion=False,
                                      encrypt_assertion=False)
    kw = {k: a[k] for k in ("sign_response",) if k in a}
    if a.get("status"):
        kw["status"] = mk_status(a.get("status"))
    return idp.create_authn_query_response(saml.Subject(name_id=nid), in_response_to=a["in_response_to"], **kw)


def ga_assertion_id_response(rng, cfg):
    return {"sign_assertion": rng.choice([True, False]), "identity": g_identity(rng), "sign": rng.choice([None, True, False])}


def call_assertion_id_response(idp, a):
    from saml2 import saml

    r = idp.create_authn_response(a["identity"], "id-req-1", S.SP_ACS_POST, S.SP_ID, name_id=saml.NameID(text="subject-1", format=NAMEID_FORMATS[0]),
                                  authn={"class_ref": ACCR[0], "authn_auth": S.IDP_ID}, sign_response=False, sign_assertion=a["sign_assertion"],
                                  encrypt_assertion=False)
    if isinstance(r, str):
        from saml2 import samlp

        r = samlp.response_from_string(r)
    aid = r.assertion[0].id if isinstance(r.assertion, list) else r.assertion.id
    return idp.create_assertion_id_request_response(aid, sign=a["sign"])


def ga_manage_name_id_request(rng, cfg):
    a = {"destination": "https://idp.verif.example/mni", "name_id": g_nameid(rng)}
    c = rng.randrange(3)
    if c == 0:
        a["new_id"] = rng.choice(["new-id-1", g_text(rng)])
    elif c == 1:
        a["terminate"] = True
    else:
        a["new_id"] = "n"
        a["terminate"] = True
    a.update(g_sign(rng))
    if rng.random() < 0.2:
        a["message_id"] = g_ncname(rng)
    return a


def call_manage_name_id_request(ent, a):
    from saml2 import samlp

    kw = sign_kw(a)
    if "message_id" in a:
        kw["message_id"] = a["message_id"]
    if "extensions" in a:
        kw["extensions"] = mk_extensions(a["extensions"])
    from saml2 import saml

    if "new_id" in a:
        kw["new_id"] = samlp.NewID(text=a["new_id"])
    if a.get("terminate"):
        kw["terminate"] = samlp.Terminate()
    if a.get("encrypted_id"):
        kw["encrypted_id"] = mk_encrypted(saml.EncryptedID, a["encrypted_id"])
    if a.get("new_encrypted_id"):
        kw["new_encrypted_id"] = mk_encrypted(samlp.NewEncryptedID, a["new_encrypted_id"])
    return _refusal(lambda: ent.create_manage_name_id_request(a["destination"], name_id=mk_nameid(a.get("name_id")), **kw)[1],
                    AttributeError, "has to be")


def ga_manage_name_id_response(rng, cfg):
    a = {"request_id": g_ncname(rng), "bindings": [S.BINDING_SOAP], "status": g_status(rng)}
    a.update(g_sign(rng))
    return a


def call_manage_name_id_response(ent, a):
    from saml2 import saml, samlp

    other = S.IDP_ID if ent.entity_type == "sp" else S.SP_ID
    req = samlp.ManageNameIDRequest(id=a["request_id"], version="2.0", issue_instant=S.fmt_time(S.NOW0), issuer=saml.Issuer(text=other),
                                    name_id=saml.NameID(text="subject-1"), terminate=samlp.Terminate())
    return ent.create_manage_name_id_response(req, bindings=a["bindings"], status=mk_status(a.get("status")), **sign_kw(a))


def ga_name_id_mapping_request(rng, cfg):
    a = {"name_id_policy": {"format": rng.choice(NAMEID_FORMATS[:3]), "sp_name_qualifier": rng.choice([None, S.SP_ID]), "allow_create": rng.choice([None, "true"])},
         "name_id": g_nameid(rng), "destination": rng.choice([None, "https://idp.verif.example/nim"])}
    a.update(g_sign(rng))
    return a


def mk_encrypted(cls, d):
    """An EncryptedID / NewEncryptedID element around a (dummy) EncryptedData."""
    from saml2 import xmlenc

    if d is None:
        return None
    return cls(encrypted_data=xmlenc.EncryptedData(cipher_data=xmlenc.CipherData(cipher_value=xmlenc.CipherValue(text=d["cipher"]))))


def _refusal(f, exc, fragment):
    """`f()`, or None when the builder refuses the argument combination with its documented exception."""
    try:
        return f()
    except exc as e:
        if fragment in str(e):
            return None
        raise


def call_name_id_mapping_request(sp, a):
    from saml2 import saml, samlp

    pol = samlp.NameIDPolicy(**{k: v for k, v in a["name_id_policy"].items() if v is not None})
    base_id = saml.BaseID(**a["base_id"]) if a.get("base_id") else None
    ekw = {"extensions": mk_extensions(a["extensions"])} if "extensions" in a else {}
    return _refusal(lambda: sp.create_name_id_mapping_request(pol, name_id=mk_nameid(a.get("name_id")), base_id=base_id, **ekw,
                                                              encrypted_id=mk_encrypted(saml.EncryptedID, a.get("encrypted_id")),
                                                              destination=a.get("destination"), **sign_kw(a))[1],
                    ValueError, "At least one of")


def ga_name_id_mapping_response(rng, cfg):
    return {"name_id": g_nameid(rng), "in_response_to": g_ncname(rng), "sign_response": rng.choice([None, True, False])}


def call_name_id_mapping_response(idp, a):
    return idp.create_name_id_mapping_response(name_id=mk_nameid(a["name_id"]), in_response_to=a["in_response_to"], sign_response=a["sign_response"])


def ga_ecp_authn_request(rng, cfg):
    return {"entityid": S.IDP_ID, "relay_state": rng.choice(["", "rs-1", g_text(rng)]), "sign": rng.choice([None, True, False])}


def call_ecp_authn_request(sp, a):
    return sp.create_ecp_authn_request(entityid=a["entityid"], relay_state=a["relay_state"], sign=a["sign"])[1]


def ga_ecp_authn_response(rng, cfg):
    return {"identity": g_identity(rng), "in_response_to": g_ncname(rng), "name_id": g_nameid(rng), "sign_response": rng.choice([None, True, False]),
            "sign_assertion": rng.choice([None, True, False])}


def call_ecp_authn_response(idp, a):
    try:
        return idp.create_ecp_authn_request_response(S.SP_ACS_POST, a["identity"], a["in_response_to"], S.SP_ACS_POST, S.SP_ID, name_id=mk_nameid(a["name_id"]),
                                                     authn={"class_ref": ACCR[0], "authn_auth": S.IDP_ID}, sign_response=a["sign_response"], sign_assertion=a["sign_assertion"])
    except AttributeError as e:
        if "c_tag" in str(e):  # a signed (text) response cannot be wrapped: crash, nothing emitted
            return None
        raise


def ga_assertion_id_request(rng, cfg):
    return {"refs": rng.choice(["id-a1", ["id-a1", "id-a2"]])}


def call_assertion_id_request(sp, a):
    sp.create_assertion_id_request(a["refs"])
    return None  # URI binding: an identifier, no XML document is emitted


# ---- metadata


def ga_entity_descriptor(rng, cfg):
    a = {"sign": rng.random() < 0.35 and not cfg["top"].get("no_xmlsec")}
    if a["sign"] and rng.random() < 0.5:
        a["ident"] = g_ncname(rng)
    if rng.random() < 0.2:
        a["sign_alg"] = rng.choice(SIG_ALGS)
        a["digest_alg"] = rng.choice(DIG_ALGS)
    return a


def _secc(conf):
    from saml2.config import Config
    from saml2.sigver import security_context

    c = Config()
    c.key_file = conf.key_file or S.key_path("idp_sign")
    c.cert_file = conf.cert_file or S.cert_path("idp_sign")
    c.xmlsec_binary = conf.xmlsec_binary or S.xmlsec_standin.BINARY
    c.crypto_backend = conf.crypto_backend
    c.delete_tmpfiles = True
    return security_context(c)


def call_entity_descriptor(conf, a):
    from saml2 import metadata
    from saml2.validate import valid_instance

    ed = metadata.entity_descriptor(conf)
    xmldoc = None
    if a["sign"]:
        ed, xmldoc = metadata.sign_entity_descriptor(ed, a.get("ident"), _secc(conf), a.get("sign_alg") or conf.signing_algorithm, a.get("digest_alg") or conf.digest_algorithm)
    return ("md", ed, metadata.metadata_tostring_fix(ed, {"xs": XS}, xmldoc))


def ga_entities_descriptor(rng, cfg):
    a = {"n": rng.randint(1, 3), "valid_for": rng.choice([0, 0, 24, 8760]), "name": rng.choice([None, "urn:mace:example.org:fed", g_text(rng)]),
         "ident": rng.choice([None, g_ncname(rng)]), "sign": rng.random() < 0.35 and not cfg["top"].get("no_xmlsec")}
    if rng.random() < 0.2:
        a["sign_alg"] = rng.choice(SIG_ALGS)
        a["digest_alg"] = rng.choice(DIG_ALGS)
    return a


def call_entities_descriptor(conf, a):
    from saml2 import metadata

    eds = []
    for i in range(a["n"]):
        ed = metadata.entity_descriptor(conf)
        if i:
            ed.entity_id = "%s/%d" % (ed.entity_id, i)
        eds.append(ed)
    ents, xmldoc = metadata.entities_descriptor(eds, a["valid_for"], a["name"], a["ident"], a["sign"], _secc(conf),
                                                a.get("sign_alg") or conf.signing_algorithm, a.get("digest_alg") or conf.digest_algorithm)
    return ("md", ents, metadata.metadata_tostring_fix(ents, {"xs": XS}, xmldoc))


# name: (instance role(s), named by the property statement, argument generator, call, weight)
BUILDERS = {
    "authn_request": (["sp"], True, ga_authn_request, call_authn_request, 6),
    "logout_request": (["sp", "idp"], True, ga_logout_request, call_logout_request, 3),
    "logout_response": (["sp", "idp"], True, ga_logout_response, call_logout_response, 3),
    "error_response": (["idp", "sp"], True, ga_error_response, call_error_response, 3),
    "attribute_query": (["sp"], True, ga_attribute_query, call_attribute_query, 3),
    "authn_query": (["sp"], True, ga_authn_query, call_authn_query, 2),
    "authz_decision_query": (["sp"], True, ga_authz_decision_query, call_authz_decision_query, 2),
    "artifact_resolve": (["sp", "idp"], True, ga_artifact_resolve, call_artifact_resolve, 2),
    "artifact_response": (["idp", "sp"], True, ga_artifact_response, call_artifact_response, 2),
    "authn_response": (["idp"], True, ga_authn_response, call_authn_response, 8),
    "attribute_response": (["idp"], True, ga_attribute_response, call_attribute_response, 3),
    "authn_query_response": (["idp"], True, ga_authn_query_response, call_authn_query_response, 2),
    "entity_descriptor": (["md"], True, ga_entity_descriptor, call_entity_descriptor, 8),
    "entities_descriptor": (["md"], True, ga_entities_descriptor, call_entities_descriptor, 3),
    # not named one by one in the statement's list, but public create_* builders all the same (quantifier): constrained too
    "assertion_id_response": (["idp"], True, ga_assertion_id_response, call_assertion_id_response, 1),
    "manage_name_id_request": (["sp", "idp"], True, ga_manage_name_id_request, call_manage_name_id_request, 1),
    "manage_name_id_response": (["sp", "idp"], True, ga_manage_name_id_response, call_manage_name_id_response, 1),
    "name_id_mapping_request": (["sp"], True, ga_name_id_mapping_request, call_name_id_mapping_request, 1),
    "name_id_mapping_response": (["idp"], None, ga_name_id_mapping_response, call_name_id_mapping_response, 1),  # see is_strict
    "ecp_authn_request": (["sp"], True, ga_ecp_authn_request, call_ecp_authn_request, 1),
    "ecp_authn_response": (["idp"], True, ga_ecp_authn_response, call_ecp_authn_response, 1),
    "assertion_id_request": (["sp"], True, ga_assertion_id_request, call_assertion_id_request, 1),
}

K_NIM_STATUS = "C13/name-id-mapping-response-without-status"
K_PEFIM_NOCERT = "C13/pefim-without-encryption-certificate-advice-in-clear"
K_EP_STRING = "C13/required-endpoint-as-string-without-default-binding-dropped"
K_SUBJLOC = "C13/subject-locality-written-as-element-text"
K_REEMIT = "C13/reemitted-attribute-value-loses-xsd-prefix-binding"
K_DNS = "C13/valid-domain-name-rejects-every-name"
_recorded = []


def _finding_recorded(key):
    if not _recorded:
        _recorded.append(set())
        path = os.path.join(os.path.dirname(os.path.dirname(os.path.dirname(os.path.abspath(__file__)))), "KNOWN_FINDINGS.jsonl")
        try:
            with open(path, encoding="utf-8") as f:
                for line in f:
                    line = line.strip()
                    if line.startswith("{"):
                        _recorded[0].add(json.loads(line).get("key"))
                    elif line.startswith("fixed:") and "[key=" in line:  # fixed: property=Cxx <commit> <what> [key=<key>]
                        _recorded[0].add(line.rsplit("[key=", 1)[1].split("]", 1)[0].strip())
        except OSError:
            pass
    return key in _recorded[0]


def is_strict(case):
    """Does the spec constrain the output of this call?
    * create_name_id_mapping_response never writes the required <Status> (unchanged code; reported, record proposed): its
      outputs are constrained as soon as KNOWN_FINDINGS.jsonl carries the record (known or fixed), until then they only
      serve the validator correspondence;
    * a BaseID that the builder passes on (base_id without name_id) is outside 'valid call arguments': saml:BaseID is of
      an abstract type and no concrete extension type exists in the shipped schemas, so no such call can validate."""
    b = case["builder"]
    strict = BUILDERS[b][1]
    if case.get("unconstrained"):
        return False
    if case.get("pending") and not _finding_recorded(case["pending"]):
        # a grid case that shows a defect of the unchanged code which is reported but not yet recorded in
        # KNOWN_FINDINGS.jsonl: constrained as soon as the record (known or fixed) exists
        return False
    if strict is None:
        return _finding_recorded(K_NIM_STATUS)
    if b == "name_id_mapping_request" and case["args"].get("base_id") and not case["args"].get("name_id"):
        return False
    return strict


# ============================================================================ implementation side


def xsd_check(xml):
    from saml2.xml.schema import XMLSchemaError, validate

    try:
        validate(xml)
        return True, ""
    except XMLSchemaError as e:
        ctx = e.args[0] if e.args else {}
        msg = str(ctx.get("error", "")) if isinstance(ctx, dict) else str(ctx)
        reason = ""
        for line in msg.split("\n"):
            if line.strip().startswith("Reason:"):
                reason = line.strip()
                break
        return False, (reason or msg.strip().split("\n")[0])[:300]


_from_string = {}


def parse_instance(xml, root):
    """Object-model instance of an emitted text (for valid_instance), or None when the root has no class."""
    import saml2
    from saml2 import md, saml, samlp

    if not _from_string:
        for mod in (samlp, saml, md):
            for cname in dir(mod):
                cls = getattr(mod, cname)
                if isinstance(cls, type) and getattr(cls, "c_tag", None) and getattr(cls, "__module__", "") == mod.__name__ and not cname.endswith("_"):
                    _from_string.setdefault((cls.c_namespace, cls.c_tag), cls)
    cls = _from_string.get((root[0], root[1]))
    if cls is None:
        return None
    return saml2.create_class_from_xml_string(cls, xml)


def vi_check(obj):
    from saml2.validate import MustValueError, NotValid, OutsideCardinality, ShouldValueError, valid_instance

    try:
        valid_instance(obj)
        return True, ""
    except (NotValid, OutsideCardinality, MustValueError, ShouldValueError) as e:
        return False, ("%s: %s" % (type(e).__name__, e))[:300]
    except KeyError as e:
        # AttributeValueBase.verify indexes extension_attributes[xsi:nil] on a value that has no text but a type:
        # the library's own instance validation does not pass on this object (it crashes)
        if e.args and e.args[0] == "{%s}nil" % XSI:
            return False, "KeyError: xsi:nil (AttributeValueBase.verify)"
        raise
    except ValueError as e:
        # SubjectLocality.verify -> validate.valid_domain_name raises a bare ValueError: instance validation does not pass
        if str(e) == "Not a proper domain name":
            return False, "ValueError: Not a proper domain name (valid_domain_name)"
        raise


def run_doc(case):
    import saml2
    from saml2.s_utils import UnsupportedBinding, UnknownSystemEntity

    if case.get("lenient"):
        # falsy-form grid: a configuration value None / "" / [] / {} / 0 may be refused in whatever way the code refuses it
        try:
            return run_call(instance(case["cfg"]), case["builder"], case["args"], is_strict(case), None)
        except (TypeError, ValueError, AttributeError, KeyError, IndexError) as e:
            return {"refused": "crash:" + type(e).__name__}
    return run_call(instance(case["cfg"]), case["builder"], case["args"], is_strict(case), case.get("mut"))


def run_call(inst, builder, args, strict, mut=None):
    """One builder call on a given instance: the emitted text judged by both oracles (or the refusal)."""
    import saml2
    from saml2.s_utils import UnsupportedBinding, UnknownSystemEntity

    call = BUILDERS[builder][3]
    case = {"mut": mut}
    try:
        with S.clock(S.NOW0):
            out = _nil_crash(lambda: call(inst, args))
    except (saml2.SAMLError, UnsupportedBinding, UnknownSystemEntity) as e:
        # the builder refused these arguments (no endpoint for the binding, unknown entity ...): nothing emitted
        return {"refused": type(e).__name__}
    except TypeError as e:
        if not str(e).startswith("cannot serialize"):
            raise
        # signing serialises inside the builder: a member that is not text (a Python bool) cannot be written
        return _unserialisable(None if case.get("mut") else strict, e)
    if out is None:
        return {"refused": "no-document"}
    obj = None
    if isinstance(out, tuple) and out[0] == "md":
        obj, xml = out[1], out[2]
    elif isinstance(out, (list, tuple)):
        xml = "\n".join(out)
    elif isinstance(out, (str, bytes)):
        xml = out
    else:
        obj = out
        try:
            xml = str(out)
        except TypeError as e:
            if not str(e).startswith("cannot serialize"):
                raise
            return _unserialisable(None if case.get("mut") else strict, e)
    if isinstance(xml, bytes):
        xml = xml.decode("utf-8")
    tree = xml_to_tree(xml)
    if mut:
        xml = write_tree(mutate(tree, mut))
        tree = xml_to_tree(xml)
        obj = None
    xsd_ok, xsd_err = xsd_check(xml)
    res = {"tree": tree, "xsd": xsd_ok, "xsd_err": xsd_err, "strict": bool(strict and not mut), "mutant": bool(mut),
           "root": tree[1], "vi": True, "vi_err": ""}
    if not mut:
        if obj is None:
            # the library's own parser can fail on an emitted empty AttributeValue (KeyError on xsi:nil, a
            # round-trip question, C12): instance validation is then not applicable to the text form
            obj = _nil_crash(lambda: parse_instance(xml, tree))
        if obj is not None:
            res["vi"], res["vi_err"] = vi_check(obj)
    return res


def _unserialisable(strict, e):
    """The builder returned (or tried to sign) a message object that has no string form."""
    if strict is None:  # base of a mutant: there is no document to damage
        return {"refused": "unserialisable"}
    return {"tree": None, "emit_error": "%s: %s" % (type(e).__name__, e), "xsd": False, "xsd_err": "", "vi": False, "vi_err": "",
            "strict": bool(strict), "mutant": False, "root": ""}


_rows = {}


def rows():
    if not _rows:
        t = TS.translate()
        for r in TC.class_rows(t):
            _rows[r["label"]] = r
        _rows["__t__"] = t
    return _rows


def run_order(case):
    import importlib

    r = rows()[case["cls"]]
    mod = importlib.import_module(r["module"])
    cls = getattr(mod, r["cls"])
    inst = cls()
    for m, n in zip(r["members"], case["counts"]):
        tag, klass = m["tag"], cls.c_children[m["tag"]][1]
        if isinstance(klass, list):
            cur = getattr(inst, m["member"]) or []
            setattr(inst, m["member"], list(cur) + [klass[0]() for _ in range(n)])
        elif n >= 1:
            setattr(inst, m["member"], klass())
    for ns, local in case.get("exts", []):
        # extension elements: ready-made instances of an extension class where there is one, else a bare ExtensionElement
        import saml2

        klass = _ext_classes().get((ns, local))
        if klass is not None:
            inst.add_extension_element(klass())
        else:
            inst.extension_elements.append(saml2.ExtensionElement(local, namespace=ns or None))
    et = inst._to_element_tree()
    t = _rows["__t__"]
    tags = []
    for ch in et:
        ns, local = TC.split_tag(ch.tag)
        tags.append([t.ns_id.get(ns, 1), t.name_id.get((ns, local), 0)])  # same interning as Gen/Schema.lean
    return {"tags": tags}


_extcls = {}


def _ext_classes():
    if not _extcls:
        from saml2 import md, saml
        from saml2.extension import idpdisc, mdattr, mdui, shibmd

        for c in (mdui.UIInfo, shibmd.Scope, idpdisc.DiscoveryResponse, mdattr.EntityAttributes, saml.Attribute, md.NameIDFormat):
            _extcls[(c.c_namespace, c.c_tag)] = c
    return _extcls


EXT_POOL = [["urn:x-verif:ext", "Hint"], ["urn:oasis:names:tc:SAML:metadata:ui", "UIInfo"], ["urn:mace:shibboleth:metadata:1.0", "Scope"],
            ["urn:oasis:names:tc:SAML:profiles:SSO:idp-discovery-protocol", "DiscoveryResponse"], ["urn:oasis:names:tc:SAML:metadata:attribute", "EntityAttributes"],
            [SAML, "Attribute"], [MD, "NameIDFormat"], [DS, "KeyInfo"], [SAMLP, "Status"], ["", "Unqualified"], ["urn:x-verif:ext", "Other"]]

_xs_types = {}


def run_lex(case):
    import saml2.xml.schema as sx

    name = case["type"]
    if name == "pysaml2:valid_domain_name":
        from saml2.validate import valid_domain_name

        try:
            valid_domain_name(case["value"])
            return {"ok": True}
        except ValueError:
            return {"ok": False}
    if name not in _xs_types:
        _xs_types[name] = sx._schema_validator_default.maps.types[name]
    return {"ok": bool(_xs_types[name].is_valid(case["value"]))}


# ---------------------------------------------------------------------------- histories on ONE entity


def _sp_peer(d):
    """abstract requester -> entity dictionary for scenario.metadata_xml"""
    k = d["k"]
    host = "sp.verif.example" if k == 1 else "sp%d.verif.example" % k
    eid = S.SP_ID if k == 1 else "https://%s/sp" % host
    keys = [("signing", "sp")] + ([("encryption", "sp_enc1")] if d.get("enc") else [])
    if d.get("enc") == "nouse":
        keys = [(None, "sp_enc1")]
    ss = {"keys": keys, "acs": [(S.BINDING_POST, "https://%s/acs/post" % host, 0)] + ([(S.BINDING_REDIRECT, "https://%s/acs/redirect" % host, 1)] if d.get("acs2") else []),
          "slo": [(S.BINDING_POST, "https://%s/slo/post" % host), (S.BINDING_SOAP, "https://%s/slo/soap" % host)] if d.get("slo", True) else []}
    if d.get("formats"):
        ss["nameid_formats"] = d["formats"]
    if d.get("req_attrs"):
        ss["attr_cs"] = [[{"name": "urn:oid:2.5.4.42", "name_format": "urn:oasis:names:tc:SAML:2.0:attrname-format:uri", "friendly_name": "givenName", "required": True}]]
    return eid, "https://%s/acs/post" % host, {"entity_id": eid, "spsso": ss}


def _idp_peer(d):
    k = d["k"]
    host = "idp.verif.example" if k == 1 else "idp%d.verif.example" % k
    eid = S.IDP_ID if k == 1 else "https://%s/idp" % host
    slo = []
    for b, name in ((S.BINDING_REDIRECT, "redirect"), (S.BINDING_POST, "post"), (S.BINDING_SOAP, "soap")):
        if name in d.get("slo", ["redirect", "post", "soap"]):
            slo.append((b, "https://%s/slo/%s" % (host, name)))
    ent = {"entity_id": eid, "idpsso": {"keys": [("signing", "idp_sign" if k == 1 else "member2")] + ([("encryption", "idp_enc")] if d.get("enc") else []),
                                        "sso": [(S.BINDING_REDIRECT, "https://%s/sso/redirect" % host), (S.BINDING_POST, "https://%s/sso/post" % host)], "slo": slo}}
    return eid, "https://%s/sso/post" % host, ent


def _hist_args(side, step, peers):
    """concrete arguments of one call of a history; `peers` = the CURRENT metadata state"""
    b = step["call"]
    cur = {p["k"]: p for p in peers}
    k = step.get("peer", 1)
    a = dict(step.get("args", {}))
    if side == "idp":
        eid, acs, _ = _sp_peer(cur.get(k, {"k": k}))
        if b in ("authn_response", "attribute_response"):
            a.update({"identity": {"mail": ["a@example.org"], "givenName": ["A"]}, "in_response_to": "id-h%d" % k, "destination": acs, "sp_entity_id": eid,
                      "name_id": {"text": "subject-%d" % k, "format": NAMEID_FORMATS[0]}})
            if b == "authn_response":
                a["authn"] = {"class_ref": ACCR[0]}
        elif b == "error_response":
            a.update({"in_response_to": "id-h%d" % k, "destination": acs, "info": ["tuple", STATUS2[0], "no"]})
        elif b == "logout_request":
            a.update({"destination": "https://%s/slo/post" % eid.split("/")[2], "issuer_entity_id": eid, "name_id": {"text": "subject-%d" % k}})
        a["__peer__"] = eid
    else:
        eid, sso, _ = _idp_peer(cur.get(k, {"k": k}))
        if b == "authn_request":
            a.update({"destination": sso, "binding": S.BINDING_POST})
        elif b == "logout_request":
            a.update({"destination": "https://%s/slo/post" % eid.split("/")[2], "issuer_entity_id": eid, "name_id": {"text": "subject-%d" % k}})
        elif b == "attribute_query":
            a.update({"destination": "https://%s/aa" % eid.split("/")[2], "name_id": {"text": "subject-%d" % k}})
        elif b == "artifact_resolve":
            a.update({"destination": "https://%s/ars" % eid.split("/")[2], "sessid": "id-hs%d" % k, "endpoint_index": 0})
        a["__peer__"] = eid
    if b in ("logout_response", "manage_name_id_response"):
        a.setdefault("request_id", "id-hq%d" % k)
        a.setdefault("bindings", [S.BINDING_POST])
        a.setdefault("status", None)
    return a


def call_logout_response_from(ent, a):
    """create_logout_response for a request issued by a given peer (the builder looks the answer's destination up in the
    CURRENT metadata of that peer)"""
    from saml2 import saml, samlp

    req = samlp.LogoutRequest(id=a["request_id"], version="2.0", issue_instant=S.fmt_time(S.NOW0), issuer=saml.Issuer(text=a["__peer__"]),
                              name_id=saml.NameID(text="subject-1"))
    return ent.create_logout_response(req, bindings=a["bindings"], status=mk_status(a.get("status")), **sign_kw(a))


def run_hist(case):
    """every step on ONE long-lived Server / Saml2Client: create_* calls for several peers interleaved with
    Entity.reload_metadata; every emitted document is judged as in a `doc` case."""
    side = case["side"]
    mk = _sp_peer if side == "idp" else _idp_peer
    peers = case["init"]
    ents = [mk(p)[2] for p in peers]
    top = dict(case.get("top", {}))
    inst = S.make_idp(S.idp_config(sp_entities=ents, **top)) if side == "idp" else S.make_sp(S.sp_config(idp_entities=ents, **top))
    docs = []
    for step in case["steps"]:
        if "reload" in step:
            peers = step["reload"]
            if not inst.reload_metadata({"inline": [S.metadata_xml([mk(p)[2] for p in peers])]}):
                raise RuntimeError("reload_metadata failed")
            continue
        a = _hist_args(side, step, peers)
        b = step["call"]
        peer = a["__peer__"]
        try:
            if b == "logout_response":
                BUILDERS.setdefault("__logout_response_from__", (["sp", "idp"], True, None, call_logout_response_from, 0))
                r = run_call(inst, "__logout_response_from__", a, True)
            else:
                a.pop("__peer__", None)
                r = run_call(inst, b, a, True)
        except KeyError as e:
            # a peer that is not (or no longer) in the metadata: the store's lookup raises KeyError(entity id), nothing emitted
            if not (e.args and e.args[0] == peer):
                raise
            r = {"refused": "unknown-peer"}
        docs.append(r)
    return {"docs": docs}


def run_impl(case):
    op = case["op"]
    if op == "hist":
        return run_hist(case)
    if op == "doc":
        return run_doc(case)
    if op == "order":
        return run_order(case)
    if op == "lex":
        return run_lex(case)
    raise ValueError(op)


def _docwide_prefix_laxity(impl, lean_valid):
    """xmlschema resolves the prefix of an xsi:type QName against a document-wide prefix map: a prefix that is bound on
    SOME element of the document is accepted also where it is not in scope.  The harness resolves QNames with proper
    scoping (unresolved ones are marked `{?prefix}`), the Lean validator rejects them.  Not a disagreement about XSD."""
    if lean_valid is not False or not impl.get("xsd") or not impl.get("tree"):
        return False
    return any(a[0] == XSI and a[1] == "type" and a[2].startswith("{?") for n, _ in all_nodes(impl["tree"]) for a in n[2])


def compare(case, impl, model):
    if model is None:
        return False
    op = case["op"]
    if op == "doc":
        if "refused" in impl:
            return model.get("valid") is None
        return model.get("valid") == impl["xsd"] or _docwide_prefix_laxity(impl, model.get("valid"))
    if op == "lex":
        return model.get("ok") == impl["ok"]
    if op == "hist":
        return model.get("valid") == [(None if "refused" in d else d["xsd"]) for d in impl["docs"]]
    return model.get("tags") == impl["tags"]


def nontrivial(case, impl, lean):
    if case["op"] == "hist":
        return any("refused" not in d for d in impl["docs"])
    return "refused" not in impl


# ---------------------------------------------------------------------------- known-finding classifier
# A key is returned only when the failing output shows exactly that root cause: the builder / argument class matches
# AND repairing that one defect in the emitted tree makes the document valid for the second oracle.

EIDAS = "http://eidas.europa.eu/saml-extensions"
K_DUP_ID = "C13/authn-query-response-duplicate-assertion-id"
K_EIDAS_NF = "C13/eidas-requested-attribute-without-nameformat"
K_ACTION_NS = "C13/authz-query-using-assertion-action-without-namespace"
K_PEFIM = "C13/pefim-unencrypted-advice-assertion-without-issuer"
K_NIL_VI = "C13/valid-instance-crashes-on-empty-attribute-value"
K_BOOL = "C13/authn-request-allow-create-bool-unserialisable"
K_AA = "C13/aa-descriptor-attribute-options-emit-invalid-elements"


def _has_attr(n, local):
    return any(a[0] == "" and a[1] == local for a in n[2])


def _repair_dup_id(case, t):
    if case["builder"] != "authn_query_response":
        return None
    kids = [k for k in t[4] if k[0] == SAML and k[1] == "Assertion"]
    ids = [a[2] for k in kids for a in k[2] if a[0] == "" and a[1] == "ID"]
    if len(ids) < 2 or len(set(ids)) == len(ids):
        return None
    for i, k in enumerate(kids):
        for a in k[2]:
            if a[0] == "" and a[1] == "ID":
                a[2] = "%s-%d" % (a[2], i)
    return t


def _repair_eidas_nf(case, t):
    hit = [n for n, _ in all_nodes(t) if n[0] == EIDAS and n[1] == "RequestedAttribute" and not _has_attr(n, "NameFormat")]
    if not hit:
        return None
    for n in hit:
        n[2].append(["", "NameFormat", "urn:oasis:names:tc:SAML:2.0:attrname-format:uri"])
    return t


def _repair_action_ns(case, t):
    if case["builder"] != "authz_decision_query" or not case["args"].get("via_assertion"):
        return None
    hit = [k for k in t[4] if k[0] == SAML and k[1] == "Action" and not _has_attr(k, "Namespace")]
    if not hit:
        return None
    for n in hit:
        n[2].append(["", "Namespace", "urn:oasis:names:tc:SAML:1.0:action:rwedc"])
    return t


def _repair_pefim(case, t):
    if case["builder"] != "authn_response" or not case["args"].get("pefim"):
        return None
    hit = []
    for n, p in all_nodes(t):
        if n[0] == SAML and n[1] == "Assertion" and p is not None and p[1] == "Advice" and not any(k[1] == "Issuer" for k in n[4]):
            hit.append(n)
    if not hit:
        return None
    for n in hit:
        n[4].insert(0, [SAML, "Issuer", [], "https://idp.verif.example/idp", []])
    return t


def _repair_aa(case, t):
    if case["cfg"].get("role") != "md" or not any(k in case["cfg"]["service"].get("aa", {}) for k in ("attribute", "attribute_profile")):
        return None
    done = False
    for n, _ in all_nodes(t):
        if n[0] == MD and n[1] == "AttributeAuthorityDescriptor":
            for k in n[4]:
                if k[0] == SAML and k[1] == "Attribute" and not _has_attr(k, "Name"):
                    k[2].append(["", "Name", k[3]])
                    k[3] = ""
                    done = True
            attrs = [k for k in n[4] if k[0] == SAML and k[1] == "Attribute"]
            profs = [k for k in n[4] if k[0] == MD and k[1] == "AttributeProfile"]
            rest = [k for k in n[4] if k not in attrs and k not in profs]
            if n[4] != rest + profs + attrs:
                n[4][:] = rest + profs + attrs
                done = True
    return t if done else None


def _repair_nim_status(case, t):
    if case["builder"] != "name_id_mapping_response" or any(k[0] == SAMLP and k[1] == "Status" for k in t[4]):
        return None
    pos = max([i + 1 for i, k in enumerate(t[4]) if k[1] in ("Issuer", "Signature", "Extensions")] or [0])
    t[4].insert(pos, [SAMLP, "Status", [], "", [[SAMLP, "StatusCode", [["", "Value", "urn:oasis:names:tc:SAML:2.0:status:Success"]], "", []]]])
    return t


def _repair_pefim_nocert(case, t):
    if not (case["cfg"].get("top", {}).get("sp_no_enc") and not case["args"].get("encrypt_cert_advice")):
        return None
    return _repair_pefim(case, t)


def _repair_ep_string(case, t):
    if case["builder"] not in ("entity_descriptor", "entities_descriptor") or case["cfg"].get("role") != "md":
        return None
    eps = case["cfg"]["service"].get("pdp", {}).get("endpoints", {}).get("authz_service", [])
    if not any(isinstance(e, str) for e in eps):
        return None
    done = False
    for n, _ in all_nodes(t):
        if n[0] == MD and n[1] == "PDPDescriptor" and not any(k[1] == "AuthzService" for k in n[4]):
            pos = next((i for i, k in enumerate(n[4]) if k[1] in ("AssertionIDRequestService", "NameIDFormat")), len(n[4]))
            n[4].insert(pos, [MD, "AuthzService", [["", "Binding", S.BINDING_SOAP], ["", "Location", "https://e.verif.example/pdp"]], "", []])
            done = True
    return t if done else None


def _repair_subjloc(case, t):
    if not (case["builder"] == "authn_response" and (case["args"].get("authn") or {}).get("subject_locality")):
        return None
    hit = [n for n, _ in all_nodes(t) if n[0] == SAML and n[1] == "SubjectLocality" and n[3]]
    for n in hit:
        n[2].append(["", "Address", n[3]])
        n[3] = ""
    return t if hit else None


def _repair_reemit(case, t):
    a = case["args"]
    pf = (a.get("evidence") or {}).get("prefix") if isinstance(a.get("evidence"), dict) else a.get("received")
    if pf is None and str(a.get("message", "")).startswith("received:"):
        pf = a["message"].split(":", 1)[1]
    if pf is None:
        return None
    # the class: a RE-EMITTED saml:AttributeValue keeps the xsi:type QName of the received element but not the binding of
    # its prefix.  Two forms, one root cause (the binding is re-created by set_type only, for `xs`/`xsd`, on the text path):
    #   (i) the peer's prefix is neither xs nor xsd;  (ii) an empty typed value (re-emitted with xsi:nil, any prefix).
    # A non-empty value typed with xs: / xsd: that loses its binding is NOT this class (that would be a regression).
    hit = False
    for n, _ in all_nodes(t):
        if not (n[0] == SAML and n[1] == "AttributeValue"):
            continue
        for at in n[2]:
            if at[0] == XSI and at[1] == "type" and at[2].startswith("{?"):
                prefix = at[2][2:].split("}", 1)[0]
                if prefix not in ("xs", "xsd") or (not n[3] and not n[4]):
                    at[2] = "{%s}%s" % (XS, at[2].split("}", 1)[1])
                    hit = True
    return t if hit else None


REPAIRS = [(K_SUBJLOC, _repair_subjloc), (K_REEMIT, _repair_reemit), (K_PEFIM_NOCERT, _repair_pefim_nocert), (K_EP_STRING, _repair_ep_string), (K_NIM_STATUS, _repair_nim_status), (K_AA, _repair_aa), (K_DUP_ID, _repair_dup_id), (K_EIDAS_NF, _repair_eidas_nf), (K_ACTION_NS, _repair_action_ns), (K_PEFIM, _repair_pefim)]


def _empty_typed_value(t):
    for n, _ in all_nodes(t):
        if n[0] == SAML and n[1] == "AttributeValue" and not n[3] and not n[4] and \
                any(a[0] == XSI and a[1] == "type" for a in n[2]) and not any(a[0] == XSI and a[1] == "nil" for a in n[2]):
            return True
    return False


def finding_key(case, impl, lean):
    if case["op"] == "hist":
        return None  # no known class lives in the histories
    if case["op"] != "doc" or case.get("mut") or "refused" in impl:
        return None
    if impl.get("emit_error"):
        if case["builder"] == "authn_request" and case["args"].get("allow_create") is True and "cannot serialize True" in impl["emit_error"]:
            return K_BOOL
        return None
    tree = impl["tree"]
    if impl["xsd"] and (lean.get("model") or {}).get("valid"):
        if not impl["vi"] and impl["vi_err"].startswith("KeyError: xsi:nil") and _empty_typed_value(tree):
            return K_NIL_VI
        if not impl["vi"] and impl["vi_err"].startswith("ValueError: Not a proper domain name") and \
                any(n[1] == "SubjectLocality" and _has_attr(n, "DNSName") for n, _ in all_nodes(tree)):
            return K_DNS
        return None
    for key, repair in REPAIRS:
        t2 = repair(case, copy.deepcopy(tree))
        if t2 is not None and xsd_check(write_tree(t2))[0]:
            return key
    return None


def distribution(recs):
    d = {}
    for r in recs:
        c, i = r["case"], r["impl"]
        if c["op"] == "hist":
            for st, dd in zip([x for x in c["steps"] if "call" in x], i["docs"]):
                k = "hist:%s:%s:%s" % (c["side"], st["call"], "refused" if "refused" in dd else ("xsd-valid" if dd["xsd"] else "xsd-invalid"))
                d[k] = d.get(k, 0) + 1
            continue
        if c["op"] == "doc":
            k = "doc:%s:%s:%s" % (c["builder"], "mutant" if c.get("mut") else "output",
                                  "refused" if "refused" in i else ("xsd-valid" if i["xsd"] else "xsd-invalid"))
        else:
            k = c["op"]
        d[k] = d.get(k, 0) + 1
    return dict(sorted(d.items()))


# ============================================================================ case generation

LEX_TYPES = ["boolean", "dateTime", "ID", "NCName", "anyURI", "unsignedShort", "nonNegativeInteger", "integer", "string", "base64Binary",
             "duration", "language", "date", "int", "long", "short", "decimal", "float", "double", "positiveInteger", "hexBinary", "QName",
             "NMTOKEN", "Name", "token", "normalizedString", "unsignedInt", "unsignedByte", "byte", "time"]
LEX_SEEDS = {
    "boolean": ["true", "false", "1", "0", "True", "FALSE", " true ", "", "yes", "10", "tru e"],
    "dateTime": ["2026-09-21T14:13:20Z", "2026-09-21T14:13:20", "2026-09-21T14:13:20.5Z", "2026-09-21T14:13:20+02:00", "2026-09-21T14:13:20-14:00",
                 "2026-09-21T14:13:20+14:01", "2026-09-21T24:00:00Z", "2026-09-21T24:00:01Z", "2026-02-29T00:00:00Z", "2024-02-29T00:00:00Z",
                 "2026-13-01T00:00:00Z", "2026-00-10T00:00:00Z", "2026-09-31T00:00:00Z", "2026-9-21T14:13:20Z", "2026-09-21 14:13:20Z", "2026-09-21",
                 "0000-01-01T00:00:00Z", "-0001-01-01T00:00:00Z", "12026-01-01T00:00:00Z", "02026-01-01T00:00:00Z", "2026-09-21T14:13:60Z",
                 "2026-09-21T14:60:00Z", "2026-09-21T14:13:20.Z", "2026-09-21T14:13:20z", " 2026-09-21T14:13:20Z ", "2026-09-21T14:13:20.123456789Z",
                 "1900-02-29T00:00:00Z", "2000-02-29T00:00:00Z", "2026-09-21T14:13:20+2:00", "2026-09-21T24:00:00.000Z", "2026-09-21T24:00:00.001Z"],
    "ID": ["id-1", "_abc", "a.b-c_d", "9id", "-a", ".a", "a b", "a:b", "", "é", "a·", "id\n"],
    "duration": ["P1D", "PT1H", "P1Y2M3DT4H5M6S", "PT0.5S", "-P1D", "P", "PT", "P1S", "PT1D", "P1DT", "1D", "P1.5D", "PT1.S", "P1M2Y", " P1D "],
    "language": ["en", "sv-SE", "x-klingon", "abcdefghi", "e1", "en-", "-en", "", "en_US", "a-b-c-d12345678", "a-b123456789"],
    "base64Binary": ["QUJD", "QUI=", "QQ==", "QUJ", "QR==", "QUJ=", "Q U J D", "", "====", "QUJD\nQUJD", "QU-D", "QUJDQQ==", "=QUJ", "QQ=", "QUI=QUJD"],
    "date": ["2026-09-21", "2026-09-21Z", "2026-09-21+02:00", "2026-02-30", "2026-9-1", "2026-09-21T00:00:00"],
    "time": ["14:13:20", "14:13:20Z", "24:00:00", "24:00:01", "14:13", "14:13:20.5+01:00"],
    "float": ["1.5", "-1E4", "1e+16", "INF", "-INF", "+INF", "NaN", "inf", "nan", "1.", ".5", ".", "1e", "e5", "1.5e3.2", "0x10"],
    "decimal": ["1.5", "-1", "+.5", "1.", ".", "1e5", "1,5", ""],
    "hexBinary": ["0FB7", "0fb7", "0F B7", "0FB", "", "GG"],
    "QName": ["a:b", "a", ":a", "a:", "a:b:c", "1a:b", ""],
}
INT_SEEDS = ["0", "1", "-1", "+1", "-0", "00", "007", "255", "256", "127", "128", "-128", "-129", "32767", "32768", "-32768", "-32769", "65535", "65536",
             "2147483647", "2147483648", "-2147483648", "-2147483649", "4294967295", "4294967296", "9223372036854775807", "9223372036854775808",
             "-9223372036854775808", "-9223372036854775809", "18446744073709551615", "18446744073709551616", "1.0", "1e3", "", " 5 ", "5 5", "1_000", "0x1", "--1", "+-1", "+"]


def lex_cases(rng, n_random):
    for ty in LEX_TYPES:
        vals = list(LEX_SEEDS.get(ty, []))
        if ty in ("unsignedShort", "nonNegativeInteger", "integer", "int", "long", "short", "positiveInteger", "unsignedInt", "unsignedByte", "byte"):
            vals += INT_SEEDS
        if ty in ("NCName", "Name", "NMTOKEN"):
            vals += LEX_SEEDS["ID"]
        vals += BAD_VALUES
        pool = [v for vs in LEX_SEEDS.values() for v in vs] + INT_SEEDS
        for _ in range(n_random):
            v = rng.choice(pool)
            c = rng.randrange(5)
            if c == 0 and v:
                i = rng.randrange(len(v))
                v = v[:i] + v[i + 1:]
            elif c == 1:
                i = rng.randrange(len(v) + 1)
                v = v[:i] + rng.choice("0123456789-+:.TZPe =_aZ") + v[i:]
            elif c == 2 and v:
                i = rng.randrange(len(v))
                v = v[:i] + rng.choice("0123456789-+:.TZ") + v[i + 1:]
            vals.append(v)
        numeric = ty in ("unsignedShort", "nonNegativeInteger", "integer", "int", "long", "short", "positiveInteger", "unsignedInt",
                         "unsignedByte", "byte", "decimal", "float", "double")
        for v in vals:
            # two laxities of the second oracle are kept out of the comparison (the library never emits such values):
            # Python's int()/float() accept '_' between digits, and xmlschema removes inner blanks of an xs:decimal
            if numeric and ("_" in v or (ty == "decimal" and any(ch in v.strip() for ch in " \t\n"))):
                continue
            yield {"op": "lex", "type": "{%s}%s" % (XS, ty), "value": v}


DNS_SEEDS = ["example.org", "host.example.org", "localhost", "a", "a-b.example.org", "xn--bcher-kva.example", "EXAMPLE.Org", "example.org:8080",
             "example.org:123456", "example.org:", "example.org:80a", ":80", "-example.org", "example-.org", "example..org", ".example.org", "example.org.",
             "example.org/", "exa mple.org", " example.org", "example.org ", "example.org\n", "example.org\n\n", "\nexample.org", "", ".", "-", "a.b.c.d.e.f",
             "1.2.3.4", "192.0.2.7:443", "exam_ple.org", "b\u00fccher.example", "\u212a.example", "lon\u017f.example", "a--b.example", "a.-b.example",
             "example.org:0", "example.org:00000", "example.org:1:2", "2001:db8::1", "[2001:db8::1]", "example.org:\u0663", "\u0663.example"]


def dns_cases(rng, n_random):
    """saml2.validate.valid_domain_name (behind valid_instance for SubjectLocality/@DNSName) vs Lex.domainNameOk"""
    vals = list(DNS_SEEDS)
    for _ in range(n_random):
        v = rng.choice(DNS_SEEDS)
        c = rng.randrange(4)
        if c == 0 and v:
            i = rng.randrange(len(v))
            v = v[:i] + v[i + 1:]
        elif c == 1:
            i = rng.randrange(len(v) + 1)
            v = v[:i] + rng.choice("-.:aZ09 /_\n") + v[i:]
        elif c == 2 and v:
            i = rng.randrange(len(v))
            v = v[:i] + rng.choice("-.:aZ09") + v[i + 1:]
        vals.append(v)
    for v in vals:
        yield {"op": "lex", "type": "pysaml2:valid_domain_name", "value": v}


def order_cases(rng, n_random):
    for label, r in sorted((k, v) for k, v in rows().items() if k != "__t__"):
        ms = r["members"]
        if not ms:
            yield {"op": "order", "cls": label, "counts": []}
            yield {"op": "order", "cls": label, "counts": [], "exts": [copy.deepcopy(rng.choice(EXT_POOL)) for _ in range(rng.randint(1, 3))]}
            continue
        mins = [m["min"] for m in ms]
        maxs = [m["max"] if m["max"] is not None else 2 for m in ms]
        seen = set()
        cands = [mins, maxs, [1] * len(ms), [0] * len(ms)]
        for _ in range(n_random):
            cands.append([rng.choice([m["min"], m["min"], (m["max"] if m["max"] is not None else rng.randint(1, 3)), rng.randint(0, 2)]) for m in ms])
        for c in cands:
            c = [min(x, m["max"]) if (m["max"] is not None and not m["list"]) else x for x, m in zip(c, ms)]  # a singleton member holds at most one item
            if tuple(c) not in seen:
                seen.add(tuple(c))
                yield {"op": "order", "cls": label, "counts": c}
        # the same class with extension elements after its members (constrained where the content model ends in an
        # unbounded particle that admits them, C13_order_ext_partial; compared with the model everywhere)
        for _ in range(max(1, n_random // 4)):
            yield {"op": "order", "cls": label, "counts": list(mins), "exts": [copy.deepcopy(rng.choice(EXT_POOL)) for _ in range(rng.randint(1, 3))]}
    # the two containers of extension elements: empty, every single element of the pool, and random sequences
    for label in ("md.Extensions", "samlp.Extensions"):
        if label not in rows():
            continue
        for e in EXT_POOL:
            yield {"op": "order", "cls": label, "counts": [], "exts": [copy.deepcopy(e)]}
        for _ in range(n_random):
            yield {"op": "order", "cls": label, "counts": [], "exts": [copy.deepcopy(rng.choice(EXT_POOL)) for _ in range(rng.randint(2, 6))]}


def doc_cases(rng, tier):
    scale = 3 if tier == "quick" else 30
    plan = [("sp", g_sp_cfg, 8 * scale), ("idp", g_idp_cfg, 8 * scale), ("md", g_md_cfg, 24 * scale)]
    per_cfg = 14
    kinds = list(MUT_KINDS)
    ki = 0
    for role, gcfg, n in plan:
        for _ in range(n):
            cfg = gcfg(rng)
            if rng.random() < 0.15:
                cfg = {"role": "sp", "svc": {}, "top": {}} if role == "sp" else {"role": "idp", "svc": {}, "top": {}} if role == "idp" else cfg
            names = [b for b, v in BUILDERS.items() if role in v[0]]
            if role == "sp" and not any(e[1] == S.BINDING_PAOS for e in cfg["svc"].get("endpoints", {}).get("assertion_consumer_service", [])):
                names.remove("ecp_authn_request")  # needs a PAOS assertion consumer service
            weights = [BUILDERS[b][4] for b in names]
            todo = list(names) if role != "md" else []
            for j in range(per_cfg if role != "md" else 2):
                b = todo.pop() if todo else rng.choices(names, weights)[0]
                args = BUILDERS[b][2](rng, cfg)
                base = {"op": "doc", "builder": b, "cfg": cfg, "args": args}
                yield base
                for _ in range(2 if role != "md" else 3):
                    m = dict(base)
                    m["mut"] = {"kind": kinds[ki % len(kinds)], "seed": rng.randrange(10 ** 6)}
                    ki += 1
                    yield m


# ---------------------------------------------------------------------------- complete small grids

_ACS = [[S.SP_ACS_POST, S.BINDING_POST]]
MD_ATOMS = [
    # (name, group, function applied to a bare configuration)   atoms of one group exclude each other
    ("sp_type", "sptype", lambda c: c["service"]["sp"].update({"sp_type": "public"})),
    ("sp_type+in_md", "sptype", lambda c: c["service"]["sp"].update({"sp_type": "private", "sp_type_in_metadata": True})),
    ("sp_type+not_in_md", "sptype", lambda c: c["service"]["sp"].update({"sp_type": "public", "sp_type_in_metadata": False})),
    ("in_md_only", "sptype", lambda c: c["service"]["sp"].update({"sp_type_in_metadata": True})),
    ("entity_category", None, lambda c: c["top"].update({"entity_category": ["http://refeds.org/category/research-and-scholarship"]})),
    ("entity_category_support", None, lambda c: c["top"].update({"entity_category_support": ["http://refeds.org/category/research-and-scholarship"]})),
    ("entity_attributes", None, lambda c: c["top"].update({"entity_attributes": [{"format": "urn:oasis:names:tc:SAML:2.0:attrname-format:uri", "name": "urn:x:a", "values": ["v"]}]})),
    ("entity_attributes_novalues", None, lambda c: c["top"].update({"entity_attributes": [{"name": "urn:x:b", "values": []}]})),
    ("assurance_certification", None, lambda c: c["top"].update({"assurance_certification": ["https://refeds.org/sirtfi"]})),
    ("extensions", None, lambda c: c["top"].update({"extensions": {"mdrpi": {"RegistrationInfo": {"registration_authority": "urn:x:ra", "registration_instant": "2026-01-01T00:00:00Z"}}}})),
    ("xmlsec_binary", None, lambda c: c["top"].pop("no_xmlsec")),
    ("organization", None, lambda c: c["top"].update({"organization": {"name": "Example", "display_name": ["Ex"], "url": "http://example.com"}})),
    # an organization without display_name (or without name / url) is NOT in the grid: md:Organization requires all three
    # parts, the configuration mirrors them one to one, so an incomplete one is outside 'valid configuration'
    # (the library writes it out as it is: schema-invalid metadata; reported as an observation)
    ("contact_person", None, lambda c: c["top"].update({"contact_person": [{"given_name": "D", "contact_type": "technical"}]})),
    ("contact_person_doc_keys", None, lambda c: c["top"].update({"contact_person": [{"givenname": "D", "surname": "J", "mail": ["j@example.com"], "type": "technical"}]})),
    ("valid_for", None, lambda c: c["top"].update({"valid_for": 24})),
    ("keys", "keys", lambda c: c["top"].update({"with_keys": "sign"})),
    ("keys+enc", "keys", lambda c: c["top"].update({"with_keys": "sign+enc"})),
    ("name", None, lambda c: c["top"].update({"name": "svc name"})),
    ("description", None, lambda c: c["top"].update({"description": "a description"})),
    ("required_attributes", None, lambda c: c["service"]["sp"].update({"required_attributes": ["givenName"]})),
    ("optional_attributes", None, lambda c: c["service"]["sp"].update({"optional_attributes": ["mail"]})),
    ("ui_info", None, lambda c: c["service"]["sp"].update({"ui_info": {"display_name": "Example"}})),
    ("discovery_response", None, lambda c: c["service"]["sp"].update({"discovery_response": [["https://sp.verif.example/disco", S.BINDING_DISCO]]})),
    ("name_id_format", None, lambda c: c["service"]["sp"].update({"name_id_format": [NAMEID_FORMATS[0]]})),
    ("sp_signed_flags", None, lambda c: c["service"]["sp"].update({"authn_requests_signed": True, "want_assertions_signed": False})),
    ("role_idp", None, lambda c: c["service"].update({"idp": {"endpoints": {"single_sign_on_service": [[S.IDP_SSO_REDIRECT, S.BINDING_REDIRECT]]}}})),
    ("role_idp_scope", None, lambda c: c["service"].update({"idp": {"endpoints": {"single_sign_on_service": [[S.IDP_SSO_REDIRECT, S.BINDING_REDIRECT]]}, "scope": ["example.org"], "want_authn_requests_signed": True}})),
    ("role_aa", None, lambda c: c["service"].update({"aa": {"endpoints": {"attribute_service": [["https://idp.verif.example/aa", S.BINDING_SOAP]]}}})),
    ("role_aa_attr", None, lambda c: c["service"].update({"aa": {"endpoints": {"attribute_service": [["https://idp.verif.example/aa", S.BINDING_SOAP]]}, "attribute": ["urn:oid:2.5.4.42"], "attribute_profile": ["urn:oasis:names:tc:SAML:2.0:profiles:attribute:basic"]}})),
    ("role_aq", None, lambda c: c["service"].update({"aq": {"endpoints": {"authn_query_service": [["https://idp.verif.example/aq", S.BINDING_SOAP]]}}})),
    ("role_pdp", None, lambda c: c["service"].update({"pdp": {"endpoints": {"authz_service": [["https://idp.verif.example/pdp", S.BINDING_SOAP]]}}})),
    ("no_sp_role", None, lambda c: (c["service"].pop("sp"), c["service"].update({"idp": {"endpoints": {"single_sign_on_service": [[S.IDP_SSO_POST, S.BINDING_POST]]}}}))),
]


def md_grid():
    """Metadata generation on an otherwise bare configuration (one SP role with one endpoint, no keys, no xmlsec binary):
    the bare configuration, every optional entity-level / role-level option ALONE, and every PAIR of them - complete."""

    def build(atoms):
        c = {"role": "md", "service": {"sp": {"endpoints": {"assertion_consumer_service": copy.deepcopy(_ACS)}}},
             "top": {"with_keys": "none", "no_xmlsec": True}}
        for _, _, f in atoms:
            f(c)
        return c

    combos = [[]] + [[a] for a in MD_ATOMS]
    for i, a in enumerate(MD_ATOMS):
        for b in MD_ATOMS[i + 1:]:
            if a[1] is not None and a[1] == b[1]:
                continue
            combos.append([a, b])
    for atoms in combos:
        try:
            cfg = build(atoms)
        except KeyError:
            continue  # an option of the SP section after the SP role was removed
        yield {"op": "doc", "builder": "entity_descriptor", "cfg": cfg, "args": {"sign": False}, "grid": "+".join(a[0] for a in atoms) or "bare"}


def _enc_id():
    return {"cipher": "QUJD"}


def arg_grid():
    """Complete products of the optional identifier / selector arguments of the request builders, present or absent,
    on default instances."""
    sp0 = {"role": "sp", "svc": {}, "top": {}}
    idp0 = {"role": "idp", "svc": {}, "top": {}}
    nid = {"text": "subject-1", "format": NAMEID_FORMATS[1]}

    def doc(builder, cfg, args):
        args = {k: v for k, v in args.items() if v is not None}
        args.setdefault("sign", False)
        return {"op": "doc", "builder": builder, "cfg": cfg, "args": args}

    def bits(n):
        for m in range(2 ** n):
            yield [bool(m >> i & 1) for i in range(n)]

    # NameIDMappingRequest: name_id x base_id x encrypted_id
    for n, b, e in bits(3):
        yield doc("name_id_mapping_request", sp0, {"name_id_policy": {"format": NAMEID_FORMATS[1]}, "name_id": nid if n else None,
                                                   "base_id": {"name_qualifier": "urn:q"} if b else None, "encrypted_id": _enc_id() if e else None,
                                                   "destination": "https://idp.verif.example/nim"})
    # LogoutRequest: subject_id x name_id x session_indexes x reason x expire, both entity kinds
    for cfg in (sp0, idp0):
        for sj, n, si, rs, ex in bits(5):
            yield doc("logout_request", cfg, {"destination": S.IDP_SLO_POST, "issuer_entity_id": S.IDP_ID, "subject_id": "subject-1" if sj else None,
                                              "name_id": nid if n else None, "session_indexes": ["si-1", "si-2"] if si else None,
                                              "reason": "urn:oasis:names:tc:SAML:2.0:logout:user" if rs else None,
                                              "expire": S.fmt_time(S.NOW0 + 300) if ex else None})
    # AttributeQuery: subject form x qualifier keywords x attribute
    for form in ("name_id", "name_id_str", "subject_id", None):
        for fm, sq, nq, at in bits(4):
            a = {"destination": "https://idp.verif.example/aa", "format": NAMEID_FORMATS[2] if fm else None,
                 "sp_name_qualifier": S.SP_ID if sq else None, "name_qualifier": S.IDP_ID if nq else None,
                 "attribute": [["urn:oid:2.5.4.42", None], [["urn:oid:2.5.4.4", "urn:oasis:names:tc:SAML:2.0:attrname-format:uri", "sn"], "a"]] if at else None}
            if form == "name_id":
                a["name_id"] = nid
            elif form:
                a[form] = "subject-1"
            yield doc("attribute_query", sp0, a)
    # AuthnQuery: destination x authn_context x session_index
    for d, ac, si in bits(3):
        yield doc("authn_query", sp0, {"subject": nid, "destination": "https://idp.verif.example/aq" if d else None,
                                       "authn_context": {"authn_context_class_ref": [ACCR[0]], "comparison": "exact"} if ac else None,
                                       "session_index": "si-1" if si else None})
    # ManageNameIDRequest: name_id x encrypted_id x new_id x new_encrypted_id x terminate, both entity kinds
    for cfg in (sp0, idp0):
        for n, e, ni, ne, te in bits(5):
            yield doc("manage_name_id_request", cfg, {"destination": "https://idp.verif.example/mni", "name_id": nid if n else None,
                                                      "encrypted_id": _enc_id() if e else None, "new_id": "new-1" if ni else None,
                                                      "new_encrypted_id": _enc_id() if ne else None, "terminate": True if te else None})
    # AuthnRequest: the three ways to name the assertion consumer service x NameIDPolicy format x allow_create
    for u, i, us, nf, acr in bits(5):
        yield doc("authn_request", sp0, {"destination": S.IDP_SSO_POST, "binding": S.BINDING_POST,
                                         "assertion_consumer_service_url": S.SP_ACS_POST if u else None,
                                         "assertion_consumer_service_index": "1" if i else None,
                                         "assertion_consumer_service_urls": [S.SP_ACS_REDIRECT] if us else None,
                                         "nameid_format": NAMEID_FORMATS[1] if nf else None, "allow_create": True if acr else None})
    # Response: name_id x userid x name_id_policy (an identifier is needed: the combination without both is left out)
    for n, u, pol in bits(3):
        if not n and not u:
            continue
        yield doc("authn_response", idp0, {"identity": {"mail": ["a@example.org"]}, "in_response_to": "id-r1", "destination": S.SP_ACS_POST,
                                           "sp_entity_id": S.SP_ID, "name_id": nid if n else None, "userid": "user-1" if u else None,
                                           "name_id_policy": {"format": NAMEID_FORMATS[1], "sp_name_qualifier": S.SP_ID} if pol else None,
                                           "authn": {"class_ref": ACCR[0]}})
        yield doc("attribute_response", idp0, {"identity": {"mail": ["a@example.org"]}, "in_response_to": "id-r1", "destination": S.SP_ACS_POST,
                                               "sp_entity_id": S.SP_ID, "name_id": nid if n else None, "userid": "user-1" if u else None})
    # LogoutResponse / ManageNameIDResponse / ArtifactResponse: status x issuer
    for st, iss in bits(2):
        for cfg in (sp0, idp0):
            for b in ("logout_response", "manage_name_id_response", "artifact_response"):
                a = {"request_id": "id-q1", "bindings": [S.BINDING_SOAP], "status": {"code": "urn:oasis:names:tc:SAML:2.0:status:Responder", "sub": STATUS2[0], "message": "m"} if st else None}
                if iss and b != "manage_name_id_response":
                    a["issuer"] = S.IDP_ID
                if b == "artifact_response":
                    a["message"] = "authn_request"
                yield doc(b, cfg, a)


def enc_grid():
    """create_authn_response: the complete product of the encryption arguments
    encrypt_assertion x encrypted_advice_attributes x pefim x {encrypt_cert_assertion given} x {encrypt_cert_advice given}
    x {the requester's metadata has an encryption certificate} x (sign_response, sign_assertion)."""
    for m in range(2 ** 8):
        ea, eaa, pf, ca, cad, mdenc, sr, sa = [bool(m >> i & 1) for i in range(8)]
        a = {"identity": {"mail": ["a@example.org"], "givenName": ["A"]}, "in_response_to": "id-e1", "destination": S.SP_ACS_POST,
             "sp_entity_id": S.SP_ID, "name_id": {"text": "subject-1", "format": NAMEID_FORMATS[0]}, "authn": {"class_ref": ACCR[0]},
             "encrypt_assertion": ea, "encrypted_advice_attributes": eaa, "pefim": pf, "sign_response": sr, "sign_assertion": sa}
        if ca:
            a["encrypt_cert_assertion"] = "sp_enc1"
        if cad:
            a["encrypt_cert_advice"] = "sp_enc1"
        if m % 5 == 0:
            a["encrypt_assertion_self_contained"] = False
        c = {"op": "doc", "builder": "authn_response", "cfg": {"role": "idp", "svc": {}, "top": {} if mdenc else {"sp_no_enc": True}}, "args": a}
        if pf and not mdenc and not cad:
            c["pending"] = K_PEFIM_NOCERT  # PEFIM asked for, no certificate anywhere: the advice assertion goes out in clear
        yield c


SCM_SV = "urn:oasis:names:tc:SAML:2.0:cm:sender-vouches"
SCM_BEARER = "urn:oasis:names:tc:SAML:2.0:cm:bearer"


def farg_trees():
    """Caller-supplied assertion argument trees (`farg=`): what can be preset on the paths update_farg and
    do_subject_confirmation read, alone and together, with the empty shapes and None leaves a caller may leave around."""
    def t(sc):
        return {"assertion": {"subject": {"subject_confirmation": sc}}}

    scd_fields = {"address": "192.0.2.7", "recipient": S.SP_ACS_REDIRECT, "in_response_to": "id-other", "not_before": S.fmt_time(S.NOW0 - 5),
                  "not_on_or_after": S.fmt_time(S.NOW0 + 7)}
    out = [{}, {"assertion": {}}, {"assertion": {"subject": {}}}, t({}), t({"subject_confirmation_data": {}}), {"unrelated": {"k": "1"}},
           t({"method": None}), t({"subject_confirmation_data": {"recipient": None, "in_response_to": None}}),
           t({"method": SCM_BEARER}), t({"method": SCM_SV}), t({"method": "urn:x-verif:cm:unknown"})]
    for k, v in scd_fields.items():
        out.append(t({"subject_confirmation_data": {k: v}}))                       # one field of the data, no method
        out.append(t({"method": SCM_SV, "subject_confirmation_data": {k: v}}))   # ... with a method
    out.append(t({"subject_confirmation_data": dict(scd_fields)}))
    out.append(t({"method": SCM_BEARER, "subject_confirmation_data": dict(scd_fields)}))
    out.append(t({"method": None, "subject_confirmation_data": {"address": "192.0.2.7", "recipient": None}}))
    return out


def farg_grid():
    base = {"identity": {"mail": ["a@example.org"]}, "in_response_to": "id-f1", "destination": S.SP_ACS_POST, "sp_entity_id": S.SP_ID,
            "name_id": {"text": "subject-1", "format": NAMEID_FORMATS[0]}}
    idp0 = {"role": "idp", "svc": {}, "top": {}}
    for i, tree in enumerate(farg_trees()):
        a = dict(copy.deepcopy(base), farg=tree, authn={"class_ref": ACCR[0]}, sign_response=False, sign_assertion=bool(i % 2))
        yield {"op": "doc", "builder": "authn_response", "cfg": idp0, "args": a}
        yield {"op": "doc", "builder": "attribute_response", "cfg": idp0, "args": dict(copy.deepcopy(base), farg=copy.deepcopy(tree))}
        if i % 3 == 0:
            yield {"op": "doc", "builder": "authn_response", "cfg": idp0,
                   "args": dict(copy.deepcopy(base), farg=copy.deepcopy(tree), authn={"class_ref": ACCR[0]}, encrypt_assertion=True, sign_assertion=True)}


ENDPOINT_SERVICES = {
    "sp": ["artifact_resolution_service", "single_logout_service", "manage_name_id_service", "assertion_consumer_service"],
    "idp": ["artifact_resolution_service", "single_logout_service", "manage_name_id_service", "single_sign_on_service",
            "name_id_mapping_service", "assertion_id_request_service"],
    "aa": ["artifact_resolution_service", "single_logout_service", "manage_name_id_service", "assertion_id_request_service", "attribute_service"],
    "pdp": ["authz_service"],
    "aq": ["authn_query_service"],
}
_REQUIRED_EP = {"sp": ("assertion_consumer_service", [S.SP_ACS_POST, S.BINDING_POST]), "idp": ("single_sign_on_service", [S.IDP_SSO_REDIRECT, S.BINDING_REDIRECT]),
                "aa": ("attribute_service", ["https://idp.verif.example/aa", S.BINDING_SOAP]), "pdp": ("authz_service", ["https://idp.verif.example/pdp", S.BINDING_SOAP]),
                "aq": ("authn_query_service", ["https://idp.verif.example/aq", S.BINDING_SOAP])}


def forms_grid():
    """Configuration value FORMS for metadata generation: every endpoint service of every role written as a plain
    string, a (location, binding) pair, a (location, binding, index) triple and a dictionary - alone and two entries of
    mixed form; and the other options that accept several forms."""
    def md(service, top=None):
        t = {"with_keys": "none", "no_xmlsec": True}
        t.update(top or {})
        return {"op": "doc", "builder": "entity_descriptor", "cfg": {"role": "md", "service": service, "top": t}, "args": {"sign": False}}

    for role, services in ENDPOINT_SERVICES.items():
        req_svc, req_ep = _REQUIRED_EP[role]
        for svc in services:
            loc = "https://e.verif.example/%s/%s" % (role, svc)
            forms = {"string": loc, "pair": [loc, S.BINDING_SOAP], "triple": [loc, S.BINDING_SOAP, 3],
                     "dict": {"location": loc, "binding": S.BINDING_SOAP}, "dict_index": {"location": loc, "binding": S.BINDING_SOAP, "index": "4"},
                     "dict_response_location": {"location": loc, "binding": S.BINDING_SOAP, "response_location": loc + "/r"}}
            for fname, form in forms.items():
                for extra in (None, [loc + "/2", S.BINDING_POST]):
                    eps = {req_svc: [copy.deepcopy(req_ep)]}
                    eps[svc] = (eps.get(svc, []) if svc != req_svc else []) + [copy.deepcopy(form)] + ([extra] if extra else [])
                    c = md({role: {"endpoints": eps}})
                    c["grid"] = "form:%s:%s:%s%s" % (role, svc, fname, "+pair" if extra else "")
                    if fname == "string" and svc == req_svc and role == "pdp":
                        c["pending"] = K_EP_STRING  # no default binding: the whole list is dropped, the descriptor is left without its required service
                    yield c
    sp = {"sp": {"endpoints": {"assertion_consumer_service": [[S.SP_ACS_POST, S.BINDING_POST]]}}}
    variants = {
        "name": ["svc", ["svc", "sv"]], "description": ["text", ["text", "sv"]],
        "organization": [{"name": "N", "display_name": "D", "url": "http://e.example"},
                         {"name": ["N", "en"], "display_name": ["D", "en"], "url": ["http://e.example", "en"]},
                         {"name": [["N", "en"], ["M", "sv"]], "display_name": ["D", "E"], "url": [["http://e.example", "en"]]},
                         {"name": ["N"], "display_name": [["D", "en"]], "url": ["http://e.example", "http://f.example"]}],
        "contact_person": [[{"contact_type": "support", "email_address": "mailto:a@e.example"}],
                           [{"contact_type": "support", "email_address": ["mailto:a@e.example", "mailto:b@e.example"], "telephone_number": "+1 555"}],
                           [{"contact_type": "other", "given_name": "G", "sur_name": "S", "company": "C", "telephone_number": ["+1", "+2"]},
                            {"contact_type": "billing"}],
                           [{"given_name": "no type given"}]],
        "entity_category": [["http://refeds.org/category/research-and-scholarship"], ["urn:a", "urn:b"]],
        "valid_for": [1, "24"],
    }
    for k, vals in variants.items():
        for i, v in enumerate(vals):
            c = md(copy.deepcopy(sp), {k: v})
            c["grid"] = "form:%s:%d" % (k, i)
            yield c
    spv = {
        "name_id_format": [NAMEID_FORMATS[0], [NAMEID_FORMATS[0]], NAMEID_FORMATS[:3]],
        "required_attributes": [["givenName"], ["givenName", "sn", "mail"], ["urn:oid:2.5.4.42"]],
        "optional_attributes": [["mail"], ["customThing"]],
        "authn_requests_signed": [True, False, "true", "false"], "want_assertions_signed": [True, False, "true"],
        "ui_info": [{"display_name": "E"}, {"display_name": {"text": "E", "lang": "sv"}}, {"display_name": ["E", {"text": "F", "lang": "de"}]},
                    {"logo": {"height": "1", "width": "2", "text": "http://e.example/l.png"}}, {"keywords": {"lang": "en", "text": ["a", "b"]}},
                    {"description": "d", "information_url": "http://e.example/i", "privacy_statement_url": {"text": "http://e.example/p", "lang": "en"}}],
        "discovery_response": [[["https://sp.verif.example/disco", S.BINDING_DISCO]], ["https://sp.verif.example/disco2"]],
    }
    for k, vals in spv.items():
        for i, v in enumerate(vals):
            svc = copy.deepcopy(sp)
            svc["sp"][k] = v
            c = md(svc)
            c["grid"] = "form:sp.%s:%d" % (k, i)
            yield c
    idpv = {"scope": [["example.org"], ["a.example", "b.example"]], "want_authn_requests_signed": [True, False, "true"],
            "name_id_format": [NAMEID_FORMATS[1], NAMEID_FORMATS[:2]], "error_url": ["http://e.example/err"]}
    for k, vals in idpv.items():
        for i, v in enumerate(vals):
            c = md({"idp": {"endpoints": {"single_sign_on_service": [[S.IDP_SSO_POST, S.BINDING_POST]]}, k: v}})
            c["grid"] = "form:idp.%s:%d" % (k, i)
            yield c


def maximal_cases():
    """One instance per message class with ALL optional children and attributes set at once (order and cardinality
    errors need two specific children in the same message), unsigned and signed."""
    sp0 = {"role": "sp", "svc": {}, "top": {}}
    sp_eidas = {"role": "sp", "svc": {"sp_type": "public", "sp_type_in_metadata": False, "requested_attributes": [{"friendly_name": "givenName", "required": True}],
                                      "requested_authn_context": {"authn_context_class_ref": [ACCR[0], ACCR[1]], "comparison": "minimum"},
                                      "name_id_policy_format": NAMEID_FORMATS[1], "name_id_format_allow_create": True, "force_authn": True}, "top": {}}
    idp0 = {"role": "idp", "svc": {}, "top": {}}
    nid = {"text": "subject-1", "format": NAMEID_FORMATS[1], "name_qualifier": S.IDP_ID, "sp_name_qualifier": S.SP_ID, "sp_provided_id": "p"}
    for sign in (False, True):
        for cfg in (sp0, sp_eidas):
            yield {"op": "doc", "builder": "authn_request", "cfg": cfg, "args": {
                "destination": S.IDP_SSO_POST, "binding": S.BINDING_POST, "sign": sign, "message_id": "id-max1", "consent": True,
                "nameid_format": NAMEID_FORMATS[1], "allow_create": "true", "assertion_consumer_service_url": S.SP_ACS_POST,
                "attribute_consuming_service_index": "1", "provider_name": "p", "force_authn": "true", "is_passive": "false",
                "requested_authn_context": {"authn_context_class_ref": [ACCR[0], ACCR[1]], "comparison": "exact"},
                "scoping": {"proxy_count": "2", "idp_list": [S.IDP_ID, S.IDP2_ID], "requester_id": ["https://r.example/1", "https://r.example/2"]},
                "subject": nid, "conditions": {"not_before": S.fmt_time(S.NOW0), "not_on_or_after": S.fmt_time(S.NOW0 + 300), "audience": [S.SP_ID], "one_time_use": True},
                "requested_attributes": [{"friendly_name": "mail", "required": False}], "extensions": "both"}}
        for cfg in (sp0, idp0):
            yield {"op": "doc", "builder": "logout_request", "cfg": cfg, "args": {
                "destination": S.IDP_SLO_POST, "issuer_entity_id": S.IDP_ID, "name_id": nid, "reason": "urn:oasis:names:tc:SAML:2.0:logout:user",
                "expire": S.fmt_time(S.NOW0 + 300), "session_indexes": ["si-1", "si-2"], "message_id": "id-max2", "consent": True, "extensions": "both", "sign": sign}}
            yield {"op": "doc", "builder": "manage_name_id_request", "cfg": cfg, "args": {
                "destination": "https://idp.verif.example/mni", "name_id": nid, "new_id": "new-1", "message_id": "id-max3", "extensions": "foreign", "sign": sign}}
            yield {"op": "doc", "builder": "artifact_resolve", "cfg": cfg, "args": {
                "destination": "https://idp.verif.example/ars", "sessid": "id-max4", "endpoint_index": 1, "consent": True, "extensions": "foreign", "sign": sign}}
        yield {"op": "doc", "builder": "attribute_query", "cfg": sp0, "args": {
            "destination": "https://idp.verif.example/aa", "name_id": nid, "message_id": "id-max5", "extensions": "foreign", "sign": sign,
            "attribute": [[["urn:oid:2.5.4.42", "urn:oasis:names:tc:SAML:2.0:attrname-format:uri", "givenName"], None], ["plain", [["a", "b"], "xs:string"]]]}}
        yield {"op": "doc", "builder": "authn_query", "cfg": sp0, "args": {
            "subject": nid, "destination": "https://idp.verif.example/aq", "session_index": "si-1", "message_id": "id-max6", "extensions": "foreign", "sign": sign,
            "authn_context": {"authn_context_class_ref": [ACCR[0], ACCR[1]], "comparison": "better"}}}
        yield {"op": "doc", "builder": "authz_decision_query", "cfg": sp0, "args": {
            "destination": "https://idp.verif.example/pdp", "action": [["read", "urn:oasis:names:tc:SAML:1.0:action:rwedc"], ["write", "urn:oasis:names:tc:SAML:1.0:action:rwedc"]],
            "resource": "urn:r", "subject": nid, "via_assertion": False, "evidence": True, "message_id": "id-max7", "extensions": "foreign", "sign": sign}}
        yield {"op": "doc", "builder": "name_id_mapping_request", "cfg": sp0, "args": {
            "name_id_policy": {"format": NAMEID_FORMATS[1], "sp_name_qualifier": S.SP_ID, "allow_create": "true"}, "name_id": nid,
            "destination": "https://idp.verif.example/nim", "extensions": "foreign", "sign": sign}}
        full_farg = farg_trees()[-2]
        for enc in (False, True):
            yield {"op": "doc", "builder": "authn_response", "cfg": idp0, "args": {
                "identity": {"mail": ["a@example.org", "b@example.org"], "givenName": ["A"], "uid": [5, True, 1.5], "customAttribute": ["c"]},
                "in_response_to": "id-max8", "destination": S.SP_ACS_POST, "sp_entity_id": S.SP_ID, "name_id": nid,
                "authn": {"class_ref": ACCR[0], "authn_auth": S.IDP_ID, "authn_instant": S.NOW0 - 30}, "session_not_on_or_after": S.fmt_time(S.NOW0 + 3600),
                "farg": copy.deepcopy(full_farg), "sign_response": sign, "sign_assertion": sign, "encrypt_assertion": enc, "issuer": S.IDP_ID,
                "status": {"code": "urn:oasis:names:tc:SAML:2.0:status:Success", "sub": None, "message": "m"}}}
    # metadata: every option at once, per SPType variant
    for sptype in ({}, {"sp_type": "public", "sp_type_in_metadata": True}, {"sp_type": "private", "sp_type_in_metadata": False}):
        for xmlsec in (False, True):
            spsvc = {"endpoints": {"assertion_consumer_service": [[S.SP_ACS_POST, S.BINDING_POST], [S.SP_ACS_REDIRECT, S.BINDING_REDIRECT, 7]],
                                   "single_logout_service": [[S.SP_SLO_POST, S.BINDING_POST]], "manage_name_id_service": [["https://sp.verif.example/mni", S.BINDING_SOAP]],
                                   "artifact_resolution_service": [["https://sp.verif.example/ars", S.BINDING_SOAP]]},
                     "required_attributes": ["givenName", "sn"], "optional_attributes": ["mail"], "name_id_format": NAMEID_FORMATS[:2],
                     "ui_info": {"display_name": "E", "description": "d", "information_url": "http://e.example/i", "privacy_statement_url": "http://e.example/p",
                                 "logo": {"height": "1", "width": "2", "text": "http://e.example/l.png"}, "keywords": {"lang": "en", "text": ["a"]}},
                     "discovery_response": [["https://sp.verif.example/disco", S.BINDING_DISCO]], "authn_requests_signed": True, "want_assertions_signed": True}
            spsvc.update(sptype)
            idpsvc = {"endpoints": {"single_sign_on_service": [[S.IDP_SSO_POST, S.BINDING_POST]], "single_logout_service": [[S.IDP_SLO_POST, S.BINDING_POST]],
                                    "artifact_resolution_service": [["https://idp.verif.example/ars", S.BINDING_SOAP]],
                                    "manage_name_id_service": [["https://idp.verif.example/mni", S.BINDING_SOAP]],
                                    "name_id_mapping_service": [["https://idp.verif.example/nim", S.BINDING_SOAP]],
                                    "assertion_id_request_service": [["https://idp.verif.example/airs", "urn:oasis:names:tc:SAML:2.0:bindings:URI"]]},
                      "name_id_format": NAMEID_FORMATS[:2], "scope": ["example.org"], "ui_info": {"display_name": "I"}, "error_url": "http://e.example/err",
                      "want_authn_requests_signed": True}
            aasvc = {"endpoints": {"attribute_service": [["https://idp.verif.example/aa", S.BINDING_SOAP]],
                                   "assertion_id_request_service": [["https://idp.verif.example/aa/airs", "urn:oasis:names:tc:SAML:2.0:bindings:URI"]]},
                     "name_id_format": NAMEID_FORMATS[:1], "attribute": ["urn:oid:2.5.4.42"], "attribute_profile": ["urn:oasis:names:tc:SAML:2.0:profiles:attribute:basic"]}
            top = {"with_keys": "sign+enc", "name": "svc", "description": ["d", "en"], "valid_for": 24,
                   "organization": {"name": [["N", "en"]], "display_name": ["D"], "url": "http://e.example"},
                   "contact_person": [{"contact_type": "technical", "given_name": "G", "sur_name": "S", "company": "C", "email_address": ["mailto:a@e.example"], "telephone_number": ["+1"]}],
                   "entity_category": ["http://refeds.org/category/research-and-scholarship"], "entity_category_support": ["http://refeds.org/category/research-and-scholarship"],
                   "assurance_certification": ["https://refeds.org/sirtfi"], "entity_attributes": [{"format": "urn:oasis:names:tc:SAML:2.0:attrname-format:uri", "name": "urn:x:a", "values": ["v"]}],
                   "extensions": {"mdrpi": {"RegistrationInfo": {"registration_authority": "urn:x:ra", "registration_instant": "2026-01-01T00:00:00Z"}}}}
            if not xmlsec:
                top["no_xmlsec"] = True
            cfg = {"role": "md", "service": {"sp": spsvc, "idp": idpsvc, "aa": aasvc,
                                             "aq": {"endpoints": {"authn_query_service": [["https://idp.verif.example/aq", S.BINDING_SOAP]]}},
                                             "pdp": {"endpoints": {"authz_service": [["https://idp.verif.example/pdp", S.BINDING_SOAP]]}, "name_id_format": NAMEID_FORMATS[:1]}}, "top": top}
            yield {"op": "doc", "builder": "entity_descriptor", "cfg": cfg, "args": {"sign": xmlsec}}
            yield {"op": "doc", "builder": "entities_descriptor", "cfg": cfg, "args": {"n": 2, "valid_for": 24, "name": "urn:fed", "ident": "id-fed1", "sign": xmlsec}}


def _hist_calls(side):
    if side == "idp":
        out = []
        for enc in (True, False, None):
            for sa in (False, True):
                args = {"sign_assertion": sa, "sign_response": False}
                if enc is not None:
                    args["encrypt_assertion"] = enc
                out.append(("authn_response", args))
        out += [("authn_response", {"encrypt_assertion": True, "sign_response": True, "sign_assertion": True}),
                ("authn_response", {"encrypt_assertion": True, "encrypted_advice_attributes": True, "pefim": True}),
                ("authn_response", {"encrypt_assertion": True, "encrypt_assertion_self_contained": False}),
                ("attribute_response", {}), ("error_response", {"sign": False}), ("logout_response", {"sign": False}),
                ("logout_response", {"sign": True, "bindings": [S.BINDING_SOAP]}), ("logout_request", {"sign": False})]
        return out
    return [("authn_request", {"sign": False}), ("authn_request", {"sign": True}), ("logout_request", {"sign": False}),
            ("logout_response", {"sign": False}), ("logout_response", {"sign": False, "bindings": [S.BINDING_REDIRECT]}),
            ("logout_response", {"sign": False, "bindings": [S.BINDING_SOAP]}), ("attribute_query", {"sign": False}),
            ("artifact_resolve", {"sign": False})]


def hist_cases(rng, n_random):
    """State across calls on one entity.  (1) complete: for every ordered pair of requester-metadata states
    (encryption key of SP1 present / absent / published without `use`, x SP2 alike) the history
    call(SP1) . call(SP2) . reload . call(SP1) . call(SP2) . call(SP1) with encryption asked for - both orders of
    priming; (2) random histories on a Server and on a Saml2Client: 6-12 steps, calls for two or three peers interleaved
    with reloads that add / remove / change the peers' keys, endpoints, name-id formats and requested attributes."""
    encs = [True, False, "nouse"]
    states = [[{"k": 1, "enc": e1}, {"k": 2, "enc": e2}] for e1 in encs for e2 in encs]
    ask = {"encrypt_assertion": True, "sign_response": False, "sign_assertion": False}
    for i, a in enumerate(states):
        for j, b in enumerate(states):
            if i == j:
                continue
            for extra in ({}, {"sign_assertion": True}):
                args = dict(ask, **extra)
                yield {"op": "hist", "side": "idp", "init": a, "steps": [
                    {"call": "authn_response", "peer": 1, "args": args}, {"call": "authn_response", "peer": 2, "args": args}, {"reload": b},
                    {"call": "authn_response", "peer": 1, "args": args}, {"call": "authn_response", "peer": 2, "args": args},
                    {"call": "authn_response", "peer": 1, "args": dict(args, encrypt_assertion=False)}]}
    for n in range(n_random):
        side = "idp" if n % 3 else "sp"
        calls = _hist_calls(side)

        def state():
            ps = []
            for k in (1, 2, 3):
                if k == 3 and rng.random() < 0.6:
                    continue
                if side == "idp":
                    ps.append({"k": k, "enc": rng.choice(encs), "acs2": rng.random() < 0.5, "slo": rng.random() < 0.7,
                               "formats": rng.choice([None, NAMEID_FORMATS[:1], NAMEID_FORMATS[:3]]), "req_attrs": rng.random() < 0.4})
                else:
                    ps.append({"k": k, "enc": rng.random() < 0.5, "slo": rng.sample(["redirect", "post", "soap"], rng.randint(0, 3))})
            return ps

        init = state()
        steps = []
        for _ in range(rng.randint(6, 12)):
            if rng.random() < 0.3:
                steps.append({"reload": state()})
            else:
                b, args = rng.choice(calls)
                steps.append({"call": b, "peer": rng.choice([1, 1, 2, 2, 3]), "args": dict(args)})
        top = {}
        if side == "idp" and rng.random() < 0.3:
            top = {"idp": {"encrypt_assertion": True}}
        yield {"op": "hist", "side": side, "init": init, "steps": steps, "top": top}


TYPED_SPECS = [["Derek", "xs:string"], ["Derek", "xsd:string"], [["a", "b"], "xsd:string"], ["5", "xs:integer"], [5, "xsd:integer"],
               ["true", "xs:boolean"], ["true", "xsd:boolean"], ["QUJD", "xs:base64Binary"], ["QUJD", "xsd:base64Binary"],
               ["2026-01-01", "xsd:date"], ["2026-01-01", "xs:date"], ["1.5", "xsd:float"], ["v", "xs:anyType"], ["v", "xsd:anyType"],
               ["7", "xsd:short"], ["7", "xs:long"], ["text", None], [None, None]]


def typed_grid():
    """Typed attribute values: (value, type) specs with both customary prefixes of the XML Schema namespace in every
    builder that takes attribute specs, and re-emission of RECEIVED assertions whose xsi:type QNames use the prefix xs,
    xsd, another prefix, or the default namespace (as Evidence, through create_authz_decision_query_using_assertion, and
    as the message behind an artifact)."""
    sp0 = {"role": "sp", "svc": {}, "top": {}}
    idp0 = {"role": "idp", "svc": {}, "top": {}}
    nid = {"text": "subject-1", "format": NAMEID_FORMATS[1]}
    for i, (v, ty) in enumerate(TYPED_SPECS):
        spec = v if ty is None else [v, ty]
        for key in ("urn:oid:2.5.4.42", ["urn:oid:2.5.4.4", "urn:oasis:names:tc:SAML:2.0:attrname-format:uri", "sn"]):
            yield {"op": "doc", "builder": "attribute_query", "cfg": sp0, "args": {
                "destination": "https://idp.verif.example/aa", "name_id": nid, "attribute": [[key, spec]], "sign": bool(i % 2)}}
    yield {"op": "doc", "builder": "attribute_query", "cfg": sp0, "args": {
        "destination": "https://idp.verif.example/aa", "name_id": nid, "sign": False,
        "attribute": [["urn:x:a%d" % i, (v if ty is None else [v, ty])] for i, (v, ty) in enumerate(TYPED_SPECS)]}}
    for pf in ("xs", "xsd", "", "x", "xsdx", "xs+empty", "xsd+empty"):
        pend = {} if pf in ("xs", "xsd", "") else {"pending": K_REEMIT}
        for sign in (False, True):
            yield dict({"op": "doc", "builder": "authz_decision_query", "cfg": sp0, "args": {
                "destination": "https://idp.verif.example/pdp", "action": [["read", "urn:oasis:names:tc:SAML:1.0:action:rwedc"]], "resource": "urn:r",
                "subject": nid, "via_assertion": False, "evidence": {"prefix": pf}, "sign": sign}}, **pend)
        for cfg in (sp0, idp0):
            yield dict({"op": "doc", "builder": "artifact_response", "cfg": cfg, "args": {
                "request_id": "id-q2", "bindings": [S.BINDING_SOAP], "message": "received:" + pf, "sign": False}}, **pend)
    for sl in ("192.0.2.7", "2001:db8::1", {"address": "192.0.2.7"}, {"dns_name": "host.example.org"},
               {"address": "192.0.2.7", "dns_name": "host.example.org"}, {"address": "2001:db8::1", "dns_name": ""}):
        yield {"op": "doc", "builder": "authn_response", "cfg": idp0, "pending": K_DNS if isinstance(sl, dict) and sl.get("dns_name") else K_SUBJLOC, "args": {
            "identity": {"mail": ["a@example.org"]}, "in_response_to": "id-sl1", "destination": S.SP_ACS_POST, "sp_entity_id": S.SP_ID, "name_id": nid,
            "authn": {"class_ref": ACCR[0], "subject_locality": sl}}}


FALSY = [None, "", [], {}, 0]


def _falsy_outside(label):
    """(key, form) combinations for which the unchanged code neither treats the value as unset nor refuses it, judged to be
    values of the wrong type for the option (outside 'valid configuration'); everything else in the grid is constrained."""
    key, form = label[len("falsy:"):].rsplit("=", 1)
    if key in ("sp.authn_requests_signed", "sp.want_assertions_signed", "idp.want_authn_requests_signed") and form in ('""', "[]", "{}"):
        return "a boolean option given as an empty string / list / dictionary is written out as it is"
    if key == "contact_person.contact_type" and form == "0":
        return "contact type 0 is not one of the five contact types"
    if key == "organization" and form in ('""', "[]", "{}"):
        return "an empty organization (not None) is an organization lacking its three mandatory parts"
    if key.startswith("entity_attributes.") and form == "0" and key != "entity_attributes.values":
        return "a number where a name / format string is expected cannot be serialised"
    if key == "entity_attributes.name" and form == "null":
        return "an entity attribute needs a name"
    return None


def falsy_grid():
    """Every configuration key of the value-forms grid PRESENT with None, "", [], {} and 0 (next to absent, which the other
    grids have): where the code treats the value as unset the metadata must validate, where it refuses, a refusal is fine."""
    def md(service, top, label):
        t = {"with_keys": "none", "no_xmlsec": True}
        t.update(top)
        return {"op": "doc", "builder": "entity_descriptor", "cfg": {"role": "md", "service": service, "top": t}, "args": {"sign": False},
                "lenient": True, "grid": label}

    def sp(extra=None):
        d = {"endpoints": {"assertion_consumer_service": [[S.SP_ACS_POST, S.BINDING_POST]]}}
        d.update(extra or {})
        return {"sp": d}

    def idp(extra=None):
        d = {"endpoints": {"single_sign_on_service": [[S.IDP_SSO_POST, S.BINDING_POST]]}}
        d.update(extra or {})
        return {"idp": d}

    full_contact = {"contact_type": "support", "given_name": "G", "sur_name": "S", "company": "C", "email_address": ["mailto:a@e.example"], "telephone_number": ["+1"]}
    full_org = {"name": "N", "display_name": "D", "url": "http://e.example"}
    full_ea = {"format": "urn:oasis:names:tc:SAML:2.0:attrname-format:uri", "name": "urn:x:a", "friendly_name": "a", "values": ["v"]}
    full_ui = {"display_name": "E", "description": "d", "information_url": "http://e.example/i", "privacy_statement_url": "http://e.example/p",
               "logo": {"height": "1", "width": "2", "text": "http://e.example/l.png"}, "keywords": {"lang": "en", "text": ["a"]}}
    for f in FALSY:
        tag = json.dumps(f)
        for k in ("name", "description", "organization", "contact_person", "entity_category", "entity_category_support", "assurance_certification",
                  "entity_attributes", "valid_for", "extensions", "additional_cert_files"):
            yield md(sp(), {k: f}, "falsy:%s=%s" % (k, tag))
        for k in ("name_id_format", "required_attributes", "optional_attributes", "authn_requests_signed", "want_assertions_signed", "ui_info",
                  "discovery_response", "sp_type", "sp_type_in_metadata", "requested_attribute_name_format", "extensions"):
            yield md(sp({k: f}), {}, "falsy:sp.%s=%s" % (k, tag))
        for k in ("scope", "want_authn_requests_signed", "name_id_format", "error_url", "ui_info", "extensions"):
            yield md(idp({k: f}), {}, "falsy:idp.%s=%s" % (k, tag))
        for svc in ("single_logout_service", "manage_name_id_service", "artifact_resolution_service"):
            e = sp()
            e["sp"]["endpoints"][svc] = f
            yield md(e, {}, "falsy:sp.endpoints.%s=%s" % (svc, tag))
        for k in full_contact:
            yield md(sp(), {"contact_person": [dict(full_contact, **{k: f})]}, "falsy:contact_person.%s=%s" % (k, tag))
        for k in full_ea:
            yield md(sp(), {"entity_attributes": [dict(full_ea, **{k: f})]}, "falsy:entity_attributes.%s=%s" % (k, tag))
        for k in full_ui:
            yield md(sp({"ui_info": dict(full_ui, **{k: f})}), {}, "falsy:ui_info.%s=%s" % (k, tag))
        for k in full_org:
            c = md(sp(), {"organization": dict(full_org, **{k: f})}, "falsy:organization.%s=%s" % (k, tag))
            c["unconstrained"] = "an organization lacking one of its three mandatory parts is outside 'valid configuration'"
            yield c


def falsy_cases():
    for c in falsy_grid():
        why = _falsy_outside(c["grid"])
        if why and "unconstrained" not in c:
            c["unconstrained"] = why
        yield c


# ---------------------------------------------------------------------------- round 5: branches no earlier case reached
# (anchor coverage, harness/covreport.py): role-level `extensions` of every descriptor, the SP's `ext` endpoints
# (endpoints.discovery_response), do_key_descriptor forms, do_uiinfo forms incl. its refusals, bare-string requested
# attributes, the Server entry points create_authn_request_response / create_assertion_id_request_response /
# create_attribute_response(attributes=), create_authn_request argument forms, the small public factories.

# A configuration that names an extension module which does not exist, or a module with no element in it, makes every
# do_*_descriptor create the md:Extensions container first and put nothing into it (do_extensions returns None / []):
# an EMPTY <md:Extensions/> is written, which the metadata schema forbids.  Reported (round 5); until decided the
# class is generated only with this switch on.
R5_EMPTY_EXTENSIONS = True   # the empty-container defect was repaired in /repo (fix: 4dc2d594); the forms stay in the stream

ROLE_EXTENSIONS = [
    ("shibmd", {"shibmd": {"Scope": {"text": "example.org", "regexp": "false"}}}),
    ("mdui", {"mdui": {"UIInfo": {"display_name": [{"text": "Example", "lang": "en"}, {"text": "Exempel", "lang": "sv"}],
                                  "logo": {"text": "http://e.example/l.png", "height": "1", "width": "2"}}}}),
    ("mdrpi", {"mdrpi": {"RegistrationInfo": {"registrationAuthority": "urn:x:ra", "registrationInstant": "2026-01-01T00:00:00Z",
                                              "registration_policy": [{"text": "http://e.example/policy", "lang": "en"}]}}}),
    ("two-modules", {"shibmd": {"Scope": {"text": "a.example"}}, "reqinit": {"RequestInitiator": {"Location": "https://e.example/init", "Binding": "urn:oasis:names:tc:SAML:profiles:SSO:request-init"}}}),
    ("two-classes", {"mdui": {"UIInfo": {"description": {"text": "d", "lang": "en"}}, "DiscoHints": {"ip_hint": {"text": "192.0.2.0/24"}}}}),
    ("mdattr", {"mdattr": {"EntityAttributes": {"attribute": [{"Name": "urn:x:a", "NameFormat": "urn:oasis:names:tc:SAML:2.0:attrname-format:uri", "attribute_value": [{"text": "v"}]}]}}}),
]
ROLE_EXTENSIONS_EMPTY = [("no-such-module", {"nosuchextensionmodule": {"Thing": {"text": "t"}}}), ("module-without-element", {"shibmd": {}}),
                         ("absent+present", {"nosuchextensionmodule": {"Thing": {}}, "shibmd": {"Scope": {"text": "b.example"}}})]


def _r5_md(service, top=None, label="", **extra):
    t = {"with_keys": "none", "no_xmlsec": True}
    t.update(top or {})
    c = {"op": "doc", "builder": "entity_descriptor", "cfg": {"role": "md", "service": service, "top": t}, "args": {"sign": False}, "grid": "r5:" + label}
    c.update(extra)
    return c


def r5_metadata_grid():
    role_ep = {r: {"endpoints": {_REQUIRED_EP[r][0]: [copy.deepcopy(_REQUIRED_EP[r][1])]}} for r in _REQUIRED_EP}
    # (1) `extensions` inside the section of every role (the AuthnAuthority descriptor reads the AA section's), alone,
    #     next to the options that also write into the same md:Extensions (ui_info, scope, discovery endpoint), and on
    #     every role of one entity at once
    forms = list(ROLE_EXTENSIONS) + (ROLE_EXTENSIONS_EMPTY if R5_EMPTY_EXTENSIONS else ROLE_EXTENSIONS_EMPTY[2:])
    for name, ext in forms:
        for role in ("sp", "idp", "aa", "pdp", "aq"):
            svc = {role: dict(copy.deepcopy(role_ep[role]), extensions=copy.deepcopy(ext))}
            if role == "aq":
                svc["aa"] = dict(copy.deepcopy(role_ep["aa"]), extensions=copy.deepcopy(ext))
            yield _r5_md(svc, label="ext:%s:%s" % (role, name))
        yield _r5_md({"sp": dict(copy.deepcopy(role_ep["sp"]), extensions=copy.deepcopy(ext), ui_info={"display_name": "E"}),
                      "idp": dict(copy.deepcopy(role_ep["idp"]), extensions=copy.deepcopy(ext), scope=["example.org"], ui_info={"display_name": "I"}),
                      "aa": dict(copy.deepcopy(role_ep["aa"]), extensions=copy.deepcopy(ext)),
                      "aq": copy.deepcopy(role_ep["aq"]), "pdp": dict(copy.deepcopy(role_ep["pdp"]), extensions=copy.deepcopy(ext))},
                     {"extensions": copy.deepcopy(ext)}, label="ext:all-roles:%s" % name)
    # (2) the SP's extension ENDPOINT: endpoints.discovery_response in every endpoint form, alone and with ui_info / extensions
    loc = "https://sp.verif.example/disco"
    dforms = {"string": loc, "pair": [loc, S.BINDING_DISCO], "triple": [loc, S.BINDING_DISCO, 3], "dict": {"location": loc, "binding": S.BINDING_DISCO},
              "dict_index": {"location": loc, "binding": S.BINDING_DISCO, "index": "4"}, "bad_index": [loc, S.BINDING_DISCO, "x"]}
    for fname, form in dforms.items():
        for extra in ({}, {"ui_info": {"display_name": "E"}}, {"extensions": copy.deepcopy(ROLE_EXTENSIONS[0][1])}):
            sp = copy.deepcopy(role_ep["sp"])
            sp["endpoints"]["discovery_response"] = [copy.deepcopy(form)] + ([[loc + "/2", S.BINDING_DISCO]] if fname == "pair" else [])
            sp.update(copy.deepcopy(extra))
            c = _r5_md({"sp": sp}, label="disco:%s:%s" % (fname, "+".join(extra) or "alone"))
            if fname in ("string", "bad_index"):
                c["lenient"] = True  # no default binding (SAMLError) / an index that is not a number (ValueError): refusals
            yield c
    # (3) ui_info forms: lists of strings and dictionaries for the four localised members, logo / keywords in every
    #     accepted form, and the forms do_uiinfo refuses
    ui_forms = [
        {"display_name": ["A", {"text": "B", "lang": "de"}, "C"], "description": [{"text": "d", "lang": "en"}], "information_url": ["http://e.example/i"],
         "privacy_statement_url": [{"text": "http://e.example/p", "lang": "en"}, "http://e.example/p2"]},
        {"logo": [{"height": "1", "width": "2", "text": "http://e.example/l.png"}, {"height": "3", "width": "4", "text": "http://e.example/m.png", "lang": "sv", "unknown_key": "x"}]},
        {"logo": {"height": "1", "width": "2", "text": "http://e.example/l.png", "lang": "en", "unknown_key": "x"}},
        {"keywords": [{"text": ["a", "b"]}, {"lang": "sv", "text": ["c"]}, "d+e"]},
        {"keywords": {"text": ["a", "b"]}},
        {"keywords": []}, {"logo": []}, {"display_name": []},
        {"logo": ["http://e.example/l.png"]}, {"logo": [{"height": "1", "width": "2", "text": "http://e.example/l.png"}, 5]},
        {"keywords": [5]}, {"keywords": [["a"]]}, {"keywords": "a+b"}, {"keywords": 7},
    ]
    for i, ui in enumerate(ui_forms):
        for role in ("sp", "idp"):
            c = _r5_md({role: dict(copy.deepcopy(role_ep[role]), ui_info=copy.deepcopy(ui))}, label="ui:%s:%d" % (role, i))
            if i in (5, 6, 7):
                # a ui_info whose only member is an empty list: an EMPTY mdui:UIInfo goes into md:Extensions (valid: the
                # container is not empty); kept constrained
                pass
            yield c
    # (4) requested attributes whose name format has no converter: from_local_name hands the bare string back
    for nf in ("urn:oasis:names:tc:SAML:2.0:attrname-format:unspecified", "urn:x-verif:format", NAMEFORMAT_URI_, NAMEFORMAT_BASIC_):
        for req, opt in ((["givenName"], None), (None, ["mail", "customThing"]), (["givenName", "urn:oid:2.5.4.4"], ["mail"])):
            sp = dict(copy.deepcopy(role_ep["sp"]), requested_attribute_name_format=nf)
            if req:
                sp["required_attributes"] = req
            if opt:
                sp["optional_attributes"] = opt
            for top in ({}, {"name": "svc", "description": ["d", "sv"]}):
                yield _r5_md({"sp": sp}, dict(top), label="reqattr:%s" % nf)
    # (5) no role at all: refused
    yield _r5_md({}, label="no-role")


NAMEFORMAT_URI_ = "urn:oasis:names:tc:SAML:2.0:attrname-format:uri"
NAMEFORMAT_BASIC_ = "urn:oasis:names:tc:SAML:2.0:attrname-format:basic"


def call_helper(inst, a):
    """The small public factories of the anchored modules, called directly; what they return is wrapped into the
    smallest element that is a schema root where it is not one itself."""
    from saml2 import md, metadata, s_utils, samlp

    fn = a["fn"]
    if fn == "status_message_factory":
        kw = {"fro": a["fro"]} if "fro" in a else {}
        return s_utils.status_message_factory(a["message"], a["code"], **kw)
    if fn == "do_idpdisc":
        sp = md.SPSSODescriptor(protocol_support_enumeration=samlp.NAMESPACE, extensions=md.Extensions(),
                                assertion_consumer_service=[md.AssertionConsumerService(index="1", binding=S.BINDING_POST, location=S.SP_ACS_POST)])
        sp.extensions.add_extension_element(metadata.do_idpdisc(a["location"]))
        return sp
    if fn == "do_key_descriptor":
        def certs(spec):
            if spec is None:
                return None
            return [S.cert_b64(n) for n in spec] if isinstance(spec, list) else S.cert_b64(spec)

        kw = {"use": a["use"]} if "use" in a else {}
        kd = metadata.do_key_descriptor(certs(a.get("cert")), certs(a.get("enc_cert")), **kw)
        return md.SPSSODescriptor(protocol_support_enumeration=samlp.NAMESPACE, key_descriptor=kd,
                                  assertion_consumer_service=[md.AssertionConsumerService(index="1", binding=S.BINDING_POST, location=S.SP_ACS_POST)])
    if fn == "do_role_descriptor":
        # the descriptor builders called the way metadata tools call them: certificates as one string or as lists
        conf = instance(a["cfg"])
        f = getattr(metadata, "do_%s_descriptor" % a["role"])
        return f(conf, *[(None if s is None else [S.cert_b64(n) for n in s] if isinstance(s, list) else S.cert_b64(s)) for s in (a.get("cert"), a.get("enc_cert"))])
    raise ValueError(fn)


def r5_helper_grid():
    sp0 = {"role": "sp", "svc": {}, "top": {}}

    def doc(args, **extra):
        return dict({"op": "doc", "builder": "helper", "cfg": sp0, "args": args, "grid": "r5:helper:" + args["fn"]}, **extra)

    for msg in ("m", "", "a & <b>", "Åke"):
        for code in STATUS2[:3]:
            yield doc({"fn": "status_message_factory", "message": msg, "code": code})
        yield doc({"fn": "status_message_factory", "message": msg, "code": STATUS2[3], "fro": "urn:oasis:names:tc:SAML:2.0:status:Requester"})
    for loc in ("https://sp.verif.example/disco", "https://sp.verif.example/disco?return=x&y=z", ""):
        yield doc({"fn": "do_idpdisc", "location": loc})
    # do_key_descriptor: certificate given as one string / a list of one / of two / not at all, same for the encryption
    # certificate, for every key usage (and the default)
    cforms = [None, "idp_sign", ["idp_sign"], ["idp_sign", "idp_sign2"]]
    eforms = [None, "sp_enc1", ["sp_enc1"], ["sp_enc1", "idp_enc"]]
    for c in cforms:
        for e in eforms:
            for use in (None, "signing", "encryption", "both"):
                a = {"fn": "do_key_descriptor"}
                if c is not None:
                    a["cert"] = c
                if e is not None:
                    a["enc_cert"] = e
                if use:
                    a["use"] = use
                if use == "encryption" and e is None and isinstance(c, list):
                    # usage 'encryption', no encryption certificate, signing certificates as a LIST: the fallback writes the
                    # list as element text and serialisation crashes (TypeError, nothing emitted) -- the configuration
                    # design/C13.md lists as judged outside 'valid configuration'; not generated
                    continue
                yield doc(a)
    md_cfg = {"role": "md", "service": {"sp": {"endpoints": {"assertion_consumer_service": copy.deepcopy(_ACS)}},
                                        "idp": {"endpoints": {"single_sign_on_service": [[S.IDP_SSO_POST, S.BINDING_POST]]}},
                                        "aa": {"endpoints": {"attribute_service": [["https://idp.verif.example/aa", S.BINDING_SOAP]]}},
                                        "aq": {"endpoints": {"authn_query_service": [["https://idp.verif.example/aq", S.BINDING_SOAP]]}},
                                        "pdp": {"endpoints": {"authz_service": [["https://idp.verif.example/pdp", S.BINDING_SOAP]]}}},
              "top": {"with_keys": "none", "no_xmlsec": True}}
    for role, root_ok in (("spsso", True), ("idpsso", True), ("aa", True), ("aq", True), ("pdp", True)):
        for c, e in ((None, None), ("idp_sign", None), (["idp_sign", "idp_sign2"], ["sp_enc1"]), ("idp_sign", "sp_enc1"), (None, ["sp_enc1"])):
            a = {"fn": "do_role_descriptor", "role": role, "cfg": md_cfg}
            if c is not None:
                a["cert"] = c
            if e is not None:
                a["enc_cert"] = e
            yield doc(a)


# ---- round 5: Server / client entry points and argument forms

def call_authn_request_response(idp, a):
    """Server.create_authn_request_response: the positional front of create_authn_response"""
    from saml2 import samlp

    kw = {k: a[k] for k in ("userid", "authn", "sign_response", "sign_assertion", "sign_alg", "digest_alg", "session_not_on_or_after", "issuer") if k in a}
    if "name_id" in a:
        kw["name_id"] = mk_nameid(a["name_id"])
    if a.get("name_id_policy"):
        kw["name_id_policy"] = samlp.NameIDPolicy(**{k: v for k, v in a["name_id_policy"].items() if v is not None})
    if "authn_decl" in a:
        kw["authn_decl"] = a["authn_decl"]
    return _nil_crash(lambda: idp.create_authn_request_response(a["identity"], a["in_response_to"], a["destination"], a["sp_entity_id"], **kw))


def ga_authn_request_response(rng, cfg):
    a = ga_authn_response(rng, cfg)
    return {k: v for k, v in a.items() if k in ("identity", "in_response_to", "destination", "sp_entity_id", "userid", "name_id", "name_id_policy", "authn",
                                                "sign_response", "sign_assertion", "sign_alg", "digest_alg", "session_not_on_or_after", "issuer")}


def call_assertion_id_response2(idp, a):
    """create_assertion_id_request_response over the states of the assertion store: an identifier that was never stored,
    an assertion stored signed, stored unsigned, stored unsigned together with the instruction to sign it on delivery."""
    from saml2 import saml, samlp
    from saml2.sigver import pre_signature_part  # noqa: F401  (the code under test calls it)
    from saml2 import class_name

    kw = {k: a[k] for k in ("sign", "sign_alg", "digest_alg") if k in a}
    if a["stored"] == "never":
        from saml2.s_utils import Unknown

        try:
            return idp.create_assertion_id_request_response(a.get("assertion_id", "id-never-stored"), **kw)
        except Unknown:  # the documented refusal (a plain Exception subclass, not a SAMLError)
            return None
    r = idp.create_authn_response(a["identity"], "id-req-1", S.SP_ACS_POST, S.SP_ID, name_id=saml.NameID(text="subject-1", format=NAMEID_FORMATS[0]),
                                  authn={"class_ref": ACCR[0], "authn_auth": S.IDP_ID}, sign_response=False, sign_assertion=(a["stored"] == "signed"),
                                  encrypt_assertion=False)
    if isinstance(r, str):
        r = samlp.response_from_string(r)
    ass = r.assertion[0] if isinstance(r.assertion, list) else r.assertion
    if a["stored"] == "to-sign":
        ass.signature = None
        idp.session_db.store_assertion(ass, [(class_name(ass), ass.id)])
    return idp.create_assertion_id_request_response(ass.id, **kw)


def r5_call_grid():
    sp0 = {"role": "sp", "svc": {}, "top": {}}
    idp0 = {"role": "idp", "svc": {}, "top": {}}
    airs = {"role": "idp", "svc": {"endpoints": {"single_sign_on_service": [[S.IDP_SSO_POST, S.BINDING_POST]],
                                                 "assertion_id_request_service": [["https://idp.verif.example/airs", "urn:oasis:names:tc:SAML:2.0:bindings:URI"]]}}, "top": {}}
    nid = {"text": "subject-1", "format": NAMEID_FORMATS[1]}

    def doc(builder, cfg, args, **extra):
        return dict({"op": "doc", "builder": builder, "cfg": cfg, "args": args, "grid": "r5:" + builder}, **extra)

    # Server.create_authn_request_response: identifier forms x signing x authn forms
    base = {"identity": {"mail": ["a@example.org"], "givenName": ["A"]}, "in_response_to": "id-r5a", "destination": S.SP_ACS_POST, "sp_entity_id": S.SP_ID}
    for ident in ({"name_id": nid}, {"userid": "user-1"}, {"userid": "user-1", "name_id_policy": {"format": NAMEID_FORMATS[1], "sp_name_qualifier": S.SP_ID}},
                  {"name_id": nid, "userid": "user-1"}):
        for sr, sa in ((False, False), (True, False), (False, True), (True, True)):
            for authn in (None, {"class_ref": ACCR[0]}, {"class_ref": ACCR[1], "authn_auth": S.IDP_ID, "authn_instant": S.NOW0 - 30}):
                a = dict(copy.deepcopy(base), sign_response=sr, sign_assertion=sa, authn=authn, **copy.deepcopy(ident))
                yield doc("authn_request_response", idp0, a)
    for extra in ({"session_not_on_or_after": S.fmt_time(S.NOW0 + 3600)}, {"issuer": S.IDP_ID}, {"sign_alg": SIG_ALGS[1], "digest_alg": DIG_ALGS[1], "sign_assertion": True}):
        yield doc("authn_request_response", idp0, dict(copy.deepcopy(base), name_id=nid, authn={"class_ref": ACCR[0]}, **extra))
    # the assertion store behind create_assertion_id_request_response
    for stored in ("never", "signed", "unsigned", "to-sign"):
        for kw in ({}, {"sign": True}, {"sign": False}, {"sign_alg": SIG_ALGS[2], "digest_alg": DIG_ALGS[2]}):
            for ident in ({"givenName": ["A"]}, {}):
                yield doc("assertion_id_response2", airs, dict({"stored": stored, "identity": ident}, **kw))
    # create_attribute_response: `attributes=` restrictions, an entity that also has an AA section (policy of its own),
    # the subject taken from userid
    aa_svc = {"idp": {"endpoints": {"single_sign_on_service": [[S.IDP_SSO_POST, S.BINDING_POST]]},
                      "policy": {"default": {"lifetime": {"minutes": 15}, "attribute_restrictions": None}}},
              "aa": {"endpoints": {"attribute_service": [["https://idp.verif.example/aa", S.BINDING_SOAP]]},
                     "policy": {"default": {"lifetime": {"minutes": 5}, "attribute_restrictions": None, "name_form": NAMEFORMAT_URI_}}}}
    idp_aa = {"role": "idp", "svc": {}, "top": {"service": aa_svc}}
    ident = {"mail": ["a@example.org", "b@example.org"], "givenName": ["A"], "sn": ["B"], "customAttribute": ["c"]}
    restr = [None, [], [{"friendly_name": "mail"}], [{"friendly_name": "mail", "values": ["a@example.org"]}],
             [{"name": "urn:oid:2.5.4.42", "name_format": NAMEFORMAT_URI_, "friendly_name": "givenName"}, {"friendly_name": "sn", "values": ["no-such-value"]}],
             [{"friendly_name": "nothing-the-user-has"}]]
    for cfg in (idp0, idp_aa):
        for i, r in enumerate(restr):
            for subj in ({"name_id": nid}, {"userid": "user-1"}):
                for sa in (False, True):
                    a = dict({"identity": copy.deepcopy(ident), "in_response_to": "id-r5b", "destination": S.SP_ACS_POST, "sp_entity_id": S.SP_ID,
                              "sign_assertion": sa, "sign_response": False}, **copy.deepcopy(subj))
                    if r is not None:
                        a["attributes"] = copy.deepcopy(r)
                    yield doc("attribute_response", cfg, a)
    # create_authn_response where the requester's metadata matters: published name-id formats with the identifier derived
    # from userid, and required attributes the user lacks under fail_on_missing_requested (answered by an error response)
    for formats in (NAMEID_FORMATS[:1], NAMEID_FORMATS[1:3], [NAMEID_FORMATS[2]]):
        for pol in (None, {"format": NAMEID_FORMATS[1], "sp_name_qualifier": S.SP_ID}, {"format": NAMEID_FORMATS[2]}):
            a = dict(copy.deepcopy(base), userid="user-1", authn={"class_ref": ACCR[0]}, sign_response=False, sign_assertion=False)
            if pol:
                a["name_id_policy"] = pol
            yield doc("authn_response", {"role": "idp", "svc": {}, "top": {"sp_formats": formats}}, a)
    for fail in (True, False):
        for sr in (False, True):
            for ident2 in ({"mail": ["a@example.org"]}, {"givenName": ["A"]}, {}):
                pol = {"default": {"lifetime": {"minutes": 15}, "attribute_restrictions": None, "fail_on_missing_requested": fail}}
                a = dict(copy.deepcopy(base), identity=ident2, name_id=nid, authn={"class_ref": ACCR[0]}, sign_response=sr, sign_assertion=False)
                yield doc("authn_response", {"role": "idp", "svc": {"policy": pol}, "top": {"sp_req_attrs": True}}, a)
    # create_authn_request: requested_authn_context given by the CALLER as an element / a mapping / something else, with and
    # without one in the configuration; name_id_policy handed in (element, None) next to the options it overrides; an
    # argument of the wrong type for scoping / conditions / subject (refused with ValueError)
    sp_rac = {"role": "sp", "svc": {"requested_authn_context": {"authn_context_class_ref": [ACCR[1]], "comparison": "minimum"}}, "top": {}}
    sp_nip = {"role": "sp", "svc": {"name_id_policy_format": NAMEID_FORMATS[1], "name_id_format_allow_create": True}, "top": {}}
    racs = [{"as": "element", "authn_context_class_ref": [ACCR[0]], "comparison": "exact"}, {"as": "element", "authn_context_class_ref": [ACCR[0], ACCR[3]], "comparison": None},
            {"as": "element", "authn_context_class_ref": [], "comparison": "better"},
            {"authn_context_class_ref": [ACCR[0]]}, {"authn_context_class_ref": [], "comparison": "exact"}, {"comparison": "maximum"},
            {"as": "other", "value": [ACCR[0]]}, {"as": "other", "value": ACCR[0]}, {"as": "other", "value": 7}]
    for cfg in (sp0, sp_rac):
        for rac in racs:
            for sign in (False, True):
                c = doc("authn_request", cfg, {"destination": S.IDP_SSO_POST, "binding": S.BINDING_POST, "sign": sign, "requested_authn_context": copy.deepcopy(rac)})
                if rac.get("as") == "element" and not rac["authn_context_class_ref"]:
                    c["unconstrained"] = "a RequestedAuthnContext element without any class or declaration reference, handed in by the caller, is not a valid argument"
                yield c
    nips = [{"format": NAMEID_FORMATS[1]}, {"format": NAMEID_FORMATS[0], "allow_create": "true"}, {"format": NAMEID_FORMATS[2], "sp_name_qualifier": S.SP_ID, "allow_create": "false"}, {}, None]
    for cfg in (sp0, sp_nip):
        for nip in nips:
            for extra in ({}, {"nameid_format": NAMEID_FORMATS[2]}, {"vorg": "urn:mace:example.com:it:tek"}, {"allow_create": "true"}):
                yield doc("authn_request", cfg, dict({"destination": S.IDP_SSO_POST, "binding": S.BINDING_POST, "sign": False, "name_id_policy_arg": copy.deepcopy(nip)}, **extra))
    for param in ("scoping", "conditions", "subject"):
        for bad in ({"proxy_count": "1"}, "text", [S.IDP_ID], 5):
            yield doc("authn_request", sp0, {"destination": S.IDP_SSO_POST, "binding": S.BINDING_POST, "sign": False, "wrong_type": [param, bad]})
        for falsy in (None, {}, "", 0):
            yield doc("authn_request", sp0, {"destination": S.IDP_SSO_POST, "binding": S.BINDING_POST, "sign": False, "wrong_type": [param, falsy]})
    # create_authz_decision_query_using_assertion: action as a list / one string / omitted
    for action, mode in (([["read", None]], "list"), ([["read", None], ["write", None]], "list"), ([["read", None]], "str"), ([], "omitted")):
        for sign in (False, True):
            c = doc("authz_decision_query", sp0, {"destination": "https://idp.verif.example/pdp", "action": action, "action_mode": mode, "resource": "urn:r", "subject": nid,
                                                  "via_assertion": True, "sign": sign})
            if mode == "omitted":
                c["unconstrained"] = "the builder documents that at least one action has to be given"
            yield c
    # create_logout_request: subject_id on an IdP (looked up in the user cache), session indexes as elements / strings / mixed
    for cfg in (sp0, idp0):
        for si in (["si-1"], ["si-1", "si-2", "si-3"], [{"el": "si-1"}], [{"el": "si-1"}, "si-2", {"el": "si-3"}], []):
            for subj in ({"name_id": nid}, {"subject_id": "subject-1"}):
                a = dict({"destination": S.IDP_SLO_POST, "issuer_entity_id": S.IDP_ID, "session_indexes": copy.deepcopy(si), "sign": False}, **copy.deepcopy(subj))
                if cfg is idp0 and "subject_id" in subj:
                    a["idp_cache_lookup"] = True
                yield doc("logout_request", cfg, a)
    # a message callback (msg_cb) that hands the request object on
    for b, a in (("authn_request", {"destination": S.IDP_SSO_POST, "binding": S.BINDING_POST}),
                 ("logout_request", {"destination": S.IDP_SLO_POST, "issuer_entity_id": S.IDP_ID, "name_id": nid}),
                 ("attribute_query", {"destination": "https://idp.verif.example/aa", "name_id": nid})):
        for sign in (False, True):
            yield doc(b, {"role": "sp", "svc": {}, "top": {}, "msg_cb": "identity"}, dict(copy.deepcopy(a), sign=sign))


BUILDERS["authn_request_response"] = (["idp"], True, ga_authn_request_response, call_authn_request_response, 2)
BUILDERS["assertion_id_response2"] = ([], True, None, call_assertion_id_response2, 0)  # grids only
BUILDERS["helper"] = ([], True, None, call_helper, 0)  # grids only


def gen_cases(rng, tier):
    for c in r5_metadata_grid():
        yield c
    for c in r5_helper_grid():
        yield c
    for c in r5_call_grid():
        yield c
    for c in typed_grid():
        yield c
    for c in falsy_cases():
        yield c
    for c in hist_cases(rng, 40 if tier == "quick" else 600):
        yield c
    for c in maximal_cases():
        yield c
    for c in enc_grid():
        yield c
    for c in farg_grid():
        yield c
    for c in forms_grid():
        yield c
    for c in md_grid():
        yield c
    for c in arg_grid():
        yield c
    for c in error_grid(rng, 60 if tier == "quick" else 1500):
        yield c
    for c in lex_cases(rng, 30 if tier == "quick" else 400):
        yield c
    for c in dns_cases(rng, 150 if tier == "quick" else 3000):
        yield c
    for c in order_cases(rng, 8 if tier == "quick" else 80):
        yield c
    for c in doc_cases(rng, tier):
        yield c


def shrink(case):
    if case["op"] == "hist":
        for i in range(len(case["steps"])):
            c = copy.deepcopy(case)
            c["steps"].pop(i)
            if any("call" in s for s in c["steps"]):
                yield c
        return
    if case["op"] != "doc":
        return
    for k in list(case["args"]):
        c = copy.deepcopy(case)
        del c["args"][k]
        yield c
    cfg = case["cfg"]
    for sect in ("svc", "top"):
        if len(cfg.get(sect, {})) > 1:
            c = copy.deepcopy(case)
            c["cfg"][sect] = {}
            yield c
        for k in list(cfg.get(sect, {})):
            c = copy.deepcopy(case)
            del c["cfg"][sect][k]
            yield c
    ident = case["args"].get("identity")
    if isinstance(ident, dict):
        for k, v in ident.items():
            if isinstance(v, list) and len(v) > 1:
                for i in range(len(v)):
                    c = copy.deepcopy(case)
                    c["args"]["identity"][k].pop(i)
                    yield c
    if cfg.get("role") == "md":
        for r in list(cfg["service"]):
            if len(cfg["service"]) > 1:
                c = copy.deepcopy(case)
                del c["cfg"]["service"][r]
                yield c
            for k in list(cfg["service"][r]):
                if k == "endpoints":
                    continue
                c = copy.deepcopy(case)
                del c["cfg"]["service"][r][k]
                yield c


def search_cases(rng, broken, build_log):
    """A proof obligation broke (typically C13_order_table after a change of a class table or of an XSD sequence):
    look for a concrete instance whose serialisation the content model rejects."""
    for c in order_cases(rng, 60):
        yield c
