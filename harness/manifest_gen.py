#!/venv/bin/python
"""Regenerates /verif/MANIFEST.json from the registry below (run after adding a property)."""
import json
import os

ROOT = os.path.dirname(os.path.dirname(os.path.abspath(__file__)))

# property id -> (technique, level text, level note, design ref)
SP_NOTE = ("Trusted: Lean kernel (+leanchecker in the thorough tier); propext/Classical.choice/Quot.sound; the xmlsec1 stand-in "
           "(harness/standin) and the ideal-crypto abstraction of signatures/encryption in the model; the independent "
           "Response writer harness/spflow.py and the canonicalisation of the outcome; the virtual clock. Exercised, not "
           "modelled: XML parsing, pysaml2's object model, schema / xmldsig-profile validators (C02), key selection (C03).")

CLAIMED = {
    "C01": (
        "Lean 4 theorem over the shared SP model + exhaustive truth-table correspondence with the real SP",
        "Machine-checked proof (Lean 4) about Sp.process, the executable model of parse_authn_request_response -> "
        "_parse_response (two forced passes) -> loads/verify/_assertion: for every configuration, clock and message, identity "
        "implies that every signature present verifies and the Response/assertions carry what want_response_signed / "
        "want_assertions_signed / want_assertions_or_response_signed demand (C01_sound); the option defaults are regenerated "
        "from client_base.py and pinned by C01_defaults. The completeness half is stated (C01_complete_full) and decided by the "
        "run: the complete table (9 option settings x 4 x 4 signature states x plain/encrypted x 3 bindings = 864 cells, plus "
        "PAOS, undecryptable, random content, cross-dimension defects) is executed against the real Saml2Client through the "
        "stand-in, model and implementation must agree on every cell, and the Lean spec (sound + complete) is evaluated on the "
        "implementation's own outcome.",
        SP_NOTE, "DESIGN.md section 6 C01 + shared SP model"),
    "C02": (
        "Lean 4 theorem over a tree model of xmlsec1 verification + pysaml2's validators (partial, with machine-checked counterexample) + per-call differential correspondence on a systematic XML-surgery stream",
        "Machine-checked proof (Lean 4), PARTIAL: Model/Xsw.lean models the document as a tree with ideal digest/signature leaves, the "
        "stand-in's xmlsec1 semantics (ID registration by node name, start node, FIRST ds:Signature in document order, same-document "
        "references, enveloped transform) and SecurityContext._check_signature (object model keeps the LAST singleton child; nine profile "
        "validators; schema verdict as input). C02_covered_partial: for every document, if the check accepts an element whose own single "
        "Signature child is the first Signature below it (OwnSigFirst) then the SignatureValue is the key's signature over that SignedInfo, "
        "whose single Reference names the element's ID and digests exactly the element minus that signature. C02_counterexample proves the "
        "unrestricted statement false (signature wrapping, known finding). Every run applies the quantifier's surgery (8 carriers x "
        "Response/Assertion x ID policy x signature policy, duplicate singleton children, Reference/transform/c14n rewrites, extra "
        "Reference/Object, splices, edits, random tree surgery; ~960 variants quick) to genuinely signed messages, runs the real SP, "
        "compares EVERY _check_signature call with the model on the abstract tree of that call's document, and evaluates the Lean spec "
        "(rejected, or reported data equal to a genuinely signed message's) on the end-to-end outcome.",
        "Trusted: Lean kernel; propext/Classical.choice/Quot.sound; the stand-in's reading of xmlsec1 (cannot be validated against the real "
        "binary here); ideal digests/signatures; the harness's conversion of documents to abstract trees (DigestValue/SignatureValue texts "
        "mapped through the genuine signing events); schema validity of the re-serialised item taken from the real xmlschema run; the "
        "hypothesis of the theorem that the registered ID resolves to the parsed element. Plain (not encrypted) assertions in the surgery stream.",
        "DESIGN.md section 6 C02"),
    "C12": (
        "Lean 4 proof over an executable model of pysaml2's generic object (de)serialiser and a regenerated 567-class table + all-class correspondence",
        "Machine-checked proof (Lean 4), 20 obligations: round trip, idempotent second serialisation, schema order, unknown-content "
        "preservation and entity refusal are proved for all class tables, instances (any depth / fan-out) and documents under the decidable "
        "side conditions treeWf and wireClean; the full statement carries _partial plus six machine-checked counterexamples for the recorded "
        "known findings; C12_table_wf (chunked decide +kernel) is re-proved from the current source on every run over all 567 element "
        "classes. Every run round-trips random instances of ALL classes through the real code, compares member by member with the model and "
        "checks independently rendered documents (prefixes, attribute order, comments, CDATA), unknown content and entity-declaring input.",
        "Trusted: Lean kernel (+leanchecker thorough); propext/Classical.choice/Quot.sound; translator harness/translate/classtable.py "
        "(module introspection + AST recognition of setdefault prologues); harness (independent XML writer, reflection, classifier). The "
        "character level of XML (escaping, prefixes, CDATA, entity refusal) is xml.etree/expat/defusedxml: exercised, modelled only as `wire`.",
        "DESIGN.md section 6 C12"),
    "C03": (
        "Lean 4 theorems over an executable key-selection model + exhaustive differential correspondence through the xmlsec1 stand-in",
        "Machine-checked proof (Lean 4): for every metadata shape, issuer, signing key and embedded KeyInfo, the model of MetaData.certs + "
        "SecurityContext._check_signature + the xmlsec1 command line (--enabled-key-data raw-x509-cert) + Request._do_redirect_sig_check "
        "accepts a signature only if the signing key is published for signing (or without use) under the claimed issuer, or "
        "only_use_keys_in_metadata is off, nothing is bound to that issuer and the key is that of an embedded certificate; corollaries for "
        "encryption-only/other-member/own/attacker keys, unknown issuer, KeyInfo-independence under the default, Redirect metadata-only; a "
        "counter-theorem shows the xmlsec flag is necessary (15 theorems). The option default and the role list of MetaData.certs are "
        "regenerated each run. Every run enumerates the complete 6x3x4x2x6 product (864 cells) plus default-config column, corrupted "
        "signatures, issuer look-alikes and random metadata shapes against the real Saml2Client/Server/Entity and evaluates the Lean spec on "
        "the implementation's own accept/refuse.",
        "Trusted: Lean kernel (+leanchecker thorough); propext/Classical.choice/Quot.sound; the stand-in's key-selection model (embedded key "
        "preferred unless restricted) and its real RSA; ideal signatures; harness (metadata writer, message builder, matching of certificate "
        "files handed to the stand-in, translator harness/translate/keys.py); mdstore XML->dict conversion exercised, not modelled. Single source.",
        "DESIGN.md section 6 C03"),
    "C10": (
        "Lean 4 theorems over an executable model of release filtering + regenerated entity-category tables + differential correspondence",
        "Machine-checked proof (Lean 4), 24 obligations: subset, multiplicity, permitted (restrictions / entity categories / requested "
        "attributes), missing-required error, policy precedence and model-meets-spec are proved for every identity, policy, metadata and "
        "regex match matrix for Policy.filter/restrict/apply_policy/setup_assertion(best_effort=False)/create_attribute_response; "
        "create_authn_response is proved only under restrictMissing = false, with C10_response_counterexample for the known finding "
        "C10/missing-required-releases-unfiltered. Entity-category tables are regenerated each run (three table lemmas). Every run executes "
        "model and real code on ~3.8k generated identities x policies x requester metadata; the caller-identity-unaltered clause is decided "
        "by a deep before/after comparison in the harness.",
        "Trusted: Lean kernel (+leanchecker thorough); propext/Quot.sound; harness; metadata XML -> mdstore lookups; str.lower and re.match "
        "evaluated by Python and passed as parameters; attribute-converter tables (C17); translator entity_categories.py (table contents "
        "beyond the pinned facts are the policy itself). Identity values are str or list of str.",
        "DESIGN.md section 6 C10"),
    "C15": (
        "Lean 4 theorems over an executable model of the redirect signer/verifier/receiver with ideal signatures and a parametric URL encoder; regenerated tables; byte-exact differential run",
        "Machine-checked proof (Lean 4), ~30 obligations: for every message value, relay state, key, received dictionary and certificate "
        "list, every URL encoder that is injective and never emits '&' or '=' (the executable quote_plus model is proved lawful), and the "
        "algorithm/order tables of the current source (regenerated each run, proved equal to the expected ones): a signed URL verifies under "
        "the signer's certificate; the signed octet string is injective; any change to message value or direction, RelayState, SigAlg, the "
        "signature octets or the key fails; disallowed algorithms are refused; an unsupported SigAlg is never verified and is refused by the "
        "receiver. Every run executes the real signer, verifier and Server.parse_authn_request with committed RSA keys on ~8.5k generated and "
        "mutated cases; signed octets are compared byte for byte; the Lean spec is evaluated on the implementation's own output.",
        "Trusted: Lean kernel (+leanchecker thorough); propext/Classical.choice/Quot.sound; ideal signatures (real RSA octets identified with "
        "(key, digest, message) terms by trial verification); translator harness/translate/redirect_sig.py; harness. 'Change to the Signature "
        "parameter' means the octets it denotes (base64 leniency documented by C15_signature_text_literal_counterexample). deflate/parse_qsl belong to C14.",
        "DESIGN.md section 6 C15"),
    "C04": (
        "Lean 4 theorems (induction over audience/confirmation lists) over the shared SP model + small-scope exhaustive correspondence",
        "Machine-checked proof (Lean 4): for audience structures of any size, any Destination/Recipient strings and any "
        "configuration, identity implies every non-empty AudienceRestriction of every visible assertion names the own entityID "
        "(after str.strip), a present Destination on a browser binding is an own endpoint for that binding, and with conversation "
        "info every used bearer Recipient is the entityID or a consumer URL (C04_audience, C04_destination, C04_recipient, "
        "C04_exact, C04_model_meets_spec). Every run enumerates all audience shapes up to 2 (thorough: 3) restrictions x 1-2 "
        "audiences over {own, other, look-alike, padded}, the full Destination x Recipient x conv_info x binding product and "
        "random look-alikes against the real SP; model = implementation on every case; Lean spec evaluated on the implementation's outcome.",
        SP_NOTE, "DESIGN.md section 6 C04"),
    "C05": (
        "Lean 4 theorems (linear arithmetic over unbounded Int clocks) over the shared SP model + exhaustive boundary sweeps",
        "Machine-checked proof (Lean 4): for every clock value, skew and message, identity implies now <= NotOnOrAfter+skew, "
        "NotBefore <= now+skew and NotBefore <= NotOnOrAfter for Conditions, for every used bearer SubjectConfirmationData and for "
        "SessionNotOnOrAfter, |now-IssueInstant| <= 1 day+skew, and the reported expiry is SessionNotOnOrAfter when present else "
        "Conditions NotOnOrAfter (C05_windows/_expired/_premature/_inverted/_stale_instant/_reported_expiry/_model_meets_spec_sound). "
        "Completeness (strictly inside => accepted) is stated (C05_inside_accepted_full) and decided by the run. Each of the six "
        "timestamps is swept over 29 offsets (incl. +-skew+-1/2 s, +-1 day+-skew+-1/2 s) x skew {unset,0,60,180} x two syntaxes "
        "under a frozen virtual clock against the real SP; combinations sampled.",
        SP_NOTE + " time.strptime/calendar.timegm exercised, not modelled.", "DESIGN.md section 6 C05"),
    "C06": (
        "Lean 4 theorems over the shared SP model + regenerated status-code table lemmas + exhaustive product correspondence",
        "Machine-checked proof (Lean 4): for outstanding sets of any size and any message, identity over a browser binding "
        "(unsolicited not allowed) implies InResponseTo is outstanding, the returned came_from is the stored one and every "
        "SubjectConfirmationData InResponseTo of every visible (plain or decrypted) assertion equals it; identity implies status "
        "Success, version 2.0, >=1 assertion, exactly one AuthnStatement and a Subject (C06_correlated, C06_shape, C06_status, "
        "C06_version, C06_model_meets_spec). STATUSCODE2EXCEPTION and samlp.STATUS_* are regenerated into Gen/StatusCodes.lean every "
        "run: C06_table_complete/_names/_functional/_size/_views_agree (by decide) pin 21 entries, CamelCase class names, StatusError "
        "base. The run enumerates IRT x SC-IRT x unsolicited x outstanding x binding, every status code, versions, assertion / "
        "AuthnStatement counts, subject presence, encrypted carriers, data-less confirmations against the real SP and compares the "
        "raised exception's class name with the table.",
        SP_NOTE, "DESIGN.md section 6 C06"),
    "C07": (
        "Lean 4 theorems over an executable model of request reception + regenerated dispatch table + exhaustive differential correspondence",
        "Machine-checked proof (Lean 4): for every configuration, metadata certificate list, message and clock the model of "
        "Entity._parse_request/Request._loads/_verify/correctly_signed_message/verify_redirect_signature processes a request only with "
        "the signature the configuration calls for (enveloped for POST/SOAP, detached over SAMLRequest+RelayState+SigAlg for Redirect, "
        "made with a metadata key of the issuer), never with a bad enveloped signature unless certificate-only validation was opted "
        "into, only with version 2.0, a Destination among the configured endpoints (when any) and an IssueInstant within a day plus "
        "skew (15 theorems). The request-class dispatch table is regenerated each run and its well-formedness re-proved. Every run "
        "executes model and real Server on the complete quantifier table (38 400 cells) plus directed/random cases and evaluates the "
        "Lean specification on the implementation's own outcome.",
        "Trusted: Lean kernel; propext/Quot.sound/Classical.choice; xmlsec1 stand-in and ideal-signature abstraction; the harness's "
        "independent request writer; translator introspection. Exercised, not modelled: XML parsing, profile validators (C02), "
        "MetaData.certs (C03), certificate chain validation. Certificate-only mode is read as 'requires signed requests, promises presence not validity'.",
        "DESIGN.md section 6 C07"),
    "C08": (
        "Lean 4 theorems over an executable routing model + differential correspondence with the real code",
        "Machine-checked proof (Lean 4): for every metadata shape, binding list, URL and index the model of "
        "pick_binding/response_args/_sso_location/do_logout/verify_return returns only registered (binding, location) "
        "pairs, honours URL/index, refuses unregistered ones (15 theorems, no sorry, axioms audited each run). The model "
        "is hand-written; every run executes it and the real Server/Saml2Client/DiscoveryServer on the same generated "
        "metadata and requests and evaluates the Lean specification on the implementation's own answer.",
        "Trusted: Lean kernel; propext/Quot.sound; the harness (metadata writer, request generator, destination "
        "extraction from prepared HTTP info); mdstore XML->dict conversion exercised but not modelled; single source.",
        "DESIGN.md section 6 C08",
    ),
    "C20": (
        "Lean 4 theorems (induction over arbitrary schedules) over an executable model of get_signer/sign/verify + real threads under a deterministic gate scheduler",
        "Machine-checked proof (Lean 4): for every set of threads (any number, any programs, threads may share an entity), every "
        "algorithm table and every schedule, each redirect signature the model produces is the caller's own key over the caller's "
        "own octets with the URL's digest, hence verifies under the caller's certificate and under no other key (7 theorems incl. "
        "model_meets_spec and the counterexample for the pre-fix shared-key design). The model is executed on every run beside the "
        "real code: real threads for Saml2Client/Server entities with distinct keys, gated at RSACrypto.get_signer / RSASigner.sign / "
        "RSASigner.verify, all interleavings of 2 and (thorough) 3 threads; each produced Signature is verified against every entity "
        "certificate and the Lean spec is evaluated on the implementation's own output.",
        "Trusted: Lean kernel (+leanchecker thorough); propext/Quot.sound; harness gate scheduler and its own RSA verification of the "
        "URL; ideal-crypto reading of RSA/SHA; algorithm tables read from the running code. Preemption inside a gated call is not explored.",
        "DESIGN.md section 6 C20"),
}

REASON_PENDING = "check under construction (DESIGN.md section 9); not claimed yet"


def main():
    props = [json.loads(l) for l in open(os.path.join(ROOT, "properties.jsonl"))]
    checks = []
    na = []
    for p in props:
        pid = p["id"]
        if pid in CLAIMED:
            tech, text, note, ref = CLAIMED[pid]
            checks.append({
                "property_id": pid,
                "quick_cmd": "./check %s --tier quick" % pid,
                "thorough_cmd": "./check %s --tier thorough" % pid,
                "evidence_file": "evidence/%s.json" % pid,
                "replay_cmd_template": "./check %s --replay {path}" % pid,
                "engine": "lean4-proof+correspondence",
                "level_claimed": {"category": "proof", "text": text, "design_ref": ref},
                "level_note": note,
                "technique": tech,
            })
        else:
            na.append({"property_id": pid, "reason": REASON_PENDING})
    m = {
        "version": 1,
        "setup_cmd": "cd lean && lake build",
        "hooks": {
            "guard": "PYSAML2_VERIF",
            "enable": "no source hooks: the harness patches module attributes at run time (virtual clock, xmlsec1 "
                      "stand-in, stub transport, thread gates); PYSAML2_VERIF=1 is set by the runner for documentation only",
            "baseline_off_cmd": "cd /repo && /venv/bin/python -m pytest -ra -q -p no:cacheprovider --timeout=900 "
                                "--continue-on-collection-errors",
            "source_commits": [],
            "add_only": True,
        },
        "engines": [{
            "name": "lean4-proof+correspondence",
            "path": "harness/runner.py",
            "serves_properties": sorted(CLAIMED),
            "kind_free_text": "Lean 4 theorems (lake build + #print axioms audit) over executable models; models tied to "
                              "/repo by regenerated tables and by differential runs through a JSON line-protocol driver",
        }],
        "checks": checks,
        "not_applicable": na,
        "notes": "See DESIGN.md. Exit 0 held / 1 violation / 2 infrastructure failure. KNOWN_FINDINGS.jsonl lists recorded defects.",
    }
    with open(os.path.join(ROOT, "MANIFEST.json"), "w") as f:
        json.dump(m, f, indent=1)
    print("claimed:", sorted(CLAIMED), "pending:", len(na))


if __name__ == "__main__":
    main()
