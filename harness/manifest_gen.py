#!/venv/bin/python
"""Regenerates /verif/MANIFEST.json from the registry below (run after adding a property)."""
import json
import os

ROOT = os.path.dirname(os.path.dirname(os.path.abspath(__file__)))

# property id -> (technique, level text, level note, design ref)
SP_NOTE = ("Trusted: Lean kernel (+leanchecker in the thorough tier); propext/Classical.choice/Quot.sound; the xmlsec1 stand-in "
           "(harness/standin) and the ideal-crypto abstraction of signatures/encryption in the model; the independent "
           "Response writer harness/spflow.py and the canonicalisation of the outcome; the virtual clock. Exercised, not "
           "modelled: XML parsing, pysaml2's object model, schema / xmldsig-profile validators (C02), key selection (C03).")

CLAIMED = {
    "C01": (
        "Lean 4 theorem over the shared SP model + exhaustive truth-table correspondence with the real SP",
        "Machine-checked proof (Lean 4) about Sp.process, the executable model of parse_authn_request_response -> "
        "_parse_response (two forced passes) -> loads/verify/_assertion: for every configuration, clock and message, identity "
        "implies that every signature present verifies and the Response/assertions carry what want_response_signed / "
        "want_assertions_signed / want_assertions_or_response_signed demand (C01_sound); the option defaults are regenerated "
        "from client_base.py and pinned by C01_defaults. The completeness half is stated (C01_complete_full) and decided by the "
        "run: the complete table (9 option settings x 4 x 4 signature states x plain/encrypted x 3 bindings = 864 cells, plus "
        "PAOS, undecryptable, random content, cross-dimension defects) is executed against the real Saml2Client through the "
        "stand-in, model and implementation must agree on every cell, and the Lean spec (sound + complete) is evaluated on the "
        "implementation's own outcome.",
        SP_NOTE, "DESIGN.md section 6 C01 + shared SP model"),
    "C02": (
        "Lean 4 theorem over a tree model of xmlsec1 verification + pysaml2's validators (partial, with machine-checked counterexample) + per-call differential correspondence on a systematic XML-surgery stream",
        "Machine-checked proof (Lean 4), PARTIAL: Model/Xsw.lean models the document as a tree with ideal digest/signature leaves, the "
        "stand-in's xmlsec1 semantics (ID registration by node name, start node, FIRST ds:Signature in document order, same-document "
        "references, enveloped transform) and SecurityContext._check_signature (object model keeps the LAST singleton child; nine profile "
        "validators; schema verdict as input). C02_covered_partial: for every document, if the check accepts an element whose own single "
        "Signature child is the first Signature below it (OwnSigFirst) then the SignatureValue is the key's signature over that SignedInfo, "
        "whose single Reference names the element's ID and digests exactly the element minus that signature. C02_counterexample proves the "
        "unrestricted statement false (signature wrapping, known finding). Every run applies the quantifier's surgery (8 carriers x "
        "Response/Assertion x ID policy x signature policy, duplicate singleton children, Reference/transform/c14n rewrites, extra "
        "Reference/Object, splices, edits, random tree surgery; ~960 variants quick) to genuinely signed messages, runs the real SP, "
        "compares EVERY _check_signature call with the model on the abstract tree of that call's document, and evaluates the Lean spec "
        "(rejected, or reported data equal to a genuinely signed message's) on the end-to-end outcome.",
        "Trusted: Lean kernel; propext/Classical.choice/Quot.sound; the stand-in's reading of xmlsec1 (cannot be validated against the real "
        "binary here); ideal digests/signatures; the harness's conversion of documents to abstract trees (DigestValue/SignatureValue texts "
        "mapped through the genuine signing events); schema validity of the re-serialised item taken from the real xmlschema run; the "
        "hypothesis of the theorem that the registered ID resolves to the parsed element. Plain (not encrypted) assertions in the surgery stream.",
        "DESIGN.md section 6 C02"),
    "C12": (
        "Lean 4 proof over an executable model of pysaml2's generic object (de)serialiser and a regenerated 567-class table + all-class correspondence",
        "Machine-checked proof (Lean 4), 20 obligations: round trip, idempotent second serialisation, schema order, unknown-content "
        "preservation and entity refusal are proved for all class tables, instances (any depth / fan-out) and documents under the decidable "
        "side conditions treeWf and wireClean; the full statement carries _partial plus six machine-checked counterexamples for the recorded "
        "known findings; C12_table_wf (chunked decide +kernel) is re-proved from the current source on every run over all 567 element "
        "classes. Every run round-trips random instances of ALL classes through the real code, compares member by member with the model and "
        "checks independently rendered documents (prefixes, attribute order, comments, CDATA), unknown content and entity-declaring input.",
        "Trusted: Lean kernel (+leanchecker thorough); propext/Classical.choice/Quot.sound; translator harness/translate/classtable.py "
        "(module introspection + AST recognition of setdefault prologues); harness (independent XML writer, reflection, classifier). The "
        "character level of XML (escaping, prefixes, CDATA, entity refusal) is xml.etree/expat/defusedxml: exercised, modelled only as `wire`.",
        "DESIGN.md section 6 C12"),
    "C03": (
        "Lean 4 theorems over an executable key-selection model + exhaustive differential correspondence through the xmlsec1 stand-in",
        "Machine-checked proof (Lean 4): for every metadata shape, issuer, signing key and embedded KeyInfo, the model of MetaData.certs + "
        "SecurityContext._check_signature + the xmlsec1 command line (--enabled-key-data raw-x509-cert) + Request._do_redirect_sig_check "
        "accepts a signature only if the signing key is published for signing (or without use) under the claimed issuer, or "
        "only_use_keys_in_metadata is off, nothing is bound to that issuer and the key is that of an embedded certificate; corollaries for "
        "encryption-only/other-member/own/attacker keys, unknown issuer, KeyInfo-independence under the default, Redirect metadata-only; a "
        "counter-theorem shows the xmlsec flag is necessary (15 theorems). The option default and the role list of MetaData.certs are "
        "regenerated each run. Every run enumerates the complete 6x3x4x2x6 product (864 cells) plus default-config column, corrupted "
        "signatures, issuer look-alikes and random metadata shapes against the real Saml2Client/Server/Entity and evaluates the Lean spec on "
        "the implementation's own accept/refuse.",
        "Trusted: Lean kernel (+leanchecker thorough); propext/Classical.choice/Quot.sound; the stand-in's key-selection model (embedded key "
        "preferred unless restricted) and its real RSA; ideal signatures; harness (metadata writer, message builder, matching of certificate "
        "files handed to the stand-in, translator harness/translate/keys.py); mdstore XML->dict conversion exercised, not modelled. Single source.",
        "DESIGN.md section 6 C03"),
    "C09": (
        "Lean 4 proof over an executable model of Server.create_authn_response composed with the shared SP model; regenerated defaults/allow-list table; real IdP -> independent XML reader -> real SP",
        "Machine-checked proof (Lean 4), 24 obligations: scoping (issuer, single audience = requester, bearer Recipient/InResponseTo/expiry = "
        "clock + policy lifetime for the requester, Conditions window, signatures and algorithms by argument > configuration > default) is "
        "proved for all configurations, arguments, policy dictionaries, identifier stores and clocks; C09_end_to_end: the created Response fed "
        "to Sp.process yields identity with exactly the reported issuer/NameID/came_from/expiry/attributes for every SP satisfying the "
        "decidable precondition e2ePre; the NameID-format clause is proved under noStoredReuse, the full statement refuted by a "
        "machine-checked counterexample (known finding C09/stored-nameid-format-reused). Defaults and allow-lists are regenerated each run. "
        "Every run creates ~1.5k Responses with the real Server under the virtual clock, reads them with an independent xml.etree reader, "
        "compares with the model, and feeds them to a real SP built from the same metadata.",
        "Trusted: Lean kernel (+leanchecker thorough); propext/Classical.choice/Quot.sound; xmlsec1 stand-in and ideal crypto; the independent "
        "XML reader in c09.py; released attributes and name mapping are parameters (C10/C17), checked by the end-to-end comparison; random "
        "identifiers as fresh-value parameters; translators idp_defaults.py/spdefaults.py. Encryption/pefim branches belong to C16.",
        "DESIGN.md section 6 C09"),
    "C11": (
        "Lean 4 theorems (invariants by induction over arbitrary operation histories) over a state-machine model of the metadata store + differential correspondence on whole histories",
        "Machine-checked proof (Lean 4), 40 theorems: for every document, store, clock and history of load / reload / lookup steps with "
        "arbitrary source and MDQ answers, the model serves exactly the first current, SAML-2.0-supporting occurrence of an entityID per "
        "source (iff), returns exactly the published endpoints / certificates by use / requested attributes / categories / registration info "
        "(iff), lets the first configured source win in every lookup, leaves the store unchanged by a load/reload failing at any source k, "
        "and (reference policy) serves only authentic documents, serves nothing after a failed MDQ refresh and never adds on failure; every "
        "stored entry is justified by a document of the history. The model of the pinned code meets the spec on every history satisfying the "
        "decidable side condition cleanRun; the full statement is refuted by two witnesses (known findings: unsigned document accepted despite "
        "certificate; MDQ entry stored before verification). Every run executes 372 (thorough 4012) random histories (file, inline, remote via "
        "stubbed HTTP, MDQ via stubbed requests.get; signed/tampered/wrong-key documents through the stand-in; virtual clock) against the real "
        "MetadataStore, requires model = implementation on every observation and evaluates the Lean spec on the implementation's observations.",
        "Trusted: Lean kernel (+leanchecker thorough); propext/Quot.sound/Classical.choice; xmlsec1 stand-in and ideal crypto; XML -> saml2.md "
        "objects -> mdie.to_dict exercised, not modelled; the harness's document writer, canonicalisation and classifier. Generated documents "
        "are schema-valid; MDQ answers describe the requested entity; discovery-response extensions are covered under C08.",
        "DESIGN.md section 6 C11"),
    "C13": (
        "Lean 4 theorems over an executable XSD validator (regenerated schema tables) and a serialiser-order model (regenerated class rows) + differential correspondence with xmlschema and pysaml2; PARTIAL",
        "Machine-checked proof (Lean 4), PARTIAL by construction: the Brzozowski-derivative matcher used for XSD content models decides "
        "regular-language membership for every expression and word (C13_derivative_correct); accepted documents have unique xs:IDs; for 68 "
        "element classes of saml/samlp/md/xmldsig/xmlenc every instance within the class cardinalities serialises to a child sequence its XSD "
        "content model accepts (C13_order_partial + C13_order_table by decide +kernel on tables regenerated from the shipped XSD files and "
        "the class tables each run). The universal claim over builder configurations is NOT proved (C13_full kept as def, two "
        "counterexamples): each run calls every public create_* builder and metadata generation on random valid configurations (~1.2k "
        "documents quick), validates every output with the Lean validator, with xmlschema over the shipped XSDs and with valid_instance, and "
        "compares the Lean validator with xmlschema on one-place mutants of the outputs. Seven known findings.",
        "Trusted: Lean kernel (+leanchecker thorough); propext/Classical.choice/Quot.sound; the two translators (own XSD reader, class-table "
        "introspection); harness XML-to-tree conversion; xmlschema 2.5.1 as second oracle (its known laxities excluded from the mutant stream); "
        "the stand-in plus a --list-transforms shim. Outside: the builders' option logic (explored, not proved); character-level XML; "
        "facets beyond enumeration/maxLength/finite patterns; message kinds not named by the statement.",
        "DESIGN.md section 6 C13"),
    "C14": (
        "Lean 4 theorems over byte-level executable models of the codecs and bindings (template regenerated from saml2.pack) + exact-output differential correspondence",
        "Machine-checked proof (Lean 4), 34 theorems: for all byte strings of any length base64, html.escape and quote_plus/urlencode "
        "round-trip and their outputs are inert; for every message, destination, RelayState and parameter name the HTTP-POST page is well "
        "formed, its event stream under the attribute scanner is the template's own with caller strings only as escaped attribute-value "
        "characters, and the receiver recovers message, RelayState and action exactly; redirect and artifact URLs deliver exactly the "
        "destination's own parameters plus the intended ones and unravel returns the message under the DEFLATE law, for every destination "
        "without '#' and without an empty query (full statements kept with counterexamples for the recorded findings); SOAP wrap/unwrap at "
        "tree level and string-splice level; artifacts decode to the index (0..255) and issuer they were created with, out-of-range indexes are "
        "refused. HTML templates and SOAP constants are regenerated from saml2.pack each run. Every run compares the Lean functions byte for "
        "byte with base64/html/urllib and with pack.*, Entity.apply_binding/unravel, use_http_artifact, parse_soap_enveloped_saml_thingy, "
        "create_artifact/artifact2destination (~5k cases) and evaluates the Lean spec on the implementation's output.",
        "Trusted: Lean kernel (+leanchecker thorough); propext/Classical.choice/Quot.sound; harness (generators, independent XML writer, "
        "html.parser/parse_qsl as receivers); translator formspec.py. Parameters rather than models: zlib raw DEFLATE, SHA-1, urlparse's "
        "netloc validation. The browser's HTML parser is replaced by the Lean scanner (part of the statement).",
        "DESIGN.md section 6 C14"),
    "C16": (
        "Lean 4 theorems over an executable model of the IdP's sign/encrypt pipeline (Entity._response, _encrypt_assertion certificate loop) and of the recipient's decryption (composed with the shared SP model); differential correspondence through real RSA-OAEP/AES via the xmlsec1 stand-in",
        "Machine-checked proof (Lean 4), 11 obligations: for every call (sign/encrypt flags as arguments or configuration, certificates "
        "from the request, from metadata or none, advice assertions, pefim) that createAuthnResponse answers, no clear copy of an "
        "assertion that was to be encrypted (nor of the advice) remains on the wire and the sealed form is addressed to a key of the "
        "recipient; every well-posed call is answered; signatures are applied in an order in which each still verifies after the later "
        "operations (sign assertion -> encrypt advice -> encrypt assertion -> sign response) and verify at the receiver; a recipient holding the "
        "right private key recovers exactly the issued identity, a recipient without it (C16_wrong_key) or a ciphertext/wrapped key with any "
        "bit changed (C16_corrupt) yields no identity; C16_model_meets_spec: the model satisfies the executable specification for every input. "
        "Two defects found by this check were repaired in /repo (130fd4d2, 9b391349); their inputs stay in corpus/C16 as regressions. "
        "Every run sends ~2.1k calls (complete product of flags x certificate sources x key sets x tamper positions, plus random) through the "
        "real Server.create_authn_response and Saml2Client.parse_authn_request_response; the wire is inspected with xml.etree and a marker "
        "search, never with pysaml2's own classes; the Lean spec is evaluated on the implementation's observation.",
        "Trusted: Lean kernel (+leanchecker thorough); propext/Quot.sound/Classical.choice; ideal encryption (a sealed value opens only "
        "under the matching key term; AES-GCM/RSA-OAEP of the stand-in are real but their strength is assumed); xmlsec1 replaced by the "
        "stand-in; harness. Response validation after decryption is the shared SP model (C01/C04/C05/C06).",
        "DESIGN.md section 6 C16"),
    "C17": (
        "Lean 4 proof over an executable model of the attribute converters; tables regenerated from saml2.attributemaps each run (decide +kernel lemmas); exhaustive + random differential correspondence",
        "Machine-checked proof (Lean 4), 17 obligations: for any string type, maps and list lengths the model of from_local/to_/ava_from/"
        "list_to_local satisfies specToWire, specToLocal and specRoundTrip (declared keys go out under the declared name/format/friendly name "
        "with exactly the values; known wire attributes come back under the map's local name with values in order, trimmed; unknown ones "
        "dropped or passed under the wire name when allowed; no attribute or value lost on a round trip) under the decidable side conditions "
        "sendSide/rtSide/distinctFormats; the full statements are refuted by machine-checked counterexamples for the three recorded findings; "
        "C17_bundled_wf is re-proved on the regenerated tables of the five bundled maps every run. Every run sends every (map, attribute) "
        "pair of the bundled maps and random custom map sets through the real converters in both directions and as round trips (~8.6k cases).",
        "Trusted: Lean kernel (+leanchecker thorough); propext/Quot.sound/Classical.choice; translator attrmaps.py; the injective Nat string "
        "code with lower/strip checked differentially against Python; harness incl. its finding classifier. XML serialisation of "
        "saml.Attribute exercised, not modelled; ASCII-only case folding.",
        "DESIGN.md section 6 C17"),
    "C18": (
        "Lean 4 proof over an executable model of saml2.ident (code/decode, IdentDB), Eptid and the code()-keyed store; step-by-step differential run on random operation histories",
        "Machine-checked proof (Lean 4), 18 obligations: encoding losslessness and injectivity for all five-field identifiers and all bytes; "
        "by an invariant over arbitrary histories the per-step specification (reversible, no value held twice, one persistent id per user, "
        "requester and qualifier, an operation changes only its own identifier, answers stable or fresh and issued for the requester asked) "
        "holds of the model; the property's sentences (stable, pairwise distinct, reversible, transient fresh, manage-local) are proved for "
        "all in-scope histories; Eptid.make injectivity/determinism proved, Eptid.get distinctness under NoKeyCollision with a "
        "machine-checked counterexample (known finding). Every run replays ~700 random histories (<= 60 operations, adversarial names) against "
        "a real IdentDB on a dict, comparing state and answers after every step, plus codec and Eptid pairs.",
        "Trusted: Lean kernel (+leanchecker thorough); propext/Classical.choice/Quot.sound; harness; random-id generation (recorded ids feed "
        "the model); md5/sha1 taken as injective; urllib quote/unquote modelled on bytes and tied by exact-output correspondence; dict store only.",
        "DESIGN.md section 6 C18"),
    "C19": (
        "Lean 4 theorems over an executable model of the SP's session cache and logout bookkeeping (shared entity_ids list as explicit heap); trace specification proved by a simulation invariant; per-step differential correspondence with a real Saml2Client",
        "Machine-checked proof (Lean 4), 14 obligations, PARTIAL for SOAP: for every configuration, clock and history of login / reads / "
        "clock advance / global logout / logout-response delivery (pending, duplicate, unknown, foreign issuer) / IdP-initiated request / "
        "cache reset, the model satisfies the trace specification (returned information was stored by a live login of that subject and "
        "issuer and is unexpired; nothing after the session ended; a step touches at most its own subject; a pending request disappears only "
        "by being answered; every LogoutRequest names the subject and goes to a provider still awaited; the session ends exactly when the "
        "last awaited provider answers or the deadline has passed). With answers received over SOAP counted the statement is proved for all "
        "configurations without SOAP and refuted by a machine-checked counterexample otherwise (known finding C19/soap-answer-not-counted). "
        "Every run replays 144 directed and ~5000 random histories (<= 40 steps, 1-3 subjects with look-alike NameIDs, 1-3 IdPs, real Servers "
        "as message sources, stub SOAP transport, virtual clock) against a real Saml2Client; model = implementation after every step; the Lean "
        "spec is evaluated on the implementation's own trace.",
        "Trusted: Lean kernel (+leanchecker thorough); propext/Classical.choice/Quot.sound; harness (message rewriting, abstraction of NameIDs "
        "to indices); real Servers as message sources; stub transport. Response validation is C01/C04/C05/C06; code() injectivity is C18; "
        "binding choice is C08; messages are unsigned.",
        "DESIGN.md section 6 C19"),
    "C10": (
        "Lean 4 theorems over an executable model of release filtering + regenerated entity-category tables + differential correspondence",
        "Machine-checked proof (Lean 4), 24 obligations: subset, multiplicity, permitted (restrictions / entity categories / requested "
        "attributes), missing-required error, policy precedence and model-meets-spec are proved for every identity, policy, metadata and "
        "regex match matrix for Policy.filter/restrict/apply_policy/setup_assertion(best_effort=False)/create_attribute_response; "
        "create_authn_response is proved only under restrictMissing = false, with C10_response_counterexample for the known finding "
        "C10/missing-required-releases-unfiltered. Entity-category tables are regenerated each run (three table lemmas). Every run executes "
        "model and real code on ~3.8k generated identities x policies x requester metadata; the caller-identity-unaltered clause is decided "
        "by a deep before/after comparison in the harness.",
        "Trusted: Lean kernel (+leanchecker thorough); propext/Quot.sound; harness; metadata XML -> mdstore lookups; str.lower and re.match "
        "evaluated by Python and passed as parameters; attribute-converter tables (C17); translator entity_categories.py (table contents "
        "beyond the pinned facts are the policy itself). Identity values are str or list of str.",
        "DESIGN.md section 6 C10"),
    "C15": (
        "Lean 4 theorems over an executable model of the redirect signer/verifier/receiver with ideal signatures and a parametric URL encoder; regenerated tables; byte-exact differential run",
        "Machine-checked proof (Lean 4), ~30 obligations: for every message value, relay state, key, received dictionary and certificate "
        "list, every URL encoder that is injective and never emits '&' or '=' (the executable quote_plus model is proved lawful), and the "
        "algorithm/order tables of the current source (regenerated each run, proved equal to the expected ones): a signed URL verifies under "
        "the signer's certificate; the signed octet string is injective; any change to message value or direction, RelayState, SigAlg, the "
        "signature octets or the key fails; disallowed algorithms are refused; an unsupported SigAlg is never verified and is refused by the "
        "receiver. Every run executes the real signer, verifier and Server.parse_authn_request with committed RSA keys on ~8.5k generated and "
        "mutated cases; signed octets are compared byte for byte; the Lean spec is evaluated on the implementation's own output.",
        "Trusted: Lean kernel (+leanchecker thorough); propext/Classical.choice/Quot.sound; ideal signatures (real RSA octets identified with "
        "(key, digest, message) terms by trial verification); translator harness/translate/redirect_sig.py; harness. 'Change to the Signature "
        "parameter' means the octets it denotes (base64 leniency documented by C15_signature_text_literal_counterexample). deflate/parse_qsl belong to C14.",
        "DESIGN.md section 6 C15"),
    "C04": (
        "Lean 4 theorems (induction over audience/confirmation lists) over the shared SP model + small-scope exhaustive correspondence",
        "Machine-checked proof (Lean 4): for audience structures of any size, any Destination/Recipient strings and any "
        "configuration, identity implies every non-empty AudienceRestriction of every visible assertion names the own entityID "
        "(after str.strip), a present Destination on a browser binding is an own endpoint for that binding, and with conversation "
        "info every used bearer Recipient is the entityID or a consumer URL (C04_audience, C04_destination, C04_recipient, "
        "C04_exact, C04_model_meets_spec). Every run enumerates all audience shapes up to 2 (thorough: 3) restrictions x 1-2 "
        "audiences over {own, other, look-alike, padded}, the full Destination x Recipient x conv_info x binding product and "
        "random look-alikes against the real SP; model = implementation on every case; Lean spec evaluated on the implementation's outcome.",
        SP_NOTE, "DESIGN.md section 6 C04"),
    "C05": (
        "Lean 4 theorems (linear arithmetic over unbounded Int clocks) over the shared SP model + exhaustive boundary sweeps",
        "Machine-checked proof (Lean 4): for every clock value, skew and message, identity implies now <= NotOnOrAfter+skew, "
        "NotBefore <= now+skew and NotBefore <= NotOnOrAfter for Conditions, for every used bearer SubjectConfirmationData and for "
        "SessionNotOnOrAfter, |now-IssueInstant| <= 1 day+skew, and the reported expiry is SessionNotOnOrAfter when present else "
        "Conditions NotOnOrAfter (C05_windows/_expired/_premature/_inverted/_stale_instant/_reported_expiry/_model_meets_spec_sound). "
        "Completeness (strictly inside => accepted) is stated (C05_inside_accepted_full) and decided by the run. Each of the six "
        "timestamps is swept over 29 offsets (incl. +-skew+-1/2 s, +-1 day+-skew+-1/2 s) x skew {unset,0,60,180} x two syntaxes "
        "under a frozen virtual clock against the real SP; combinations sampled.",
        SP_NOTE + " time.strptime/calendar.timegm exercised, not modelled.", "DESIGN.md section 6 C05"),
    "C06": (
        "Lean 4 theorems over the shared SP model + regenerated status-code table lemmas + exhaustive product correspondence",
        "Machine-checked proof (Lean 4): for outstanding sets of any size and any message, identity over a browser binding "
        "(unsolicited not allowed) implies InResponseTo is outstanding, the returned came_from is the stored one and every "
        "SubjectConfirmationData InResponseTo of every visible (plain or decrypted) assertion equals it; identity implies status "
        "Success, version 2.0, >=1 assertion, exactly one AuthnStatement and a Subject (C06_correlated, C06_shape, C06_status, "
        "C06_version, C06_model_meets_spec). STATUSCODE2EXCEPTION and samlp.STATUS_* are regenerated into Gen/StatusCodes.lean every "
        "run: C06_table_complete/_names/_functional/_size/_views_agree (by decide) pin 21 entries, CamelCase class names, StatusError "
        "base. The run enumerates IRT x SC-IRT x unsolicited x outstanding x binding, every status code, versions, assertion / "
        "AuthnStatement counts, subject presence, encrypted carriers, data-less confirmations against the real SP and compares the "
        "raised exception's class name with the table.",
        SP_NOTE, "DESIGN.md section 6 C06"),
    "C07": (
        "Lean 4 theorems over an executable model of request reception + regenerated dispatch table + exhaustive differential correspondence",
        "Machine-checked proof (Lean 4): for every configuration, metadata certificate list, message and clock the model of "
        "Entity._parse_request/Request._loads/_verify/correctly_signed_message/verify_redirect_signature processes a request only with "
        "the signature the configuration calls for (enveloped for POST/SOAP, detached over SAMLRequest+RelayState+SigAlg for Redirect, "
        "made with a metadata key of the issuer), never with a bad enveloped signature unless certificate-only validation was opted "
        "into, only with version 2.0, a Destination among the configured endpoints (when any) and an IssueInstant within a day plus "
        "skew (15 theorems). The request-class dispatch table is regenerated each run and its well-formedness re-proved. Every run "
        "executes model and real Server on the complete quantifier table (38 400 cells) plus directed/random cases and evaluates the "
        "Lean specification on the implementation's own outcome.",
        "Trusted: Lean kernel; propext/Quot.sound/Classical.choice; xmlsec1 stand-in and ideal-signature abstraction; the harness's "
        "independent request writer; translator introspection. Exercised, not modelled: XML parsing, profile validators (C02), "
        "MetaData.certs (C03), certificate chain validation. Certificate-only mode is read as 'requires signed requests, promises presence not validity'.",
        "DESIGN.md section 6 C07"),
    "C08": (
        "Lean 4 theorems over an executable routing model + differential correspondence with the real code",
        "Machine-checked proof (Lean 4): for every metadata shape, binding list, URL and index the model of "
        "pick_binding/response_args/_sso_location/do_logout/verify_return returns only registered (binding, location) "
        "pairs, honours URL/index, refuses unregistered ones (15 theorems, no sorry, axioms audited each run). The model "
        "is hand-written; every run executes it and the real Server/Saml2Client/DiscoveryServer on the same generated "
        "metadata and requests and evaluates the Lean specification on the implementation's own answer.",
        "Trusted: Lean kernel; propext/Quot.sound; the harness (metadata writer, request generator, destination "
        "extraction from prepared HTTP info); mdstore XML->dict conversion exercised but not modelled; single source.",
        "DESIGN.md section 6 C08",
    ),
    "C20": (
        "Lean 4 theorems (induction over arbitrary schedules) over an executable model of get_signer/sign/verify + real threads under a deterministic gate scheduler",
        "Machine-checked proof (Lean 4): for every set of threads (any number, any programs, threads may share an entity), every "
        "algorithm table and every schedule, each redirect signature the model produces is the caller's own key over the caller's "
        "own octets with the URL's digest, hence verifies under the caller's certificate and under no other key (7 theorems incl. "
        "model_meets_spec and the counterexample for the pre-fix shared-key design). The model is executed on every run beside the "
        "real code: real threads for Saml2Client/Server entities with distinct keys, gated at RSACrypto.get_signer / RSASigner.sign / "
        "RSASigner.verify, all interleavings of 2 and (thorough) 3 threads; each produced Signature is verified against every entity "
        "certificate and the Lean spec is evaluated on the implementation's own output.",
        "Trusted: Lean kernel (+leanchecker thorough); propext/Quot.sound; harness gate scheduler and its own RSA verification of the "
        "URL; ideal-crypto reading of RSA/SHA; algorithm tables read from the running code. Preemption inside a gated call is not explored.",
        "DESIGN.md section 6 C20"),
}

REASON_PENDING = "check under construction (DESIGN.md section 9); not claimed yet"


def load_claimed():
    """design/manifest/Cxx.json (technique, text, note, design_ref) overrides the table above: the per-property level
    texts are kept next to the design sections they summarise."""
    out = dict(CLAIMED)
    d = os.path.join(ROOT, "design", "manifest")
    if os.path.isdir(d):
        for fn in sorted(os.listdir(d)):
            if fn.endswith(".json"):
                j = json.load(open(os.path.join(d, fn)))
                out[fn[:-5]] = (j["technique"], j["text"], j["note"], j.get("design_ref", "DESIGN.md section 6 " + fn[:-5]))
    return out


def main():
    CLAIMED = load_claimed()
    props = [json.loads(l) for l in open(os.path.join(ROOT, "properties.jsonl"))]
    checks = []
    na = []
    for p in props:
        pid = p["id"]
        if pid in CLAIMED:
            tech, text, note, ref = CLAIMED[pid]
            checks.append({
                "property_id": pid,
                "quick_cmd": "./check %s --tier quick" % pid,
                "thorough_cmd": "./check %s --tier thorough" % pid,
                "evidence_file": "evidence/%s.json" % pid,
                "replay_cmd_template": "./check %s --replay {path}" % pid,
                "engine": "lean4-proof+correspondence",
                "level_claimed": {"category": "proof", "text": text, "design_ref": ref},
                "level_note": note,
                "technique": tech,
            })
        else:
            na.append({"property_id": pid, "reason": REASON_PENDING})
    m = {
        "version": 1,
        "setup_cmd": "cd lean && lake build",
        "hooks": {
            "guard": "PYSAML2_VERIF",
            "enable": "no source hooks: the harness patches module attributes at run time (virtual clock, xmlsec1 "
                      "stand-in, stub transport, thread gates); PYSAML2_VERIF=1 is set by the runner for documentation only",
            "baseline_off_cmd": "cd /repo && /venv/bin/python -m pytest -ra -q -p no:cacheprovider --timeout=900 "
                                "--continue-on-collection-errors",
            "source_commits": [],
            "add_only": True,
        },
        "engines": [{
            "name": "lean4-proof+correspondence",
            "path": "harness/runner.py",
            "serves_properties": sorted(CLAIMED),
            "kind_free_text": "Lean 4 theorems (lake build + #print axioms audit) over executable models; models tied to "
                              "/repo by regenerated tables and by differential runs through a JSON line-protocol driver",
        }],
        "checks": checks,
        "not_applicable": na,
        "notes": "See DESIGN.md. Exit 0 held / 1 violation / 2 infrastructure failure. KNOWN_FINDINGS.jsonl lists recorded defects.",
    }
    with open(os.path.join(ROOT, "MANIFEST.json"), "w") as f:
        json.dump(m, f, indent=1)
    print("claimed:", sorted(CLAIMED), "pending:", len(na))


if __name__ == "__main__":
    main()
