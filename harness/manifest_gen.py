#!/venv/bin/python
"""Regenerates /verif/MANIFEST.json from the registry below (run after adding a property)."""
import json
import os

ROOT = os.path.dirname(os.path.dirname(os.path.abspath(__file__)))

# property id -> (technique, level text, level note, design ref)
CLAIMED = {
    "C08": (
        "Lean 4 theorems over an executable routing model + differential correspondence with the real code",
        "Machine-checked proof (Lean 4): for every metadata shape, binding list, URL and index the model of "
        "pick_binding/response_args/_sso_location/do_logout/verify_return returns only registered (binding, location) "
        "pairs, honours URL/index, refuses unregistered ones (15 theorems, no sorry, axioms audited each run). The model "
        "is hand-written; every run executes it and the real Server/Saml2Client/DiscoveryServer on the same generated "
        "metadata and requests and evaluates the Lean specification on the implementation's own answer.",
        "Trusted: Lean kernel; propext/Quot.sound; the harness (metadata writer, request generator, destination "
        "extraction from prepared HTTP info); mdstore XML->dict conversion exercised but not modelled; single source.",
        "DESIGN.md section 6 C08",
    ),
}

REASON_PENDING = "check under construction (DESIGN.md section 9); not claimed yet"


def main():
    props = [json.loads(l) for l in open(os.path.join(ROOT, "properties.jsonl"))]
    checks = []
    na = []
    for p in props:
        pid = p["id"]
        if pid in CLAIMED:
            tech, text, note, ref = CLAIMED[pid]
            checks.append({
                "property_id": pid,
                "quick_cmd": "./check %s --tier quick" % pid,
                "thorough_cmd": "./check %s --tier thorough" % pid,
                "evidence_file": "evidence/%s.json" % pid,
                "replay_cmd_template": "./check %s --replay {path}" % pid,
                "engine": "lean4-proof+correspondence",
                "level_claimed": {"category": "proof", "text": text, "design_ref": ref},
                "level_note": note,
                "technique": tech,
            })
        else:
            na.append({"property_id": pid, "reason": REASON_PENDING})
    m = {
        "version": 1,
        "setup_cmd": "cd lean && lake build",
        "hooks": {
            "guard": "PYSAML2_VERIF",
            "enable": "no source hooks: the harness patches module attributes at run time (virtual clock, xmlsec1 "
                      "stand-in, stub transport, thread gates); PYSAML2_VERIF=1 is set by the runner for documentation only",
            "baseline_off_cmd": "cd /repo && /venv/bin/python -m pytest -ra -q -p no:cacheprovider --timeout=900 "
                                "--continue-on-collection-errors",
            "source_commits": [],
            "add_only": True,
        },
        "engines": [{
            "name": "lean4-proof+correspondence",
            "path": "harness/runner.py",
            "serves_properties": sorted(CLAIMED),
            "kind_free_text": "Lean 4 theorems (lake build + #print axioms audit) over executable models; models tied to "
                              "/repo by regenerated tables and by differential runs through a JSON line-protocol driver",
        }],
        "checks": checks,
        "not_applicable": na,
        "notes": "See DESIGN.md. Exit 0 held / 1 violation / 2 infrastructure failure. KNOWN_FINDINGS.jsonl lists recorded defects.",
    }
    with open(os.path.join(ROOT, "MANIFEST.json"), "w") as f:
        json.dump(m, f, indent=1)
    print("claimed:", sorted(CLAIMED), "pending:", len(na))


if __name__ == "__main__":
    main()
