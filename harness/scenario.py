"""Scenario builder (DESIGN.md 5.2/5.3): keys, independent metadata writer, SP/IdP instances,
virtual clock.  Everything is installed from here by ordinary patching of module attributes;
pysaml2's source is not touched."""
import base64
import calendar
import contextlib
import datetime as _dt
import os
import re
import sys
import time as _time
import warnings

HERE = os.path.dirname(os.path.abspath(__file__))
KEYDIR = os.path.join(HERE, "keys")
sys.path.insert(0, HERE)

warnings.filterwarnings("ignore")
import logging

logging.disable(logging.CRITICAL)

from standin import xmlsec_standin  # noqa: E402

BINDING_POST = "urn:oasis:names:tc:SAML:2.0:bindings:HTTP-POST"
BINDING_REDIRECT = "urn:oasis:names:tc:SAML:2.0:bindings:HTTP-Redirect"
BINDING_SOAP = "urn:oasis:names:tc:SAML:2.0:bindings:SOAP"
BINDING_PAOS = "urn:oasis:names:tc:SAML:2.0:bindings:PAOS"
BINDING_ARTIFACT = "urn:oasis:names:tc:SAML:2.0:bindings:HTTP-Artifact"
BINDING_DISCO = "urn:oasis:names:tc:SAML:profiles:SSO:idp-discovery-protocol"

NOW0 = 1790000000  # 2026-09-21T18:13:20Z, the frozen instant used unless a case says otherwise

IDP_ID = "https://idp.verif.example/idp"
IDP2_ID = "https://idp2.verif.example/idp"
SP_ID = "https://sp.verif.example/sp"
SP2_ID = "https://sp2.verif.example/sp"
SP_ACS_POST = "https://sp.verif.example/acs/post"
SP_ACS_REDIRECT = "https://sp.verif.example/acs/redirect"
SP_SLO_REDIRECT = "https://sp.verif.example/slo/redirect"
SP_SLO_POST = "https://sp.verif.example/slo/post"
SP_SLO_SOAP = "https://sp.verif.example/slo/soap"
IDP_SSO_REDIRECT = "https://idp.verif.example/sso/redirect"
IDP_SSO_POST = "https://idp.verif.example/sso/post"
IDP_SLO_REDIRECT = "https://idp.verif.example/slo/redirect"
IDP_SLO_POST = "https://idp.verif.example/slo/post"
IDP_SLO_SOAP = "https://idp.verif.example/slo/soap"


def key_path(name):
    return os.path.join(KEYDIR, name + ".key")


def cert_path(name):
    return os.path.join(KEYDIR, name + ".pem")


_cert_cache = {}


def cert_b64(name):
    if name not in _cert_cache:
        pem = open(cert_path(name)).read()
        _cert_cache[name] = "".join(l for l in pem.splitlines() if "-----" not in l)
    return _cert_cache[name]


def key_pem(name):
    return open(key_path(name)).read()


# ----------------------------------------------------------------------- virtual clock


class _Clock:
    now = None  # None = real time


_real_gmtime = _time.gmtime
_real_localtime = _time.localtime
_real_time = _time.time
_real_datetime = _dt.datetime


def _gmtime(secs=None):
    if secs is None and _Clock.now is not None:
        secs = _Clock.now
    return _real_gmtime(secs) if secs is not None else _real_gmtime()


def _localtime(secs=None):
    if secs is None and _Clock.now is not None:
        secs = _Clock.now
    return _real_localtime(secs) if secs is not None else _real_localtime()


def _time_time():
    return float(_Clock.now) if _Clock.now is not None else _real_time()


class _VDatetime(_real_datetime):
    @classmethod
    def utcnow(cls):
        if _Clock.now is None:
            return _real_datetime.utcnow()
        return _real_datetime(1970, 1, 1) + _dt.timedelta(seconds=_Clock.now)

    @classmethod
    def now(cls, tz=None):
        if _Clock.now is None:
            return _real_datetime.now(tz)
        if tz is None:
            return _real_datetime.fromtimestamp(_Clock.now)
        return _real_datetime.fromtimestamp(_Clock.now, tz)


class _DtShim:
    """stands in for the `datetime` module inside saml2 modules that do `import datetime`"""

    datetime = _VDatetime

    def __getattr__(self, k):
        return getattr(_dt, k)


_installed = False


def install():
    """Install stand-in and clock shims once per process."""
    global _installed
    if _installed:
        return
    _installed = True
    xmlsec_standin.install()
    _time.gmtime = _gmtime
    _time.localtime = _localtime
    _time.time = _time_time
    import saml2.time_util
    import saml2.sigver

    saml2.time_util.datetime = _VDatetime
    if hasattr(saml2.sigver, "datetime"):
        saml2.sigver.datetime = _DtShim()
    try:
        import saml2.cert

        if hasattr(saml2.cert, "datetime"):
            saml2.cert.datetime = _DtShim()
    except Exception:
        pass


@contextlib.contextmanager
def clock(now):
    old = _Clock.now
    _Clock.now = now
    try:
        yield
    finally:
        _Clock.now = old


def set_clock(now):
    _Clock.now = now


def fmt_time(t, frac=False, z=True):
    s = _time.strftime("%Y-%m-%dT%H:%M:%S", _real_gmtime(t))
    if frac:
        s += ".123"
    return s + ("Z" if z else "")


# ----------------------------------------------------------------------- metadata writer

MDNS = "urn:oasis:names:tc:SAML:2.0:metadata"


def xesc(s):
    return (s.replace("&", "&amp;").replace("<", "&lt;").replace(">", "&gt;").replace('"', "&quot;")
            .replace("\n", "&#10;").replace("\t", "&#9;"))


def _keydescs(keys):
    out = []
    for use, kname in keys:
        u = ' use="%s"' % use if use else ""
        out.append(
            '<md:KeyDescriptor%s><ds:KeyInfo><ds:X509Data><ds:X509Certificate>%s</ds:X509Certificate>'
            "</ds:X509Data></ds:KeyInfo></md:KeyDescriptor>" % (u, cert_b64(kname))
        )
    return "".join(out)


def _endpoints(tag, eps, indexed=False):
    out = []
    for i, ep in enumerate(eps):
        binding, loc = ep[0], ep[1]
        extra = ""
        if indexed:
            idx = ep[2] if len(ep) > 2 and ep[2] is not None else i
            extra += ' index="%s"' % xesc(str(idx))
            if len(ep) > 3 and ep[3] is not None:
                extra += ' isDefault="%s"' % ("true" if ep[3] else "false")
        else:
            if len(ep) > 2 and ep[2]:
                extra += ' ResponseLocation="%s"' % xesc(ep[2])
        out.append('<md:%s Binding="%s" Location="%s"%s/>' % (tag, xesc(binding), xesc(loc), extra))
    return "".join(out)


def entity_xml(e):
    """e: dict(entity_id, valid_until?, idpsso?/spsso?: dict(keys, sso, slo, acs, disco, protocols, ...))"""
    parts = []
    vu = ' validUntil="%s"' % e["valid_until"] if e.get("valid_until") else ""
    parts.append('<md:EntityDescriptor entityID="%s"%s>' % (xesc(e["entity_id"]), vu))
    if e.get("entity_ext"):
        parts.append("<md:Extensions>%s</md:Extensions>" % e["entity_ext"])
    proto_default = "urn:oasis:names:tc:SAML:2.0:protocol"
    if "idpsso" in e:
        r = e["idpsso"]
        wa = ""
        if r.get("want_authn_requests_signed") is not None:
            wa = ' WantAuthnRequestsSigned="%s"' % ("true" if r["want_authn_requests_signed"] else "false")
        parts.append('<md:IDPSSODescriptor protocolSupportEnumeration="%s"%s>' % (r.get("protocols", proto_default), wa))
        if r.get("ext"):
            parts.append("<md:Extensions>%s</md:Extensions>" % r["ext"])
        parts.append(_keydescs(r.get("keys", [])))
        parts.append(_endpoints("ArtifactResolutionService", r.get("ars", []), indexed=True))
        parts.append(_endpoints("SingleLogoutService", r.get("slo", [])))
        parts.append(_endpoints("ManageNameIDService", r.get("mni", [])))
        for f in r.get("nameid_formats", []):
            parts.append("<md:NameIDFormat>%s</md:NameIDFormat>" % xesc(f))
        parts.append(_endpoints("SingleSignOnService", r.get("sso", [])))
        parts.append("</md:IDPSSODescriptor>")
    if "spsso" in e:
        r = e["spsso"]
        attrs = ""
        if r.get("authn_requests_signed") is not None:
            attrs += ' AuthnRequestsSigned="%s"' % ("true" if r["authn_requests_signed"] else "false")
        if r.get("want_assertions_signed") is not None:
            attrs += ' WantAssertionsSigned="%s"' % ("true" if r["want_assertions_signed"] else "false")
        parts.append('<md:SPSSODescriptor protocolSupportEnumeration="%s"%s>' % (r.get("protocols", proto_default), attrs))
        ext = r.get("ext", "")
        for i, d in enumerate(r.get("disco", [])):
            ext += ('<idpdisc:DiscoveryResponse xmlns:idpdisc="%s" Binding="%s" Location="%s" index="%d"/>'
                    % (BINDING_DISCO, BINDING_DISCO, xesc(d), i))
        if ext:
            parts.append("<md:Extensions>%s</md:Extensions>" % ext)
        parts.append(_keydescs(r.get("keys", [])))
        parts.append(_endpoints("SingleLogoutService", r.get("slo", [])))
        parts.append(_endpoints("ManageNameIDService", r.get("mni", [])))
        for f in r.get("nameid_formats", []):
            parts.append("<md:NameIDFormat>%s</md:NameIDFormat>" % xesc(f))
        parts.append(_endpoints("AssertionConsumerService", r.get("acs", []), indexed=True))
        for j, acs in enumerate(r.get("attr_cs", [])):
            parts.append('<md:AttributeConsumingService index="%d"><md:ServiceName xml:lang="en">svc</md:ServiceName>' % j)
            for ra in acs:
                req = ""
                if ra.get("required") is not None:
                    req = ' isRequired="%s"' % ("true" if ra["required"] else "false")
                fn = ' FriendlyName="%s"' % xesc(ra["friendly_name"]) if ra.get("friendly_name") else ""
                nf = ' NameFormat="%s"' % xesc(ra["name_format"]) if ra.get("name_format") else ""
                vals = "".join(
                    '<saml:AttributeValue xmlns:saml="urn:oasis:names:tc:SAML:2.0:assertion">%s</saml:AttributeValue>' % xesc(v)
                    for v in ra.get("values", []))
                parts.append('<md:RequestedAttribute Name="%s"%s%s%s>%s</md:RequestedAttribute>' % (
                    xesc(ra["name"]), nf, fn, req, vals))
            parts.append("</md:AttributeConsumingService>")
        parts.append("</md:SPSSODescriptor>")
    if "aa" in e:
        r = e["aa"]
        parts.append('<md:AttributeAuthorityDescriptor protocolSupportEnumeration="%s">' % r.get("protocols", proto_default))
        parts.append(_keydescs(r.get("keys", [])))
        parts.append(_endpoints("AttributeService", r.get("attribute_service", [])))
        parts.append("</md:AttributeAuthorityDescriptor>")
    parts.append("</md:EntityDescriptor>")
    return "".join(parts)


def metadata_xml(entities, valid_until=None, single=False):
    ns = ('xmlns:md="%s" xmlns:ds="http://www.w3.org/2000/09/xmldsig#" '
          'xmlns:xs="http://www.w3.org/2001/XMLSchema" xmlns:xsi="http://www.w3.org/2001/XMLSchema-instance"' % MDNS)
    if single and len(entities) == 1:
        x = entity_xml(entities[0])
        return '<?xml version="1.0" encoding="UTF-8"?>\n' + x.replace("<md:EntityDescriptor ", "<md:EntityDescriptor %s " % ns, 1)
    vu = ' validUntil="%s"' % valid_until if valid_until else ""
    return ('<?xml version="1.0" encoding="UTF-8"?>\n<md:EntitiesDescriptor %s%s>%s</md:EntitiesDescriptor>'
            % (ns, vu, "".join(entity_xml(e) for e in entities)))


# ----------------------------------------------------------------------- default federation


def default_idp_entity(**over):
    e = {
        "entity_id": IDP_ID,
        "idpsso": {
            "keys": [("signing", "idp_sign"), ("signing", "idp_sign2"), ("encryption", "idp_enc")],
            "sso": [(BINDING_REDIRECT, IDP_SSO_REDIRECT), (BINDING_POST, IDP_SSO_POST)],
            "slo": [(BINDING_REDIRECT, IDP_SLO_REDIRECT), (BINDING_POST, IDP_SLO_POST), (BINDING_SOAP, IDP_SLO_SOAP)],
        },
    }
    e.update(over)
    return e


def default_idp2_entity():
    return {
        "entity_id": IDP2_ID,
        "idpsso": {
            "keys": [("signing", "member2")],
            "sso": [(BINDING_REDIRECT, "https://idp2.verif.example/sso/redirect")],
            "slo": [(BINDING_REDIRECT, "https://idp2.verif.example/slo/redirect"),
                    (BINDING_SOAP, "https://idp2.verif.example/slo/soap")],
        },
    }


def default_sp_entity(**over):
    e = {
        "entity_id": SP_ID,
        "spsso": {
            "keys": [("signing", "sp"), ("encryption", "sp_enc1")],
            "acs": [(BINDING_POST, SP_ACS_POST, 0), (BINDING_REDIRECT, SP_ACS_REDIRECT, 1)],
            "slo": [(BINDING_REDIRECT, SP_SLO_REDIRECT), (BINDING_POST, SP_SLO_POST), (BINDING_SOAP, SP_SLO_SOAP)],
        },
    }
    e.update(over)
    return e


def sp_config(idp_entities=None, **over):
    """Configuration dictionary of the service provider under test."""
    md = metadata_xml(idp_entities if idp_entities is not None else [default_idp_entity(), default_idp2_entity()])
    sp = {
        "endpoints": {
            "assertion_consumer_service": [(SP_ACS_POST, BINDING_POST), (SP_ACS_REDIRECT, BINDING_REDIRECT)],
            "single_logout_service": [(SP_SLO_REDIRECT, BINDING_REDIRECT), (SP_SLO_POST, BINDING_POST),
                                      (SP_SLO_SOAP, BINDING_SOAP)],
        },
    }
    sp.update(over.pop("sp", {}))
    conf = {
        "entityid": SP_ID,
        "name": "verif sp",
        "service": {"sp": sp},
        "key_file": key_path("sp"),
        "cert_file": cert_path("sp"),
        "encryption_keypairs": [{"key_file": key_path("sp_enc1"), "cert_file": cert_path("sp_enc1")}],
        "xmlsec_binary": xmlsec_standin.BINARY,
        "metadata": {"inline": [md]},
        "delete_tmpfiles": True,
    }
    conf.update(over)
    return conf


def idp_config(sp_entities=None, **over):
    md = metadata_xml(sp_entities if sp_entities is not None else [default_sp_entity()])
    idp = {
        "endpoints": {
            "single_sign_on_service": [(IDP_SSO_REDIRECT, BINDING_REDIRECT), (IDP_SSO_POST, BINDING_POST)],
            "single_logout_service": [(IDP_SLO_REDIRECT, BINDING_REDIRECT), (IDP_SLO_POST, BINDING_POST),
                                      (IDP_SLO_SOAP, BINDING_SOAP)],
        },
        "policy": {"default": {"lifetime": {"minutes": 15}, "attribute_restrictions": None}},
    }
    idp.update(over.pop("idp", {}))
    conf = {
        "entityid": IDP_ID,
        "name": "verif idp",
        "service": {"idp": idp},
        "key_file": key_path("idp_sign"),
        "cert_file": cert_path("idp_sign"),
        "xmlsec_binary": xmlsec_standin.BINARY,
        "metadata": {"inline": [md]},
        "delete_tmpfiles": True,
    }
    conf.update(over)
    return conf


def make_sp(conf=None, **kw):
    install()
    from saml2.client import Saml2Client
    from saml2.config import SPConfig

    c = SPConfig()
    c.load(conf if conf is not None else sp_config(**kw))
    return Saml2Client(config=c)


def make_idp(conf=None, **kw):
    install()
    from saml2.config import IdPConfig
    from saml2.server import Server

    c = IdPConfig()
    c.load(conf if conf is not None else idp_config(**kw))
    return Server(config=c)
