#!/venv/bin/python
"""Evaluate HARMLESS changes (behaviour-preserving refactorings written by independent sub-agents): the registered quick
check of the property must stay silent (exit 0, no VIOLATION line) on each of them.

usage: refactest.py <out_dir_of_agent> [...]       each <out_dir>/<Cxx-k>/{patch.diff,meta.json}

The patch is applied to a scratch copy of /repo/src that is put first on PYTHONPATH (so /repo itself stays untouched);
results are stored under /verif/seeded/harmless/<Cxx-k>/ (patch.diff, meta.json with the evaluation)."""
import json
import os
import shutil
import subprocess
import sys

ROOT = os.path.dirname(os.path.dirname(os.path.abspath(__file__)))


def sh(cmd, env=None, cwd=None, timeout=3600):
    e = dict(os.environ)
    e.update(env or {})
    p = subprocess.run(cmd, shell=True, capture_output=True, text=True, env=e, cwd=cwd, timeout=timeout)
    return p.returncode, p.stdout + p.stderr


def main():
    results = []
    touched = set()
    for out_dir in sys.argv[1:]:
        for k in sorted(os.listdir(out_dir)):
            d = os.path.join(out_dir, k)
            if not os.path.isfile(os.path.join(d, "patch.diff")):
                continue
            pid = k.split("-")[0]
            scratch = "/tmp/mutrun/harmless-%s" % k
            shutil.rmtree(scratch, ignore_errors=True)
            os.makedirs(scratch)
            shutil.copytree("/repo/src", os.path.join(scratch, "src"))
            rc, out = sh("patch -p1 < %s" % os.path.join(d, "patch.diff"), cwd=scratch)
            res = {"id": k, "patch_applies": rc == 0}
            if rc == 0:
                rc, o = sh("./check %s" % pid, env={"PYTHONPATH": os.path.join(scratch, "src")}, cwd=ROOT, timeout=3000)
                viol = [l for l in o.splitlines() if l.startswith("VIOLATION")]
                res.update({"check": pid, "rc": rc, "violations": viol[:3], "tail": o.strip().splitlines()[-1][:300] if o.strip() else "",
                            "silent": rc == 0 and not viol})
                touched.add(pid)
                if viol:
                    rp = viol[0].split("replay=")[1].split()[0]
                    try:
                        shutil.copy(os.path.join(ROOT, rp), os.path.join(scratch, "replay.json"))
                    except OSError:
                        pass
            keep = os.path.join(ROOT, "seeded", "harmless", k)
            os.makedirs(keep, exist_ok=True)
            shutil.copy(os.path.join(d, "patch.diff"), keep)
            meta = {}
            try:
                meta = json.load(open(os.path.join(d, "meta.json")))
            except Exception:
                pass
            meta["evaluation"] = res
            with open(os.path.join(keep, "meta.json"), "w") as f:
                json.dump(meta, f, indent=1)
            rp = os.path.join(scratch, "replay.json")
            if os.path.exists(rp) and os.path.getsize(rp) < 200000:
                shutil.copy(rp, os.path.join(keep, "replay.json"))
            shutil.rmtree(scratch, ignore_errors=True)
            results.append(res)
            print(json.dumps(res)[:600], flush=True)
    for pid in sorted(touched):      # restore evidence from /repo itself
        sh("./check %s" % pid, cwd=ROOT)
    print("SUMMARY", [(r["id"], r.get("silent")) for r in results])


if __name__ == "__main__":
    main()
