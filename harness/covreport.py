#!/venv/bin/python
"""Print, per property, the lines of the anchored functions that the last run of its check never executed
(from evidence/<Cxx>.json: coverage.anchor_coverage), with their source text from the current /repo.

usage: covreport.py [Cxx ...] [--summary]"""
import json
import os
import sys

ROOT = os.path.dirname(os.path.dirname(os.path.abspath(__file__)))


def main():
    import saml2

    base = os.path.dirname(os.path.abspath(saml2.__file__))
    ids = [a for a in sys.argv[1:] if not a.startswith("--")] or ["C%02d" % i for i in range(1, 21)]
    summary = "--summary" in sys.argv
    for pid in ids:
        try:
            ev = json.load(open(os.path.join(ROOT, "evidence", pid + ".json")))
        except OSError:
            continue
        ac = ev.get("coverage", {}).get("anchor_coverage") or {}
        print("%s: %s/%s executable lines of %d anchored functions executed; not found: %s" % (
            pid, ac.get("hit"), ac.get("lines"), len(ac.get("functions", {})), ac.get("missing_functions")))
        if summary:
            continue
        for fq, ent in sorted(ac.get("functions", {}).items()):
            if not ent["missed"]:
                continue
            rel = fq.split("::")[0]
            try:
                src = open(os.path.join(base, rel), encoding="utf-8").read().splitlines()
            except OSError:
                src = []
            print("  %s  %d/%d" % (fq, ent["hit"], ent["lines"]))
            for ln in ent["missed"]:
                print("     %5d  %s" % (ln, src[ln - 1].strip() if ln - 1 < len(src) else ""))


if __name__ == "__main__":
    main()
