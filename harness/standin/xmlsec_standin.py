"""xmlsec1 stand-in (DESIGN.md 5.1).

A model of the documented behaviour of the `xmlsec1` command line for exactly the
invocations pysaml2's CryptoBackendXmlSec1 builds: --version, --sign, --verify,
--encrypt, --decrypt.  Real RSA (PKCS#1 v1.5 signatures, OAEP key transport) and
AES-GCM come from `cryptography`; canonicalisation is a prefix-independent
Clark-notation serialisation of the referenced subtree.

Usable in-process (`install()` replaces `saml2.sigver.Popen`) and as an executable
(`xmlsec1` script next to this file) so `config.xmlsec_binary` names a real file.
Every invocation appends a record to LOG (mode, verified node, key file, outcome).
"""
import base64
import hashlib
import os
import re
import sys
from xml.etree import ElementTree as ET

from cryptography import x509
from cryptography.hazmat.primitives import hashes, serialization
from cryptography.hazmat.primitives.asymmetric import padding, rsa
from cryptography.hazmat.primitives.ciphers.aead import AESGCM

DS = "http://www.w3.org/2000/09/xmldsig#"
XENC = "http://www.w3.org/2001/04/xmlenc#"
SIG = "{%s}Signature" % DS
ENCDATA = "{%s}EncryptedData" % XENC
ENCKEY = "{%s}EncryptedKey" % XENC
TRANSFORM_ENVELOPED = "http://www.w3.org/2000/09/xmldsig#enveloped-signature"

DIGESTS = {
    "http://www.w3.org/2000/09/xmldsig#sha1": hashlib.sha1,
    "http://www.w3.org/2001/04/xmlenc#sha256": hashlib.sha256,
    "http://www.w3.org/2001/04/xmldsig-more#sha224": hashlib.sha224,
    "http://www.w3.org/2001/04/xmldsig-more#sha384": hashlib.sha384,
    "http://www.w3.org/2001/04/xmlenc#sha512": hashlib.sha512,
}
SIGALG = {
    "http://www.w3.org/2000/09/xmldsig#rsa-sha1": hashes.SHA1,
    "http://www.w3.org/2001/04/xmldsig-more#rsa-sha224": hashes.SHA224,
    "http://www.w3.org/2001/04/xmldsig-more#rsa-sha256": hashes.SHA256,
    "http://www.w3.org/2001/04/xmldsig-more#rsa-sha384": hashes.SHA384,
    "http://www.w3.org/2001/04/xmldsig-more#rsa-sha512": hashes.SHA512,
}
KNOWN_TRANSFORMS = {
    TRANSFORM_ENVELOPED,
    "http://www.w3.org/2001/10/xml-exc-c14n#",
    "http://www.w3.org/2001/10/xml-exc-c14n#WithComments",
    "http://www.w3.org/TR/2001/REC-xml-c14n-20010315",
    "http://www.w3.org/TR/2001/REC-xml-c14n-20010315#WithComments",
}

LOG = []
WELL_KNOWN = {
    "urn:oasis:names:tc:SAML:2.0:assertion": "saml",
    "urn:oasis:names:tc:SAML:2.0:protocol": "samlp",
    DS: "ds",
    XENC: "xenc",
    "http://www.w3.org/2001/XMLSchema-instance": "xsi",
    "http://www.w3.org/2001/XMLSchema": "xs",
    "urn:oasis:names:tc:SAML:2.0:metadata": "md",
    "http://schemas.xmlsoap.org/soap/envelope/": "soapenv",
}


def esc(s):
    return s.replace("&", "&amp;").replace("<", "&lt;").replace(">", "&gt;").replace('"', "&quot;")


def canon(e, skip=None):
    """Prefix-independent canonical form of the subtree at e (tail of e excluded), minus `skip`."""
    if e is skip:
        return ""
    out = ["<", e.tag]
    for k in sorted(e.attrib):
        out.append(' %s="%s"' % (k, esc(e.attrib[k])))
    out.append(">")
    out.append(esc(e.text or ""))
    for c in e:
        if c is skip:
            out.append(esc(c.tail or ""))
            continue
        out.append(canon(c, skip))
        out.append(esc(c.tail or ""))
    out.append("</%s>" % e.tag)
    return "".join(out)


def doc_order(e):
    yield e
    for c in e:
        yield from doc_order(c)


def split_tag(tag):
    if tag.startswith("{"):
        ns, _, local = tag[1:].partition("}")
        return ns, local
    return "", tag


def serialize(root):
    """Deterministic serialisation with all namespace declarations on the root."""
    nss = []
    for n in doc_order(root):
        for t in [n.tag] + list(n.attrib):
            ns, _ = split_tag(t)
            if ns and ns not in nss and ns != "http://www.w3.org/XML/1998/namespace":
                nss.append(ns)
    for extra in ("http://www.w3.org/2001/XMLSchema", "http://www.w3.org/2001/XMLSchema-instance"):
        if extra not in nss:
            nss.append(extra)
    prefix = {}
    used = set()
    for i, ns in enumerate(nss):
        p = WELL_KNOWN.get(ns, "ns%d" % i)
        while p in used:
            p += "x"
        used.add(p)
        prefix[ns] = p
    prefix["http://www.w3.org/XML/1998/namespace"] = "xml"

    def q(t):
        ns, local = split_tag(t)
        return "%s:%s" % (prefix[ns], local) if ns else local

    def ser(n, top):
        out = ["<", q(n.tag)]
        if top:
            for ns in nss:
                out.append(' xmlns:%s="%s"' % (prefix[ns], esc(ns)))
        for k, v in n.attrib.items():
            out.append(' %s="%s"' % (q(k), esc(v).replace("\n", "&#10;").replace("\t", "&#9;").replace("\r", "&#13;")))
        if len(n) == 0 and not n.text:
            out.append("/>")
        else:
            out.append(">")
            out.append(esc_text(n.text or ""))
            for c in n:
                out.append(ser(c, False))
                out.append(esc_text(c.tail or ""))
            out.append("</%s>" % q(n.tag))
        return "".join(out)

    return ser(root, True)


def esc_text(s):
    return s.replace("&", "&amp;").replace("<", "&lt;").replace(">", "&gt;").replace("\r", "&#13;")


class Fail(Exception):
    pass


def parse_args(a):
    mode = a[0]
    opts, idattrs, pos = {}, [], []
    i = 1
    while i < len(a):
        x = a[i]
        if x.startswith("--id-attr"):
            attr = x.split(":", 1)[1] if ":" in x else "id"
            idattrs.append((attr, a[i + 1]))
            i += 2
        elif x in ("--lax-key-search", "--store-signatures", "--print-debug"):
            i += 1
        elif x.startswith("--"):
            opts[x] = a[i + 1]
            i += 2
        else:
            pos.append(x)
            i += 1
    return mode, opts, idattrs, pos


def register_ids(root, idattrs):
    ids = {}
    for attr, name in idattrs:
        ns, _, local = name.rpartition(":")
        q = "{%s}%s" % (ns, local) if ns else local
        for n in doc_order(root):
            if n.tag == q and attr in n.attrib:
                v = n.attrib[attr]
                if v in ids and ids[v] is not n:
                    raise Fail("duplicate ID %s" % v)
                ids[v] = n
    return ids


def load_public_from_cert_file(path):
    data = open(path, "rb").read()
    return x509.load_pem_x509_certificate(data).public_key()


def embedded_key(sig):
    emb = sig.find(".//{%s}X509Certificate" % DS)
    if emb is not None and (emb.text or "").strip():
        try:
            return x509.load_der_x509_certificate(base64.b64decode(emb.text)).public_key()
        except Exception:
            raise Fail("bad embedded certificate")
    kv = sig.find(".//{%s}RSAKeyValue" % DS)
    if kv is not None:
        try:
            n = int.from_bytes(base64.b64decode(kv.find("{%s}Modulus" % DS).text), "big")
            e = int.from_bytes(base64.b64decode(kv.find("{%s}Exponent" % DS).text), "big")
            return rsa.RSAPublicNumbers(e, n).public_key()
        except Exception:
            raise Fail("bad embedded RSAKeyValue")
    return None


def find_sig(root, ids, opts):
    start = root
    if "--node-id" in opts:
        if opts["--node-id"] not in ids:
            raise Fail("node-id %s not found" % opts["--node-id"])
        start = ids[opts["--node-id"]]
    sig = next((n for n in doc_order(start) if n.tag == SIG), None)
    if sig is None:
        raise Fail("no Signature found from start node")
    return start, sig


def process_references(mode, root, ids, sig, enabled_uris=None):
    si = sig.find("{%s}SignedInfo" % DS)
    if si is None:
        raise Fail("no SignedInfo")
    smn = si.find("{%s}SignatureMethod" % DS)
    if smn is None or smn.attrib.get("Algorithm") not in SIGALG:
        raise Fail("unsupported signature method")
    refs = si.findall("{%s}Reference" % DS)
    if not refs:
        raise Fail("no Reference")
    covered = []
    for ref in refs:
        uri = ref.attrib.get("URI", "")
        if uri == "":
            target = root
        elif uri.startswith("#"):
            if uri[1:] not in ids:
                raise Fail("reference %s unresolved" % uri)
            target = ids[uri[1:]]
        else:
            raise Fail("external reference %s disabled" % uri)
        algs = [t.attrib.get("Algorithm") for t in ref.iter("{%s}Transform" % DS)]
        for al in algs:
            if al not in KNOWN_TRANSFORMS:
                raise Fail("unsupported transform %s" % al)
        skip = sig if TRANSFORM_ENVELOPED in algs else None
        dmn = ref.find("{%s}DigestMethod" % DS)
        if dmn is None or dmn.attrib.get("Algorithm") not in DIGESTS:
            raise Fail("unsupported digest")
        dig = base64.b64encode(DIGESTS[dmn.attrib["Algorithm"]](canon(target, skip).encode("utf-8")).digest()).decode()
        dv = ref.find("{%s}DigestValue" % DS)
        if dv is None:
            raise Fail("no DigestValue")
        if mode == "--sign":
            dv.text = dig
        elif "".join((dv.text or "").split()) != dig:
            raise Fail("digest mismatch")
        covered.append((target.tag, target.attrib.get("ID"), id(target)))
    return si, SIGALG[smn.attrib["Algorithm"]], covered


def do_sign(opts, idattrs, pos):
    text = open(pos[-1], "rb").read().decode("utf-8")
    root = ET.fromstring(text)
    ids = register_ids(root, idattrs)
    start, sig = find_sig(root, ids, opts)
    si, halg, covered = process_references("--sign", root, ids, sig)
    key = serialization.load_pem_private_key(open(opts["--privkey-pem"], "rb").read(), None)
    sv = sig.find("{%s}SignatureValue" % DS)
    if sv is None:
        raise Fail("no SignatureValue")
    sv.text = base64.b64encode(key.sign(canon(si).encode("utf-8"), padding.PKCS1v15(), halg())).decode()
    # splice the computed values into the original text (xmlsec keeps the document as it is)
    out = splice(text, root, sig, si, sv)
    with open(opts["--output"], "wb") as f:
        f.write(out.encode("utf-8"))
    LOG.append({"mode": "sign", "node": start.tag, "id": start.attrib.get("ID"), "key": opts["--privkey-pem"], "ok": True})
    return 0, "", ""


_EMPTY = r"<((?:[\w.-]+:)?)%s((?:\s[^<>]*?)?)(?:/>|>\s*</\1%s\s*>)"


def splice(text, root, sig, si, sv):
    """Fill the k-th DigestValue / SignatureValue elements of the text, k = index in document order."""
    def fill(text, local, node_list, values):
        all_nodes = [n for n in doc_order(root) if n.tag == "{%s}%s" % (DS, local)]
        want = {all_nodes.index(n): v for n, v in zip(node_list, values)}
        pat = re.compile(r"<((?:[\w.-]+:)?)%s((?:\s[^<>]*?)?)(/>|>([^<]*)</\1%s\s*>)" % (local, local))
        k = [-1]

        def rep(m):
            k[0] += 1
            if k[0] in want:
                return "<%s%s%s>%s</%s%s>" % (m.group(1), local, m.group(2) or "", want[k[0]], m.group(1), local)
            return m.group(0)

        new = pat.sub(rep, text)
        if k[0] + 1 != len(all_nodes):
            raise Fail("splice: text/tree mismatch for %s" % local)
        return new

    dvs = [r.find("{%s}DigestValue" % DS) for r in si.findall("{%s}Reference" % DS)]
    text = fill(text, "DigestValue", dvs, [d.text for d in dvs])
    text = fill(text, "SignatureValue", [sv], [sv.text])
    return text


def do_verify(opts, idattrs, pos):
    data = open(pos[-1], "rb").read()
    rec = {"mode": "verify", "key": opts.get("--pubkey-cert-pem"), "ok": False,
           "restricted": opts.get("--enabled-key-data") == "raw-x509-cert"}
    LOG.append(rec)
    root = ET.fromstring(data)
    ids = register_ids(root, idattrs)
    start, sig = find_sig(root, ids, opts)
    rec.update(node=start.tag, id=start.attrib.get("ID"))
    uris = opts.get("--enabled-reference-uris")
    si, halg, covered = process_references("--verify", root, ids, sig, uris)
    rec["covered"] = [(t, i) for (t, i, _) in covered]
    rec["sig_parent_is_start"] = any(c is sig for c in start)
    own = [c for c in start if c.tag == SIG]
    rec["n_sig_children"] = len(own)
    rec["sig_is_last_own"] = bool(own) and own[-1] is sig
    pub = None
    if "--pubkey-cert-pem" in opts:
        pub = load_public_from_cert_file(opts["--pubkey-cert-pem"])
    if opts.get("--enabled-key-data") != "raw-x509-cert":
        emb = embedded_key(sig)
        if emb is not None:
            pub = emb
            rec["used_embedded_key"] = True
    if pub is None:
        raise Fail("no key")
    sv = sig.find("{%s}SignatureValue" % DS)
    try:
        pub.verify(base64.b64decode("".join(((sv.text if sv is not None else "") or "").split())),
                   canon(si).encode("utf-8"), padding.PKCS1v15(), halg())
    except Exception:
        raise Fail("signature value does not verify")
    rec["ok"] = True
    return 0, "", "OK\nSignedInfo References (ok/all): %d/%d\nManifests References (ok/all): 0/0\n" % (len(covered), len(covered))


def eval_xpath(root, xp):
    """Only the shape pysaml2 produces: (/*[local-name()="X"])+ from the document root."""
    steps = re.findall(r"/\*\[local-name\(\)\s*=\s*[\"']([^\"']+)[\"']\]", xp)
    if not steps or "".join(re.sub(r"/\*\[local-name\(\)\s*=\s*[\"'][^\"']+[\"']\]", "", xp).split()):
        raise Fail("unsupported xpath %s" % xp)
    cur = [(None, root)] if split_tag(root.tag)[1] == steps[0] else []
    for s in steps[1:]:
        nxt = []
        for _, n in cur:
            for c in n:
                if split_tag(c.tag)[1] == s:
                    nxt.append((n, c))
        cur = nxt
    return cur


def do_encrypt(opts, idattrs, pos):
    tmpl = ET.fromstring(open(pos[-1], "rb").read())
    doc = ET.fromstring(open(opts["--xml-data"], "rb").read())
    hits = eval_xpath(doc, opts["--node-xpath"])
    if not hits:
        raise Fail("xpath selects nothing")
    parent, node = hits[0]
    pub = load_public_from_cert_file(opts["--pubkey-cert-pem"])
    if tmpl.tag != ENCDATA:
        raise Fail("template is not EncryptedData")
    session = os.urandom(16)
    nonce = os.urandom(12)
    tail = node.tail
    node.tail = None
    plain = serialize(node).encode("utf-8")
    ct = nonce + AESGCM(session).encrypt(nonce, plain, b"standin")
    cvs = [n for n in doc_order(tmpl) if n.tag == "{%s}CipherValue" % XENC]
    ek = next((n for n in doc_order(tmpl) if n.tag == ENCKEY), None)
    if ek is None:
        raise Fail("template has no EncryptedKey")
    ek_cv = next(n for n in doc_order(ek) if n.tag == "{%s}CipherValue" % XENC)
    data_cv = next(n for n in cvs if n is not ek_cv)
    wrapped = pub.encrypt(session, padding.OAEP(mgf=padding.MGF1(hashes.SHA1()), algorithm=hashes.SHA1(), label=None))
    ek_cv.text = base64.b64encode(wrapped).decode()
    data_cv.text = base64.b64encode(ct).decode()
    tmpl.tail = tail
    if parent is None:
        doc = tmpl
    else:
        idx = list(parent).index(node)
        parent.remove(node)
        parent.insert(idx, tmpl)
    with open(opts["--output"], "wb") as f:
        f.write(serialize(doc).encode("utf-8"))
    LOG.append({"mode": "encrypt", "key": opts["--pubkey-cert-pem"], "node": node.tag, "ok": True})
    return 0, "", ""


def do_decrypt(opts, idattrs, pos):
    rec = {"mode": "decrypt", "key": opts.get("--privkey-pem"), "ok": False}
    LOG.append(rec)
    doc = ET.fromstring(open(pos[-1], "rb").read())
    parent_of = {c: p for p in doc_order(doc) for c in p}
    ed = next((n for n in doc_order(doc) if n.tag == ENCDATA), None)
    if ed is None:
        raise Fail("no EncryptedData")
    key = serialization.load_pem_private_key(open(opts["--privkey-pem"], "rb").read(), None)
    ek = next((n for n in doc_order(ed) if n.tag == ENCKEY), None)
    if ek is None:
        raise Fail("no EncryptedKey")
    ek_cv = next((n for n in doc_order(ek) if n.tag == "{%s}CipherValue" % XENC), None)
    data_cv = next((n for n in doc_order(ed) if n.tag == "{%s}CipherValue" % XENC and n is not ek_cv), None)
    if ek_cv is None or data_cv is None:
        raise Fail("no CipherValue")
    try:
        session = key.decrypt(base64.b64decode(ek_cv.text or ""),
                              padding.OAEP(mgf=padding.MGF1(hashes.SHA1()), algorithm=hashes.SHA1(), label=None))
        blob = base64.b64decode(data_cv.text or "")
        plain = AESGCM(session).decrypt(blob[:12], blob[12:], b"standin")
        new = ET.fromstring(plain)
    except Exception:
        raise Fail("decryption failed")
    new.tail = ed.tail
    p = parent_of.get(ed)
    if p is None:
        doc = new
    else:
        idx = list(p).index(ed)
        p.remove(ed)
        p.insert(idx, new)
    with open(opts["--output"], "wb") as f:
        f.write(serialize(doc).encode("utf-8"))
    rec["ok"] = True
    return 0, "", ""


def run(argv):
    a = list(argv[1:])
    if a and a[0] == "--version":
        return 0, "xmlsec1 1.2.37 (openssl)\n", ""
    if a and a[0] == "--list-transforms":
        # the transforms this stand-in implements (format of xmlsec1: header line, then a quoted list)
        names = ["enveloped-signature", "exc-c14n", "exc-c14n-with-comments", "c14n", "c14n-with-comments",
                 "sha1", "sha224", "sha256", "sha384", "sha512",
                 "rsa-sha1", "rsa-sha224", "rsa-sha256", "rsa-sha384", "rsa-sha512"]
        return 0, "Registered transform klasses:\n" + ",".join('"%s"' % n for n in names) + "\n", ""
    try:
        mode, opts, idattrs, pos = parse_args(a)
        if mode == "--sign":
            return do_sign(opts, idattrs, pos)
        if mode == "--verify":
            return do_verify(opts, idattrs, pos)
        if mode == "--encrypt":
            return do_encrypt(opts, idattrs, pos)
        if mode == "--decrypt":
            return do_decrypt(opts, idattrs, pos)
        return 1, "", "ERROR unknown mode %s\n" % mode
    except Fail as e:
        return 1, "", "FAIL\n%s\n" % e
    except Exception as e:  # malformed XML, unreadable files, ...
        return 1, "", "ERROR %s: %s\n" % (type(e).__name__, e)


class FakePopen:
    def __init__(self, com_list, stderr=None, stdout=None, **kw):
        self.returncode, self._o, self._e = run(com_list)

    def communicate(self, *a, **kw):
        return self._o.encode(), self._e.encode()


def install():
    import saml2.sigver

    saml2.sigver.Popen = FakePopen


BINARY = os.path.join(os.path.dirname(os.path.abspath(__file__)), "xmlsec1")

if __name__ == "__main__":
    rc, o, e = run(sys.argv)
    sys.stdout.write(o)
    sys.stderr.write(e)
    sys.exit(rc)
