import json,sys
for f in sys.argv[1:]:
    d=json.load(open(f))
    if 'case' in d:
        c=d['case']; c2={k:v for k,v in c.items() if k!='md'}
        print(json.dumps(c2,indent=1)[:3000]); print('IMPL ',json.dumps(d['impl'])[:1500]); print('MODEL',json.dumps(d['model'])[:1500]); print('WHY', d.get('why'))
    else:
        print(json.dumps({k:v for k,v in d.items() if k!='diverging_cases'},indent=1)[:3000])
        for dc in d.get('diverging_cases',[])[:4]:
            c2={k:v for k,v in dc['case'].items() if k!='md'}
            print(json.dumps(c2)[:2000]); print('IMPL ',json.dumps(dc['impl'])[:1500]); print('MODEL',json.dumps(dc['model'])[:1500]); print('PATH',dc.get('path'))
