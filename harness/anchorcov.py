"""Which lines of the ANCHORED pysaml2 functions did a correspondence run execute?

The correspondence check is differential testing: a line of an anchored function that no generated case executes is
a line on which the model is not tied to the code at all.  This module measures exactly that, on every run, with
`sys.monitoring` (Python 3.12): one LINE event per code location, disabled after its first hit, so the cost is a
constant per distinct line and nothing afterwards.  Works across the runner's fork pool: each worker hands the
lines it saw for the first time back with its result (`drain`), the parent merges (`merge`).

The anchored functions of a property are the innermost functions that overlap the `anchors.mechanism[].where`
line ranges of properties.jsonl AT THE PINNED COMMIT; `harness/anchors.json` holds them by qualified name (written
once by `python harness/anchorcov.py --derive`), so that the `fix:` commits, which shift line numbers, do not
matter.  At run time the qualified names are looked up in the CURRENT sources (ast), their executable lines come
from the compiled code objects (`co_lines`), and `report` says which were never executed.

Nothing here decides a property: the result goes to evidence (`anchor_coverage`) and to `harness/covreport.py`."""
import ast
import json
import os
import sys

ROOT = os.path.dirname(os.path.dirname(os.path.abspath(__file__)))
TOOL = 3  # a free sys.monitoring tool id (0 debugger, 1 coverage, 2 profiler, 5 optimizer)
_hits = set()
_new = []
_prefix = None
_on = False


def _saml2_dir():
    import saml2

    return os.path.dirname(os.path.abspath(saml2.__file__))


def install():
    """Start recording first executions of lines under the saml2 package directory."""
    global _prefix, _on
    if _on or not hasattr(sys, "monitoring"):
        return _on
    _prefix = _saml2_dir() + os.sep
    mon = sys.monitoring
    try:
        mon.use_tool_id(TOOL, "anchorcov")
    except ValueError:
        return False

    def on_line(code, line):
        fn = code.co_filename
        if fn.startswith(_prefix):
            key = (fn[len(_prefix):], line)
            if key not in _hits:
                _hits.add(key)
                _new.append(key)
        return mon.DISABLE

    mon.register_callback(TOOL, mon.events.LINE, on_line)
    mon.set_events(TOOL, mon.events.LINE)
    _on = True
    return True


def drain():
    """Lines seen for the first time in this process since the last drain (used by pool workers)."""
    global _new
    out, _new = _new, []
    return out


def merge(keys):
    for k in keys or ():
        k = (k[0], k[1])
        if k not in _hits:  # a worker that merges its own children's lines hands them on at its next drain
            _hits.add(k)
            _new.append(k)


def hits():
    return set(_hits)


# --------------------------------------------------------------------------- anchored functions


def _functions(tree):
    """-> list of (qualname, first_line, last_line) for every function/method, innermost included."""
    out = []

    def walk(node, prefix):
        for ch in ast.iter_child_nodes(node):
            if isinstance(ch, (ast.FunctionDef, ast.AsyncFunctionDef)):
                q = prefix + ch.name
                out.append((q, ch.lineno, ch.end_lineno))
                walk(ch, q + ".")
            elif isinstance(ch, ast.ClassDef):
                walk(ch, prefix + ch.name + ".")
            else:
                walk(ch, prefix)

    walk(tree, "")
    return out


def _parse_where(where):
    """'src/saml2/a.py:1-5,7-9; src/saml2/b.py:3' -> [(file, lo, hi), ...]"""
    out = []
    for part in where.split(";"):
        part = part.strip()
        if ":" not in part:
            continue
        f, ranges = part.split(":", 1)
        for r in ranges.split(","):
            r = r.strip()
            if not r:
                continue
            if "-" in r:
                lo, hi = r.split("-", 1)
            else:
                lo = hi = r
            try:
                out.append((f.strip(), int(lo), int(hi)))
            except ValueError:
                pass
    return out


def derive(pinned="28480bb7"):
    """Write harness/anchors.json from properties.jsonl and the pinned commit (needs git; run once)."""
    import subprocess

    res = {}
    cache = {}
    for l in open(os.path.join(ROOT, "properties.jsonl")):
        d = json.loads(l)
        fns = []
        for m in d["anchors"].get("mechanism", []):
            for f, lo, hi in _parse_where(m["where"]):
                if f not in cache:
                    src = subprocess.run(["git", "-C", "/repo", "show", "%s:%s" % (pinned, f)], capture_output=True, text=True).stdout
                    cache[f] = _functions(ast.parse(src)) if src else []
                over = [(q, a, b) for q, a, b in cache[f] if a <= hi and b >= lo]
                # innermost: drop a function that strictly contains another overlapping one
                # unless the range also touches its own body outside the inner ones (keep it simple: keep both
                # only for methods of classes -- nested helper functions are rare here)
                for q, a, b in over:
                    rel = f[len("src/saml2/"):] if f.startswith("src/saml2/") else f
                    if [rel, q] not in fns:
                        fns.append([rel, q])
        res[d["id"]] = fns
    with open(os.path.join(ROOT, "harness", "anchors.json"), "w") as fh:
        json.dump(res, fh, indent=1, sort_keys=True)
    return res


def _code_lines(code, out):
    for _s, _e, ln in code.co_lines():
        if ln is not None:
            out.add(ln)
    for c in code.co_consts:
        if hasattr(c, "co_lines"):
            _code_lines(c, out)


def _func_code(module_code, qual):
    """Find the code object of qualified name `qual` inside a compiled module."""
    parts = qual.split(".")

    def find(code, idx):
        for c in code.co_consts:
            if hasattr(c, "co_lines") and c.co_name == parts[idx]:
                if idx == len(parts) - 1:
                    return c
                r = find(c, idx + 1)
                if r is not None:
                    return r
        return None

    return find(module_code, 0)


def report(pid, with_source=False):
    """-> {"functions": {"file::qual": {"lines": n, "hit": m, "missed": [..]}}, "lines": N, "hit": M, "missing_functions": [...]}"""
    try:
        anchors = json.load(open(os.path.join(ROOT, "harness", "anchors.json")))
    except OSError:
        return {"error": "harness/anchors.json missing"}
    base = _saml2_dir()
    res = {"functions": {}, "lines": 0, "hit": 0, "missing_functions": []}
    mods = {}
    for rel, qual in anchors.get(pid, []):
        path = os.path.join(base, rel)
        if rel not in mods:
            try:
                src = open(path, encoding="utf-8").read()
                mods[rel] = (compile(src, path, "exec"), src.splitlines())
            except (OSError, SyntaxError):
                mods[rel] = (None, [])
        mcode, srclines = mods[rel]
        code = _func_code(mcode, qual) if mcode else None
        if code is None:
            res["missing_functions"].append("%s::%s" % (rel, qual))
            continue
        lines = set()
        _code_lines(code, lines)
        lines.discard(code.co_firstlineno)  # the def line itself runs at import/class creation, before monitoring
        # lines of nested defs' headers execute when the outer function runs; keep them
        hit = {ln for ln in lines if (rel, ln) in _hits}
        missed = sorted(lines - hit)
        ent = {"lines": len(lines), "hit": len(hit), "missed": missed}
        if with_source:
            ent["missed_source"] = ["%d: %s" % (ln, srclines[ln - 1].strip()) for ln in missed if ln - 1 < len(srclines)]
        res["functions"]["%s::%s" % (rel, qual)] = ent
        res["lines"] += len(lines)
        res["hit"] += len(hit)
    return res


if __name__ == "__main__":
    if "--derive" in sys.argv:
        r = derive()
        print({k: len(v) for k, v in r.items()})
